import traceback
from mindsdb_sql import parse_sql
from mindsdb_sql.planner import plan_query, query_planner
from mindsdb_sql.planner.step_result import Result
from mindsdb_sql.planner.query_plan import QueryPlan
from mindsdb_sql.render.sqlalchemy_render import SqlalchemyRender

def show(plan):
    for s in plan.steps:
        print('   ', s)

def tryplan(sql, **kw):
    print('##', sql, kw.get('integrations'))
    try:
        p = plan_query(parse_sql(sql), **kw)
        show(p)
    except Exception as e:
        print('   EXC', type(e).__name__, str(e)[:200])

tryplan('select * from INT1.tbl1 t1 join int2.tbl2 t2 on t1.a=t2.a', integrations=['int1','int2'], default_namespace='mindsdb')
tryplan('select * from int1.tbl1 t1 join int2.tbl2 t2 on t1.a=t2.a limit 2', integrations=['int1','int2'], default_namespace='mindsdb')
tryplan('select * from int1.tbl1 t1 right join int2.tbl2 t2 on t1.a=t2.a', integrations=['int1','int2'], default_namespace='mindsdb')
tryplan('select * from int1.tbl1 t1 join int2.tbl2 t2 on t1.a=t2.a where not t2.y = 1', integrations=['int1','int2'], default_namespace='mindsdb')
tryplan('select * from int1.tbl1 t1 join mindsdb.pred m join int2.tbl2 t2 on t1.a=t2.a using partition_size=10', integrations=['int1','int2'], default_namespace='mindsdb', predictor_metadata=[{'name':'pred','integration_name':'mindsdb'}])
tryplan('select case when (select max(a) from int2.t2) > 1 then 1 else 0 end from int1.t1', integrations=['int1','int2'], default_namespace='mindsdb')
tryplan('select case (select max(a) from int2.t2) when 1 then 1 else 0 end from int1.t1', integrations=['int1','int2'], default_namespace='mindsdb')

print(QueryPlan(steps=[]) == QueryPlan(steps=[]))
try: print(hash(Result(1)))
except Exception as e: print('hash EXC', type(e).__name__, e)

for sql in ['select cast(a as foo)', 'select count(a, b)', 'select a from t1 left outer join t2 on t1.a=t2.a', 'select a from t1 right join t2 on t1.a=t2.a', 'select a from t1 full outer join t2 on t1.a=t2.a', "select 'x\\\\'' OR 1=1 -- '"]:
    for d in ['mysql','sqlite']:
        try:
            print(d, '|', sql, '->', SqlalchemyRender(d).get_string(parse_sql(sql)).replace('\n',' '))
        except Exception as e:
            print(d, '|', sql, 'EXC', type(e).__name__, str(e)[:100])

# prepared
q = parse_sql('update t set a=?, b=? where c=?')
pl = query_planner.QueryPlanner(integrations=['int1'], default_namespace='int1')
list(pl.prepare_steps(q))
print(pl.get_statement_info()['parameters'])
for s in pl.execute_steps([1,2,3]): print(s)
