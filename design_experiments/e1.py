import time, traceback
from mindsdb_sql import parse_sql
from mindsdb_sql.exceptions import ParsingException
t=time.time()
for i in range(200):
    parse_sql('select a, b+1 from t1 join t2 on t1.x=t2.y where a > 3 and b in (1,2,3) order by a limit 5', 'mindsdb')
print('mindsdb parse/s', 200/(time.time()-t))
t=time.time()
for i in range(200):
    parse_sql('select a, b+1 from t1 join t2 on t1.x=t2.y where a > 3 and b in (1,2,3) order by a limit 5', 'mysql')
print('mysql parse/s', 200/(time.time()-t))
t=time.time()
for i in range(100):
    try: parse_sql('select a, b+1 from t1 join join t2', 'mindsdb')
    except ParsingException: pass
print('mindsdb err parse/s', 100/(time.time()-t))

cases = [
 ("select `primary_key` from t", 'mindsdb'),
 ("select @`a b`", 'mindsdb'),
 ("select '\\\\'", 'mindsdb'),
 ("select ?", 'mindsdb'),
 ("select -'x'", 'mindsdb'),
 ("CREATE SKILL s USING a=1", 'mindsdb'),
 ("CREATE KNOWLEDGE_BASE k USING model='m'", 'mindsdb'),
 ("select a->>'b'", 'mindsdb'),
 ("select ''''", 'mindsdb'),
 ("select '''a'", 'mindsdb'),
 ("select 0.00001", 'mindsdb'),
 ("select 1 where a > b + 1", 'mysql'),
 ("select a % 2 = 0", 'mysql'),
 ("select a % 2 = 0", 'sqlite'),
 ("select a % 2 = 0", 'mindsdb'),
 ("x y ; select 1", 'mindsdb'),
 ("CREATE MODEL m FROM db (SELECT * FROM t WHERE name = '') PREDICT y", 'mindsdb'),
 ("CREATE MODEL m FROM db (SELECT * FROM t WHERE name = 'it''s') PREDICT y", 'mindsdb'),
]
for sql, d in cases:
    try:
        q = parse_sql(sql, d)
        s = q.to_string()
        print(repr(sql), d, '->', repr(s))
        print('   tree:', q.to_tree().replace('\n',' ')[:300])
        try:
            q2 = parse_sql(s, d)
            print('   rt equal:', q2 == q, repr(q2.to_string()))
        except Exception as e:
            print('   rt fail:', type(e).__name__, str(e)[:100].replace('\n','|'))
    except Exception as e:
        print(repr(sql), d, 'EXC', type(e).__name__, str(e)[:150].replace('\n','|'))
