import sqlite3, random, collections, copy, sys
from mindsdb_sql import parse_sql
from mindsdb_sql.parser import ast
from mindsdb_sql.planner import plan_query, steps as S
from mindsdb_sql.exceptions import PlanningException

def fetch_queries(plan):
    # returns (partition_step or None, [fetch selects], apply step)
    part=None; sel=None; app=None
    for s in plan.steps:
        if isinstance(s,S.ApplyTimeseriesPredictorStep): app=s
    data_step=plan.steps[app.dataframe.step_num]
    def subs(x):
        if isinstance(x,S.MultipleSteps): return [q for y in x.steps for q in subs(y)]
        if isinstance(x,S.FetchDataframeStep): return [x.query]
        raise NotImplementedError(type(x))
    if isinstance(data_step,S.MapReduceStep):
        part=plan.steps[data_step.values.step_num]
        sel=subs(data_step.step)
    else: sel=subs(data_step)
    return part, sel, app

def subst(q, var):
    q=copy.deepcopy(q)
    def rec(n):
        if isinstance(n,list): return [rec(i) for i in n]
        if isinstance(n,ast.Constant) and isinstance(n.value,str) and n.value.startswith('$var['):
            return ast.Constant(var[n.value[5:-1]])
        if isinstance(n,ast.ASTNode):
            for k,v in list(vars(n).items()):
                if isinstance(v,(list,ast.ASTNode)): setattr(n,k,rec(v))
        return n
    return rec(q)

def run(sql, window, groups, rows, verbose=False):
    md=[{'name':'tsm','integration_name':'mindsdb','timeseries':True,'order_by_column':'ts','group_by_columns':groups,'window':window}]
    plan=plan_query(parse_sql(sql), integrations=['int1'], default_namespace='mindsdb', predictor_metadata=md)
    part,sels,app=fetch_queries(plan)
    c=sqlite3.connect(':memory:')
    c.execute('create table t1 (id, ts, g, v)')
    c.executemany('insert into t1 values (?,?,?,?)', rows)
    if part is not None:
        pvals=c.execute(part.query.to_string()).fetchall()
        names=[t.parts[-1] for t in part.query.targets]
    else: pvals=[()]; names=[]
    got={}
    for pv in pvals:
        var=dict(zip(names,pv)); out=[]
        for q in sels:
            out+=c.execute(subst(q,var).to_string()).fetchall()
        got[pv]=out
    return got, (app.output_time_filter.to_string() if app.output_time_filter is not None else None), plan

def expected(rows, cond, window, groups, gfilter):
    # cond: (op, t) ; rows (id, ts, g, v); gfilter: value or None
    sel=[r for r in rows if (gfilter is None or r[2]==gfilter)]
    if groups: parts=sorted(set((r[2],) for r in sel if True), key=lambda x:(x[0] is None, x[0]))
    else: parts=[()]
    res={}
    for p in parts:
        R=[r for r in sel if r[1] is not None and (not groups or r[2]==p[0])]
        op,t=cond
        def sat(x):
            return {'>':x>t,'>=':x>=t,'=':x==t,'<':x<t,'<=':x<=t}[op] if op in('>','>=','=','<','<=') else True
        if op in ('>','>='):
            S_=[r for r in R if sat(r[1])]
            cand=[r for r in R if (r[1]<=t if op=='>' else r[1]<t)]
        elif op=='=':
            S_=[]; cand=[r for r in R if r[1]<=t]
        elif op in('<','<='):
            S_=[r for r in R if sat(r[1])]; cand=None
        elif op=='latest':
            S_=[]; cand=R
        else:
            S_=R; cand=None
        res[p]=(S_,cand)
    return res

def valid(got_rows, S_, cand, window):
    g=collections.Counter(got_rows); s=collections.Counter(S_)
    rest=g-s
    if (s-g): return 'missing S rows'
    if cand is None:
        return None if not rest else 'extra rows'
    W=list(rest.elements())
    cc=collections.Counter(cand)
    if (collections.Counter(W)-cc): return 'window rows not candidates'
    if len(W)!=min(window,len(cand)): return f'window size {len(W)} != {min(window,len(cand))}'
    if W:
        m=min(r[1] for r in W)
        excl=list((cc-collections.Counter(W)).elements())
        if any(r[1]>m for r in excl): return 'not most recent'
    return None

rnd=random.Random(int(sys.argv[1]) if len(sys.argv)>1 else 1)
stat=collections.Counter(); ex={}
for it in range(1500):
    window=rnd.choice([1,2,3]); groups=rnd.choice([[],['g']])
    rows=[(i, rnd.choice([None,1,2,3,4,5]), rnd.choice([1,2]), rnd.choice([0,1])) for i in range(rnd.randint(0,8))]
    op=rnd.choice(['>','>=','=','<','<=','latest','none'])
    t=rnd.choice([1,2,3,4,5])
    gf=rnd.choice([None,1]) if groups else None
    conds=[]
    if op=='latest': conds.append('ta.ts > LATEST')
    elif op!='none': conds.append(f'ta.ts {op} {t}')
    if gf is not None: conds.append(f'ta.g = {gf}')
    where=(' where '+' and '.join(conds)) if conds else ''
    sql=f'select * from int1.t1 ta join mindsdb.tsm tb{where}'
    try: got,otf,plan=run(sql,window,groups,rows)
    except PlanningException as e: stat[('PlanningException',op)]+=1; continue
    exp=expected(rows,(op,t),window,groups,gf)
    key=(op,bool(groups),gf is not None)
    if set(got.keys())!=set(exp.keys()):
        stat[('PARTITIONS DIFFER',)+key]+=1; ex.setdefault(('part',)+key,(sql,rows,window,got,list(exp.keys()))); continue
    bad=None
    for p in exp:
        r=valid(got[p],*exp[p],window)
        if r: bad=r; break
    stat[('ok' if not bad else 'BAD:'+bad,)+key]+=1
    if bad: ex.setdefault((bad,)+key,(sql,rows,window,p,got[p],exp[p]))
for k,v in sorted(stat.items(), key=str): print(v,k)
for k,v in list(ex.items())[:6]: print('EX',k); print('   ',v)
