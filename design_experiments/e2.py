import time, sys
from mindsdb_sql.parser.dialects.mindsdb.parser import MindsDBParser
from mindsdb_sql.parser.dialects.mindsdb.lexer import MindsDBLexer
from mindsdb_sql.parser.parser import SQLParser
from mindsdb_sql.parser.dialects.mysql.parser import MySQLParser
for P in (MindsDBParser, SQLParser, MySQLParser):
    g = P._grammar
    print(P.__name__, 'productions', len(g.Productions), 'nonterminals', len(g.Nonterminals), 'terminals', len(g.Terminals), 'start', g.Start)
    lr = P._lrtable
    print('  states', len(lr.lr_action), 'sr', len(lr.sr_conflicts), 'rr', len(lr.rr_conflicts))
g = MindsDBParser._grammar
for p in g.Productions[:8]:
    print(p.number, p.name, p.prod, p.prec)

# Earley recognizer
def build(g):
    prods = {}
    for p in g.Productions[1:]:
        prods.setdefault(p.name, []).append(tuple(p.prod))
    return prods, g.Productions[1].name if False else g.Start

def nullable_set(prods):
    nullable=set()
    ch=True
    while ch:
        ch=False
        for n, alts in prods.items():
            if n in nullable: continue
            for a in alts:
                if all(s in nullable for s in a):
                    nullable.add(n); ch=True; break
    return nullable

def earley(prods, start, nullable, toks):
    n=len(toks)
    # item: (lhs, rhs, dot, origin)
    S=[set() for _ in range(n+1)]
    order=[[] for _ in range(n+1)]
    def add(i,it):
        if it not in S[i]:
            S[i].add(it); order[i].append(it)
    for a in prods[start]:
        add(0,(start,a,0,0))
    for i in range(n+1):
        k=0
        while k < len(order[i]):
            lhs,rhs,dot,org = order[i][k]; k+=1
            if dot < len(rhs):
                sym=rhs[dot]
                if sym in prods:
                    for a in prods[sym]:
                        add(i,(sym,a,0,i))
                    if sym in nullable:
                        add(i,(lhs,rhs,dot+1,org))
                else:
                    if i<n and toks[i]==sym:
                        add(i+1,(lhs,rhs,dot+1,org))
            else:
                for it in list(S[org]):
                    l2,r2,d2,o2=it
                    if d2<len(r2) and r2[d2]==lhs:
                        add(i,(l2,r2,d2+1,o2))
    return any(l==start and d==len(r) and o==0 for (l,r,d,o) in S[n])

prods,start=build(g)
nullable=nullable_set(prods)
print('start',start,'nullable',sorted(nullable))
lex=MindsDBLexer()
tests=[
 'select a, b+1 from t1 join t2 on t1.x=t2.y where a > 3 and b in (1,2,3) order by a limit 5',
 'x y ; select 1',
 'select 1 ; select 2',
 'create view v as (select 1; select 2)',
 "CREATE MODEL m FROM db (SELECT * FROM t WHERE name = 'x' and (a=1 or b=2)) PREDICT y using a=1",
 'select a < b < c',
 'select * from t where a between 1 and 2 and c = 3 or not d is null',
]
for sql in tests:
    toks=[t.type for t in lex.tokenize(sql)]
    t=time.time()
    r=earley(prods,start,nullable,toks)
    print(len(toks), r, round(time.time()-t,3),'s', sql[:60])
