import sqlite3, random, collections, sys
from mindsdb_sql import parse_sql
from mindsdb_sql.render.sqlalchemy_render import SqlalchemyRender
def mkdb(rnd_seed):
    rnd=random.Random(rnd_seed)
    c=sqlite3.connect(':memory:')
    c.execute('create table t1 (a int, b int, s text)'); c.execute('create table t2 (a int, c int)'); c.execute('create table t3 (a int, d int)')
    for t,n in (('t1',3),('t2',2),('t3',2)):
        for _ in range(rnd.randint(0,5)):
            vals=[rnd.choice([None,0,1,2,3]) for _ in range(n)]
            if t=='t1': vals[2]=rnd.choice([None,'x','y','xy'])
            c.execute(f'insert into {t} values ({",".join("?"*n)})', vals)
    return c
Q=[
 "select a, b from t1 where (a > 1) and ((b = 2) or (s like 'x%'))",
 "select distinct a from t1",
 "select t1.a, t2.c from t1 join t2 on t1.a = t2.a",
 "select t1.a, t2.c from t1 inner join t2 on t1.a = t2.a",
 "select t1.a, t2.c from t1 left join t2 on t1.a = t2.a",
 "select t1.a, t2.c from t1 left outer join t2 on t1.a = t2.a",
 "select t1.a, t2.c from t1 right join t2 on t1.a = t2.a",
 "select t1.a, t2.c from t1 full join t2 on t1.a = t2.a",
 "select t1.a, t2.c from t1 full outer join t2 on t1.a = t2.a",
 "select t1.a, t2.c from t1 cross join t2",
 "select t1.a, t2.c from t1, t2 where t1.a = t2.a",
 "select t1.a, t2.c, t3.d from t1 join t2 on t1.a = t2.a left join t3 on t3.a = t2.a",
 "select a, count(*) as n, sum(b) from t1 group by a having (count(*) > 1)",
 "select a, b from t1 order by a desc, b",
 "select a, b from t1 order by a nulls first, b desc nulls last",
 "select a, b from t1 order by a, b limit 2 offset 1",
 "select a from t1 where a in (select a from t2)",
 "select a from t1 where a not in (1, 2)",
 "select a from t1 where exists (select 1 from t2 where t2.a = t1.a)",
 "select a, (select max(c) from t2) as m from t1",
 "select x.a from (select a from t1 where b > 0) as x",
 "select a from t1 union select a from t2",
 "select a from t1 union all select a from t2",
 "select a from t1 intersect select a from t2",
 "select a from t1 except select a from t2",
 "with c1 as (select a from t1) select a from c1",
 "select a - (b - 1), a / (b * 2), - (a + b), (a + b) * 2, a % 2 from t1",
 "select case when (a > 1) then 'hi' else 'lo' end, case a when 1 then 'one' end from t1",
 "select cast(a as text), cast(s as integer) from t1",
 "select a, sum(b) over (partition by a order by b desc) from t1",
 "select a from t1 where not (a = 1)",
 "select a from t1 where (a is null) or (b is not null)",
 "select a from t1 where a between 1 and 2",
 "select a, b from t1 where (a = 1) = (b = 1)",
 "select coalesce(a, 0), abs(b), upper(s), length(s) from t1",
 "select s || 'z' from t1",
 "select count(distinct a) from t1",
]
stat=collections.Counter()
for sql in Q:
    tree=parse_sql(sql)
    for target in ['sqlite','mysql','postgresql']:
        try: r=SqlalchemyRender(target).get_string(tree, with_failback=False)
        except Exception as e:
            print('RENDER-EXC',target,sql,type(e).__name__,str(e)[:80]); stat['render-exc']+=1; continue
        res=collections.Counter()
        for seed in range(25):
            A=mkdb(seed); B=mkdb(seed)
            gt=A.execute(sql).fetchall()
            try: got=B.execute(r).fetchall()
            except Exception as e:
                res['exec-err:'+str(e)[:50]]+=1; continue
            ordered='order by' in sql
            same = (gt==got) if ordered else (collections.Counter(gt)==collections.Counter(got))
            res['ok' if same else 'DIFF']+=1
        tag='ok' if set(res)=={'ok'} else dict(res)
        if tag!='ok': print(target,'|',sql,'|',tag,'|',' '.join(r.split())[:150])
        stat[(target,'ok' if tag=='ok' else 'notok')]+=1
print(dict(stat))
