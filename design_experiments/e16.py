import time, collections, os, sys
import hypothesis
from hypothesis import given, settings, strategies as st, HealthCheck, seed, event, Phase
from mindsdb_sql import parse_sql, get_lexer_parser
from mindsdb_sql.exceptions import ParsingException
from sly.lex import LexError
sys.path.insert(0,'/tmp/exp')
from e5lib import grammar, min_depths, lexeme
import random
dialect='mindsdb'
lexer, prods, start = grammar(dialect)
depths=min_depths(prods)
# order alternatives by min depth
def altdepth(a): return max([depths[s] for s in a if s in prods] or [0])
for n in prods: prods[n]=sorted(prods[n], key=lambda a:(altdepth(a),len(a)))
POOL={'ID':['a','b','t1','`a b`','`select`','x1'],'INTEGER':['0','1','10'],'FLOAT':['1.5','0.25'],'QUOTE_STRING':["'x'","''","'a b'"],'DQUOTE_STRING':['"x"','"a b"'],'VARIABLE':['@v'],'SYSTEM_VARIABLE':['@@sv']}
@st.composite
def sentence(draw, budget):
    out=[]
    rnd=random.Random(0)
    def derive(sym, b):
        if sym not in prods:
            if sym in POOL: out.append(draw(st.sampled_from(POOL[sym])))
            else: out.append(lexeme(sym, lexer, rnd))
            return
        alts=prods[sym]
        if b<=0:
            m=altdepth(alts[0]); alts=[a for a in alts if altdepth(a)==m]
        a = alts[0] if len(alts)==1 else alts[draw(st.integers(0,len(alts)-1))]
        for s in a: derive(s, b-1)
    derive(start, budget)
    return ' '.join(out)
stats=collections.Counter()
@seed(int(os.environ.get('VERIF_SEED','1')))
@settings(max_examples=int(sys.argv[1]), database=None, deadline=None, suppress_health_check=[HealthCheck.too_slow, HealthCheck.data_too_large], phases=[Phase.generate])
@given(st.integers(3,8).flatmap(sentence))
def test(s):
    stats['n']+=1
    try:
        q=parse_sql(s, dialect); stats['acc']+=1; stats['kind:'+type(q).__name__]+=1
    except (ParsingException, LexError): stats['rej']+=1
    except Exception as e: stats['crash']+=1
t=time.time(); test(); dt=time.time()-t
print('examples',stats['n'],'acc',stats['acc'],'rej',stats['rej'],'crash',stats['crash'],'time',round(dt,1),'s ->',round(stats['n']/dt,1),'/s')
print(sorted([(v,k) for k,v in stats.items() if k.startswith('kind:')],reverse=True)[:45])
