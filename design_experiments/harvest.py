import inspect, pkgutil, sys, os, importlib, json, traceback
sys.path.insert(0, '/repo')
import mindsdb_sql
from mindsdb_sql import parse_sql as real_parse
seen = {}
def rec_parse(sql, dialect='mindsdb'):
    try:
        r = real_parse(sql, dialect); ok=True
    except Exception as e:
        seen.setdefault((sql, dialect), False); raise
    seen.setdefault((sql, dialect), True)
    return r
base='/repo/tests'
mods=[]
for root, dirs, files in os.walk(base):
    for f in files:
        if f.startswith('test_') and f.endswith('.py'):
            rel=os.path.relpath(os.path.join(root,f), '/repo')[:-3].replace('/','.')
            mods.append(rel)
import pytest
for m in sorted(mods):
    try:
        mod=importlib.import_module(m)
    except Exception as e:
        print('skip', m, e); continue
    if hasattr(mod,'parse_sql'): mod.parse_sql=rec_parse
    for cname, klass in inspect.getmembers(mod, inspect.isclass):
        if not cname.startswith('Test'): continue
        try: obj=klass()
        except Exception: continue
        for tname, meth in inspect.getmembers(obj, inspect.ismethod):
            if not tname.startswith('test_'): continue
            sig=inspect.signature(meth)
            combos=[[]]
            if 'dialect' in sig.parameters: combos=[['mindsdb'],['mysql'],['sqlite']]
            if any(p not in ('dialect',) for p in sig.parameters): 
                if set(sig.parameters)-{'dialect'}: continue
            for args in combos:
                try: meth(*args)
                except BaseException as e: pass
acc=[{'sql':k[0],'dialect':k[1]} for k,v in seen.items() if v]
rej=[{'sql':k[0],'dialect':k[1]} for k,v in seen.items() if not v]
json.dump(acc, open('/tmp/exp/accepted.json','w')); json.dump(rej, open('/tmp/exp/rejected.json','w'))
print('accepted', len(acc), 'rejected', len(rej))
import collections
print(collections.Counter(a['dialect'] for a in acc))
