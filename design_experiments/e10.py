from mindsdb_sql import parse_sql
from mindsdb_sql.planner import plan_query
def tp(sql, **kw):
    print('##', sql)
    try:
        p=plan_query(parse_sql(sql), **kw)
        for s in p.steps: print('    ', s)
    except Exception as e: print('   EXC', type(e).__name__, e)
kw=dict(integrations=['int1','int2'], default_namespace='mindsdb')
tp('select int1.x from int1.t1 as a join int1.t2 as int1 on a.id=int1.id', **kw)
tp('select int1.t1.x, t1.y from int1.t1', **kw)
tp('select x from int1.t1 where y in (select y from int1.t2)', **kw)
tp('select (select max(y) from int1.t2) m, x from int1.t1', **kw)
tp('select x, x+1, count(*) from int1.t1 group by x', **kw)
tp('with c as (select x from int1.t1) select x from c', **kw)
tp('select x from int1.t1 union select x from int1.t2', **kw)
tp('select x from int1.t1 union select x from int2.t2', **kw)
tp('select INT1.t1.x from INT1.t1', **kw)
tp('select * from int1.t1 where a in (select b from int2.t2) limit 3', **kw)
tp('select t1.a from int1.t1 left join int2.t2 on t1.a=t2.a and t2.b=1 where t1.c=2 or t2.d=3', **kw)
# TS
md=[{'name':'tsm','integration_name':'mindsdb','timeseries':True,'order_by_column':'ts','group_by_columns':['g'],'window':2}]
tp('select * from int1.t1 ta join mindsdb.tsm tb where ta.ts in (1,2) and ta.g = 1', predictor_metadata=md, **kw)
tp('select * from int1.t1 ta join mindsdb.tsm tb where ta.ts = 3 and ta.g = 1 limit 2', predictor_metadata=md, **kw)
