import collections, re
from mindsdb_sql import parse_sql
from mindsdb_sql.planner import query_planner, plan_query
from mindsdb_sql.exceptions import PlanningException
KW=dict(integrations=['int1','int2'], default_namespace='int1')
TEMPLATES=[
 "select ? as x, a from t1 where b = ? and c in (?, ?)",
 "select a from t1 where b between ? and ?",
 "select case ? when 1 then ? else ? end from t1",
 "select case when a = ? then ? end from t1 where b = ?",
 "select substring(a from ?) from t1 where b = ?",
 "select a from t1 join t2 on t1.x = ? and t2.y = ? where t1.z = ?",
 "select * from (select a from t1 where b = ?) as s1 join (select a from t2 where c = ?) as s2 on s1.a = s2.a where s1.a = ?",
 "select a, count(*) from t1 where b = ? group by a having count(*) > ? order by a limit 5",
 "update t1 set a = ?, b = ? where c = ?",
 "insert into t1 (a, b) values (?, ?), (?, ?)",
 "delete from t1 where a = ? and b = ?",
 "select a from t1 where b = ? union select a from t2 where c = ?",
 "select a from t1 where b in (select b from t2 where c = ?) and d = ?",
 "select coalesce(a, ?) from t1 where b = ? order by a",
 "select a from int1.t1 x join int2.t3 y on x.a = y.a where x.b = ? and y.d = ?",
]
def steps_repr(steps): return [repr(s) for s in steps]
res=collections.Counter()
for tpl in TEMPLATES:
    n=tpl.count('?')
    vals=list(range(101,101+n))
    it=iter(vals); inlined=re.sub(r'\?', lambda m: str(next(it)), tpl)
    pl=query_planner.QueryPlanner(**KW)
    try:
        for s in pl.prepare_steps(parse_sql(tpl)): s.set_result(None)
        cnt=len(pl.get_statement_info()['parameters'])
    except Exception as e:
        print('PREP-EXC',tpl,type(e).__name__,str(e)[:80]); res['prep-exc']+=1; continue
    try: got=steps_repr(list(pl.execute_steps(vals)))
    except Exception as e: got='EXC '+type(e).__name__+': '+str(e)[:60]
    try: exp=steps_repr(plan_query(parse_sql(inlined), **KW).steps)
    except Exception as e: exp='EXC '+type(e).__name__+': '+str(e)[:60]
    ok = (cnt==n) and got==exp
    res['ok' if ok else 'BAD']+=1
    if not ok:
        print('BAD n=%d reported=%d'%(n,cnt), '|', tpl); print('    got:',str(got)[:230]); print('    exp:',str(exp)[:230])
    # wrong count
    pl=query_planner.QueryPlanner(**KW)
    for s in pl.prepare_steps(parse_sql(tpl)): s.set_result(None)
    try: list(pl.execute_steps(vals+[1])); res['wrongcount-noexc']+=1; print('NOEXC on wrong count', tpl)
    except PlanningException: res['wrongcount-ok']+=1
    except Exception as e: res['wrongcount-other:'+type(e).__name__]+=1
print(dict(res))
