import json, random, collections, re, sys
from mindsdb_sql import parse_sql, get_lexer_parser
from mindsdb_sql.exceptions import ParsingException
from sly.lex import LexError
acc=[a['sql'] for a in json.load(open('/tmp/exp/accepted.json')) if a['dialect']=='mindsdb']
rnd=random.Random(3)
def lex(s):
    lexer,_=get_lexer_parser('mindsdb'); return list(lexer.tokenize(s))
def status(text):
    try: parse_sql(text); return 'ok', None
    except ParsingException as e:
        m=str(e)
        if m.startswith('Syntax error, unexpected end of query'): return 'eof', m
        if m.startswith('Syntax error, unknown input'): return 'tok', m
        return 'other', m
    except LexError as e: return 'lex', str(e)
    except Exception as e: return 'crash', type(e).__name__
res=collections.Counter(); ex={}
N=int(sys.argv[1])
for it in range(N):
    s=re.sub(r'[\s;]+$','',rnd.choice(acc))
    try: toks=lex(s)
    except Exception: continue
    if len(toks)<3: continue
    # mutate: delete / dup / replace token by text edit
    i=rnd.randrange(len(toks)); t=toks[i]
    mode=rnd.choice(['del','dup','repl','trunc'])
    if mode=='del': s2=s[:t.index]+s[t.end:]
    elif mode=='dup': s2=s[:t.end]+' '+s[t.index:t.end]+s[t.end:]
    elif mode=='repl':
        u=rnd.choice(toks); s2=s[:t.index]+s[u.index:u.end]+s[t.end:]
    else: s2=s[:t.index]
    # relayout: put newline before some tokens
    try: toks2=lex(s2)
    except Exception: res['lexfail']+=1; continue
    if not toks2: continue
    st,msg=status(s2)
    res[st]+=1
    if st not in ('tok','eof'): 
        if st in('crash','other'): ex.setdefault((st,msg[:50] if msg else ''), s2)
        continue
    # find k by prefix parsing
    k=None
    for j in range(1,len(toks2)+1):
        pre=s2[:toks2[j-1].end]
        stj,_=status(pre)
        if stj=='tok': k=j-1; break
        if stj in ('crash','other','lex'): k=('x',stj); break
    lines=msg.split('\n')
    src=[l for l in lines if l.startswith('>')]
    caret=[l for l in lines if re.fullmatch(r'-+\^+',l)]
    if not caret: res['nocaret']+=1; ex.setdefault('nocaret',(s2,msg)); continue
    c=caret[0]; col=c.index('^')-1; ln=c.count('^')
    last=src[-1][1:]
    if st=='eof':
        if k is not None: res['MISMATCH eof but prefix tok']+=1; ex.setdefault('eofmis',(s2,msg,k)); 
        else:
            ok = (col==len(last.rstrip()) or col==len(last)) and ln==1
            res['eof-ok' if ok else 'eof-BAD']+=1
            if not ok: ex.setdefault('eof-BAD',(s2,msg))
        continue
    if k is None or isinstance(k,tuple): res['k?']+=1; ex.setdefault('k?',(s2,msg,k)); continue
    tk=toks2[k]; txt=s2[tk.index:tk.end]
    marked=last[col:col+ln]
    # source line of token
    ls=s2.rfind('\n',0,tk.index)+1
    prefix_src=' '.join(s2[ls:tk.index].split())
    prefix_msg=' '.join(last[:col].split())
    ok = marked==txt and prefix_src==prefix_msg
    res['tok-ok' if ok else 'tok-BAD']+=1
    if not ok: ex.setdefault(('tok-BAD', '\n' in s2), (s2,msg,k,txt,marked))
print(dict(res))
for k,v in ex.items(): print('==',k); print(str(v)[:700])
