import inspect, sys, os, importlib, json, copy, collections, traceback
sys.path.insert(0,'/repo')
from mindsdb_sql.planner import query_planner
import mindsdb_sql.planner as planner_pkg
from mindsdb_sql.planner.step_result import Result
from mindsdb_sql.planner import steps as S
from mindsdb_sql.parser.ast.base import ASTNode
from mindsdb_sql.parser.ast import Parameter
from mindsdb_sql.parser.ast.create import TableColumn
real=planner_pkg.plan_query
rec=[]
def rec_plan(query, *a, **kw):
    q0=copy.deepcopy(query); kw0=copy.deepcopy(kw)
    try:
        p=real(query,*a,**kw)
        rec.append((q0,kw0,p,None)); return p
    except Exception as e:
        rec.append((q0,kw0,None,e)); raise
mods=['tests.test_planner.'+f[:-3] for f in os.listdir('/repo/tests/test_planner') if f.startswith('test_') and f!='test_prepared_statement.py']
for m in sorted(mods):
    mod=importlib.import_module(m)
    if hasattr(mod,'plan_query'): mod.plan_query=rec_plan
    for cname, klass in inspect.getmembers(mod, inspect.isclass):
        if not cname.startswith('Test'): continue
        obj=klass()
        for tname, meth in inspect.getmembers(obj, inspect.ismethod):
            if tname.startswith('test_'):
                try: meth()
                except BaseException: pass
print('plans recorded', len(rec), 'errors', sum(1 for r in rec if r[3] is not None))
print(collections.Counter(type(r[3]).__name__ for r in rec if r[3] is not None))

def refs(x, acc, seen):
    if id(x) in seen: return
    if isinstance(x, Result): acc.append(x.step_num); return
    if isinstance(x, (str,int,float,bool,type(None))): return
    seen.add(id(x))
    if isinstance(x, (list,tuple,set)):
        for i in x: refs(i,acc,seen)
    elif isinstance(x, dict):
        for k,v in x.items(): refs(k,acc,seen); refs(v,acc,seen)
    elif isinstance(x, S.PlanStep):
        for k,v in vars(x).items():
            if k in('step_num','result_data'): continue
            refs(v,acc,seen)
    elif isinstance(x,(ASTNode,TableColumn)) or hasattr(x,'__dict__'):
        for k,v in vars(x).items(): refs(v,acc,seen)
viol=collections.Counter(); ex={}
for q0,kw0,p,e in rec:
    if p is None: continue
    steps=p.steps
    consumed=set()
    for i,s in enumerate(steps):
        if s.step_num!=i: viol['numbering']+=1; ex.setdefault('numbering',(str(q0),[str(t) for t in steps]))
        def check(step, pos_top, sub_idx=None):
            acc=[]; 
            for k,v in vars(step).items():
                if k in('step_num','result_data'): continue
                if isinstance(step,(S.MapReduceStep,)) and k=='step': continue
                if isinstance(step,(S.MultipleSteps,)) and k=='steps': continue
                refs(v,acc,set())
            for r in acc:
                consumed.add(r)
                if isinstance(r,int):
                    if not r<pos_top: viol['forward-ref']+=1; ex.setdefault('forward-ref',(str(q0),[str(t) for t in steps]))
                else:
                    a,b=r.split('_'); 
                    if not (int(a)==pos_top and sub_idx is not None and int(b)<sub_idx): viol['bad-subref']+=1; ex.setdefault('bad-subref',(str(q0),[str(t) for t in steps]))
            subs=None
            if isinstance(step,S.MapReduceStep): subs=step.step if isinstance(step.step,list) else [step.step]
            if isinstance(step,S.MultipleSteps): subs=step.steps
            if subs:
                for j,ss in enumerate(subs): check(ss,pos_top,j)
        check(s,i)
    dangling=[i for i in range(len(steps)-1) if i not in consumed]
    if dangling:
        viol['dangling']+=1; ex.setdefault(('dangling',len(ex)),(str(q0).replace('\n',' '),[str(t)[:150] for t in steps],dangling))
print(dict(viol))
for k,v in list(ex.items())[:8]:
    print('==',k); print(v[0][:300]); [print('    ',t) for t in v[1]]; print(v[2:] )
