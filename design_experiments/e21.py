import json, collections, copy
from mindsdb_sql import parse_sql
from mindsdb_sql.parser.ast.base import ASTNode
from mindsdb_sql.parser.ast.create import TableColumn
from mindsdb_sql.render.sqlalchemy_render import SqlalchemyRender
from sqlalchemy.exc import SQLAlchemyError
def mutables(x, acc, path=''):
    if isinstance(x,(str,int,float,bool,type(None),bytes)): return
    if id(x) in acc: return
    if isinstance(x,(list,dict,set)) or isinstance(x,(ASTNode,TableColumn)) or hasattr(x,'__dict__'):
        acc[id(x)]=(type(x).__name__,path)
    if isinstance(x,(list,tuple,set)):
        for i,v in enumerate(x): mutables(v,acc,path+f'[{i}]')
    elif isinstance(x,dict):
        for k,v in x.items(): mutables(v,acc,path+f'{{{k}}}')
    elif hasattr(x,'__dict__'):
        for k,v in vars(x).items(): mutables(v,acc,path+'.'+k)
def struct(x):
    if isinstance(x,(ASTNode,TableColumn)): return (type(x).__name__, tuple(sorted((k,struct(v)) for k,v in vars(x).items())))
    if isinstance(x,(list,tuple)): return ('L',tuple(struct(i) for i in x))
    if isinstance(x,dict): return ('D',tuple((repr(k),struct(v)) for k,v in x.items()))
    return ('V',type(x).__name__,repr(x))
acc=json.load(open('/tmp/exp/accepted.json'))
b=collections.Counter(); ex={}
r17=collections.Counter(); ex17={}
for a in acc:
    q=parse_sql(a['sql'],a['dialect'])
    c=q.copy()
    if not (c==q and q==c): b['copy-not-equal']+=1; ex.setdefault('copy-not-equal',a['sql'])
    if str(c)!=str(q): b['copy-str-diff']+=1
    if struct(c)!=struct(q): b['copy-struct-diff:'+type(q).__name__]+=1; ex.setdefault('copy-struct-diff:'+type(q).__name__,a['sql'])
    m1={}; m2={}; mutables(q,m1); mutables(c,m2)
    shared=set(m1)&set(m2)
    for s in shared:
        k='shared:'+m1[s][0]; b[k]+=1; ex.setdefault(k,(a['sql'][:80],m1[s][1]))
    if (q==q) is not True: b['refl-not-True']+=1
    # C17
    snap=struct(q)
    for d in ['mysql','postgresql','sqlite','mssql','oracle']:
        try:
            SqlalchemyRender(d).get_string(q)
        except Exception as e:
            k=('fallback-raise',type(e).__name__,type(q).__name__); r17[k]+=1; ex17.setdefault(k,a['sql'])
        try:
            SqlalchemyRender(d).get_string(q, with_failback=False)
        except (SQLAlchemyError, NotImplementedError): r17['nofallback-allowed-exc']+=1
        except Exception as e:
            k=('nofallback-raise',type(e).__name__); r17[k]+=1; ex17.setdefault(k,a['sql'])
    if struct(q)!=snap: r17['MUTATED:'+type(q).__name__]+=1; ex17.setdefault('MUTATED:'+type(q).__name__,a['sql'])
print('C18',dict(b)); 
for k,v in ex.items(): print('  ',k,str(v)[:200])
print('C17'); 
for k,v in r17.most_common(): print('  ',v,k,' '.join(str(ex17.get(k,'')).split())[:160])
