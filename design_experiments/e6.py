import itertools, sys, sqlite3, collections
from mindsdb_sql import parse_sql
from mindsdb_sql.parser import ast
# model trees: ('leaf',name) | ('u-',x) | ('not',x) | ('bin',op,l,r) | ('between',x,lo,hi) | ('isnull',x,neg) | ('in',x,neg)
CLS = {'*':6,'/':6,'%':6,'+':5,'-':5,'=':4,'!=':4,'<':4,'>=':4,'like':4,'and':2,'or':1}
def prec(t):
    k=t[0]
    if k=='leaf': return 9
    if k=='u-': return 7
    if k=='not': return 3
    if k=='bin': return CLS[t[1]]
    return 4
def pr(t, ctx=0, right=False):
    k=t[0]
    if k=='leaf': s=t[1]
    elif k=='u-':
        s='- '+pr(t[1],7)
    elif k=='not':
        s='NOT '+pr(t[1],3)
    elif k=='bin':
        p=CLS[t[1]]
        if p==4:
            s=pr(t[2],5)+' '+t[1].upper()+' '+pr(t[3],5)
        else:
            s=pr(t[2],p)+' '+t[1].upper()+' '+pr(t[3],p,True)
    elif k=='between':
        s=pr(t[1],5)+' BETWEEN '+pr(t[2],5)+' AND '+pr(t[3],5)
    elif k=='isnull':
        s=pr(t[1],5)+(' IS NOT NULL' if t[2] else ' IS NULL')
    elif k=='in':
        s=pr(t[1],5)+(' NOT IN' if t[2] else ' IN')+' (1, 2)'
    p=prec(t)
    if p<ctx or (right and p==ctx and k=='bin'): s='('+s+')'
    return s
def shape(n):
    if isinstance(n, ast.Identifier): return ('leaf', n.parts[0])
    if isinstance(n, ast.NullConstant): return ('leaf','NULL')
    if isinstance(n, ast.Constant): return ('leaf', str(n.value))
    if isinstance(n, ast.UnaryOperation):
        return ('u-' if n.op=='-' else 'not', shape(n.args[0]))
    if isinstance(n, ast.BetweenOperation): return ('between',)+tuple(shape(a) for a in n.args)
    if isinstance(n, ast.BinaryOperation):
        if n.op in ('is','is not') and isinstance(n.args[1], ast.NullConstant): return ('isnull', shape(n.args[0]), n.op=='is not')
        if n.op in ('in','not in'): return ('in', shape(n.args[0]), n.op=='not in')
        return ('bin', n.op, shape(n.args[0]), shape(n.args[1]))
    return ('?', type(n).__name__)
leaves=[('leaf','a'),('leaf','b'),('leaf','c'),('leaf','d')]
def gen(nops, li=[0]):
    # all trees with nops operators; leaves assigned in order
    if nops==0:
        yield None
        return
    for op in ['u-','not','*','%','+','-','=','<','like','and','or','between','isnull','in']:
        if op in ('u-','not','isnull','in'):
            for x in gen(nops-1): yield (op,x)
        elif op=='between':
            for i in range(nops):
                for j in range(nops-i):
                    for x in gen(i):
                        for y in gen(j):
                            for z in gen(nops-1-i-j): yield (op,x,y,z)
        else:
            for i in range(nops):
                for x in gen(i):
                    for y in gen(nops-1-i): yield (op,x,y)
def build(sk, names):
    if sk is None: return ('leaf', next(names))
    op=sk[0]
    if op=='u-': return ('u-', build(sk[1],names))
    if op=='not': return ('not', build(sk[1],names))
    if op=='isnull': return ('isnull', build(sk[1],names), False)
    if op=='in': return ('in', build(sk[1],names), False)
    if op=='between': return ('between', build(sk[1],names), build(sk[2],names), build(sk[3],names))
    return ('bin', op, build(sk[1],names), build(sk[2],names))
def ok(t, parent_cmp=False, parens=False):
    # carve-out: no class-4 node directly (unparenthesised) under class-4 node
    k=t[0]
    if k=='leaf': return True
    iscmp = prec(t)==4
    kids=[x for x in t[1:] if isinstance(x, tuple)]
    for c in kids:
        if iscmp and prec(c)==4: return False   # would need parens -> then it's parenthesised: allowed, but skip for simplicity
        if not ok(c): return False
    return True
dialect=sys.argv[1]; N=int(sys.argv[2])
bad=collections.Counter(); tot=0; ex={}
for sk in gen(N):
    t=build(sk, iter('abcdefgh'))
    if not ok(t): continue
    s=pr(t)
    tot+=1
    try:
        q=parse_sql('select '+s+' from t', dialect)
    except Exception as e:
        k=('reject', type(e).__name__); bad[k]+=1; ex.setdefault(k,s); continue
    sh=shape(q.targets[0])
    if sh!=t:
        k=('shape', t[0] if t[0]!='bin' else t[1]); bad[k]+=1; ex.setdefault(k,(s,sh))
print(dialect, N, 'total', tot, 'bad', sum(bad.values()))
for k,v in bad.most_common(): print(k,v, ex[k])
