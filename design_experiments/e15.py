import datetime as dt
from mindsdb_sql.parser.ast import *
from mindsdb_sql.render.sqlalchemy_render import SqlalchemyRender
vals=["plain", "a'b", "a\\", "\\' OR 1=1 -- ", "50%", ":x", "a\nb", "é中", "", 'q"q', "`bt`", 5, -3, 1.5, 1e-7, float('inf'), True, None, dt.date(2020,1,2)]
for d in ['mysql','postgresql','sqlite','mssql','oracle']:
    r=SqlalchemyRender(d)
    print('==',d)
    for v in vals:
        q=Select(targets=[Identifier('c')], from_table=Identifier('t'), where=BinaryOperation('=',args=[Identifier('c'), Constant(v)]))
        q2=Select(targets=[Constant(v)])
        try: s=r.get_string(q,with_failback=False).replace('\n',' ')
        except Exception as e: s='EXC '+type(e).__name__+' '+str(e)[:60]
        try: s2=r.get_string(q2,with_failback=False).replace('\n','\\n')
        except Exception as e: s2='EXC '+type(e).__name__+' '+str(e)[:60]
        print('  ',repr(v),'|',s,'|',s2)
q=Insert(table=Identifier('t'), columns=[Identifier('a')], values=[[Constant("x'y")],[Constant('z\\')]])
print(SqlalchemyRender('mysql').get_string(q), '|', q.to_string())
q=Update(table=Identifier('t'), update_columns={'a':Constant("x'y")}, where=BinaryOperation('in',args=[Identifier('b'),Tuple([Constant('p%'),Constant(2)])]))
print(SqlalchemyRender('postgresql').get_string(q).replace('\n',' '), '|', q.to_string())
