import json, re, collections, sys, time
sys.path.insert(0,'/tmp/exp')
from e2 import earley, nullable_set
from mindsdb_sql import parse_sql, get_lexer_parser
acc=json.load(open('/tmp/exp/accepted.json'))
G={}
def gram(d):
    if d not in G:
        lexer, parser = get_lexer_parser(d)
        prods={}
        for p in parser._grammar.Productions[1:]:
            prods.setdefault(p.name, []).append(tuple(p.prod))
        G[d]=(prods, parser._grammar.Start, nullable_set(prods))
    return G[d]
ws=re.compile(r'(?:\s+|--[^\n]*|/\*[\s\S]*?\*/)*')
bad=collections.Counter(); ex={}
t0=time.time(); n=0
for a in acc:
    sql,d=a['sql'],a['dialect']
    s=re.sub(r'[\s;]+$', '', sql)
    lexer,_=get_lexer_parser(d)
    toks=list(lexer.tokenize(s))
    prods,start,nl=gram(d)
    n+=1
    if not earley(prods,start,nl,[t.type for t in toks]):
        bad['earley-reject']+=1; ex.setdefault('earley-reject',(d,sql))
    pos=0; okk=True
    for t in toks:
        gap=s[pos:t.index]
        if not ws.fullmatch(gap): okk=False; break
        pos=t.end
    if okk and not ws.fullmatch(s[pos:]): okk=False
    if not okk:
        bad['tiling']+=1; ex.setdefault('tiling',(d,sql,pos))
print('checked',n,'in',round(time.time()-t0,1),'s', dict(bad))
for k,v in ex.items(): print(k, str(v)[:300])
