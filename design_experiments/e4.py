import sys, hashlib
from mindsdb_sql import parse_sql
ins = ["select a from", "select a b c", "create model m predict", "select * from t where a = ", "drop x", "select a from t join", "create", "select 1 from t order", "update t set", "insert into t values (1,"]
out=[]
for s in ins:
    try: parse_sql(s); out.append('ok')
    except Exception as e: out.append(type(e).__name__+':'+str(e))
print(hashlib.md5('\n'.join(out).encode()).hexdigest())
if len(sys.argv)>1: print('\n---\n'.join(out))
