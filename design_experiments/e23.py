from mindsdb_sql import parse_sql
from mindsdb_sql.planner import plan_query
def tp(sql, **kw):
    print('##', ' '.join(sql.split()))
    try:
        p=plan_query(parse_sql(sql), **kw)
        for s in p.steps: print('    ', str(s)[:300])
    except Exception as e: print('   EXC', type(e).__name__, e)
md=[{'name':'pred','integration_name':'proj','to_predict':['y']},{'name':'pred2','integration_name':'proj'}]
kw=dict(integrations=['int1','int2'], default_namespace='mindsdb', predictor_metadata=md)
tp("select * from int1.t1 t join proj.pred m where m.a = 1 and t.b = 2 and m.y = 3 and t.c > m.d", **kw)
tp("select * from int1.t1 t join proj.pred m where m.a = 1 or t.b = 2", **kw)
tp("select * from int1.t1 t join proj.pred m where not m.a = 1 and t.b = 2", **kw)
tp("select * from int1.t1 t join proj.pred m where m.a = 1 or m.c = 2", **kw)
tp("select * from int1.t1 t join proj.pred m on t.x = m.x1 and m.x2 = t.z where abs(t.b) = 2 and upper(m.a) = 'A'", **kw)
tp("select * from int1.t1 t join proj.pred m where t.b = 2 using A=1, m.B='x', t.c=3, partition_size=5", **kw)
tp("select * from int1.t1 t left join int2.t2 u on t.a = u.a and u.f = 1 join proj.pred m where u.g = 2 and m.k = 'v'", **kw)
tp("select * from int1.t1 t join proj.PRED.3 m where m.a = 1", **kw)
tp("select * from proj.pred m join int1.t1 t where m.a = 1", **kw)
tp("select * from int1.t1 t join proj.pred m join proj.pred2 n where m.a = 1 and n.b = 2", **kw)
tp("select * from int1.t1 t join proj.pred m where m.a in (1,2) and m.b > 3 and 5 = m.c", **kw)
