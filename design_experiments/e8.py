import json, collections, sys
from mindsdb_sql import parse_sql
from mindsdb_sql.parser.ast.base import ASTNode
from mindsdb_sql.parser.ast.create import TableColumn
def struct(x):
    if isinstance(x, (ASTNode, TableColumn)):
        return (type(x).__name__, tuple(sorted((k, struct(v)) for k,v in vars(x).items())))
    if isinstance(x, (list, tuple)): return ('L', tuple(struct(i) for i in x))
    if isinstance(x, dict): return ('D', tuple((struct(k), struct(v)) for k,v in x.items()))
    return ('V', type(x).__name__, repr(x))
def diffpath(a,b,path=''):
    if a==b: return None
    if a[0]!=b[0] or a[0]=='V': return path+':'+str(a)[:60]+' != '+str(b)[:60]
    if a[0] in('L','D'):
        if len(a[1])!=len(b[1]): return path+':len'
        for i,(x,y) in enumerate(zip(a[1],b[1])):
            d=diffpath(x,y,path+f'[{i}]') if a[0]=='L' else (diffpath(x[1],y[1],path+f'{{{x[0]}}}'))
            if d: return d
        return path+':?'
    # node
    da,db=dict(a[1]),dict(b[1])
    for k in da:
        if k not in db: return path+'.'+k+':missing'
        d=diffpath(da[k],db[k],path+'.'+a[0]+'.'+k)
        if d: return d
    return path+':?'
acc=json.load(open('/tmp/exp/accepted.json'))
bad=collections.Counter(); ex={}
for a in acc:
    sql,d=a['sql'],a['dialect']
    q=parse_sql(sql,d)
    try: s1=q.to_string()
    except Exception as e:
        k=('print-crash',type(q).__name__,type(e).__name__); bad[k]+=1; ex.setdefault(k,(d,sql)); continue
    try: q1=parse_sql(s1,d)
    except Exception as e:
        k=('reparse-reject',type(q).__name__,d); bad[k]+=1; ex.setdefault(k,(d,sql,s1)); continue
    st,st1=struct(q),struct(q1)
    if st!=st1:
        if q.to_tree()==q1.to_tree(): k=('struct-only-diff',type(q).__name__, diffpath(st,st1)[:80])
        else: k=('tree-diff',type(q).__name__,d)
        bad[k]+=1; ex.setdefault(k,(d,sql,s1)); continue
    if q1.to_string()!=s1:
        k=('not-idempotent',type(q).__name__); bad[k]+=1; ex.setdefault(k,(d,sql,s1))
print('total',len(acc),'bad',sum(bad.values()))
for k,v in bad.most_common(): print(v,k,'\n      ',str(ex[k])[:260].replace('\n',' '))
