import sqlite3, copy, collections, itertools, random, sys
from mindsdb_sql import parse_sql
from mindsdb_sql.parser import ast
from mindsdb_sql.parser.ast.base import ASTNode
from mindsdb_sql.planner import plan_query, steps as S
from mindsdb_sql.planner.step_result import Result

SCHEMA={'int1':{'t1':['a','b','s'],'t2':['a','c']}, 'int2':{'t3':['a','d'],'t4':['a','e']}}
def mkdata(rnd):
    data={}
    for db,tabs in SCHEMA.items():
        for t,cols in tabs.items():
            rows=[]
            for _ in range(rnd.randint(0,4)):
                rows.append(tuple((rnd.choice(['x','y',None]) if c=='s' else rnd.choice([None,0,1,2,3])) for c in cols))
            data[(db,t)]=rows
    return data
def ground(sql,data):
    c=sqlite3.connect(':memory:')
    for db in SCHEMA: c.execute(f"attach ':memory:' as {db}")
    for (db,t),rows in data.items():
        cols=SCHEMA[db][t]
        c.execute(f"create table {db}.{t} ({','.join(cols)})")
        c.executemany(f"insert into {db}.{t} values ({','.join('?'*len(cols))})", rows)
    return c.execute(sql).fetchall()

class Rel:
    def __init__(self, cols, rows): self.cols=cols; self.rows=rows   # cols: list of (label,name)
def walk_idents(node, fn, table_pos=False):
    # generic reflection walk replacing Identifier nodes in non-table position
    if isinstance(node, list):
        return [walk_idents(n, fn) for n in node]
    if not isinstance(node, ASTNode): return node
    if isinstance(node, ast.Identifier):
        return fn(node)
    for k,v in list(vars(node).items()):
        if k in ('alias',): continue
        if isinstance(v,(ASTNode,list)):
            setattr(node,k,walk_idents(v,fn))
        elif isinstance(v,tuple):
            setattr(node,k,tuple(walk_idents(list(v),fn)))
    return node
class Interp:
    def __init__(self,data):
        self.data=data; self.res={}
        self.scratch=sqlite3.connect(':memory:'); self.n=0
    def dbconn(self,integ):
        c=sqlite3.connect(':memory:')
        for (db,t),rows in self.data.items():
            if db==integ:
                cols=SCHEMA[db][t]
                c.execute(f"create table {t} ({','.join(cols)})")
                c.executemany(f"insert into {t} values ({','.join('?'*len(cols))})", rows)
        return c
    def fill_params(self,q):
        def rec(node):
            if isinstance(node,list): return [rec(n) for n in node]
            if isinstance(node,ast.Parameter) and isinstance(node.value,Result):
                rel=self.res[node.value.step_num]
                return ast.Tuple([ast.Constant(r[0]) if r[0] is not None else ast.NullConstant() for r in rel.rows]) 
            if not isinstance(node,ASTNode): return node
            for k,v in list(vars(node).items()):
                if isinstance(v,(ASTNode,list)): setattr(node,k,rec(v))
            return node
        return rec(q)
    def load(self,rel,name):
        self.scratch.execute(f"drop table if exists {name}")
        n=len(rel.cols)
        self.scratch.execute(f"create table {name} ({','.join('c%d'%i for i in range(n))})" if n else f"create table {name} (dummy)")
        if n: self.scratch.executemany(f"insert into {name} values ({','.join('?'*n)})", rel.rows)
    def resolve(self,rel,ident,prefix=''):
        parts=[p for p in ident.parts]
        col=parts[-1]; qual=[p.lower() for p in parts[:-1]]
        cands=[i for i,(lab,name) in enumerate(rel.cols) if name.lower()==col.lower() and (not qual or (lab or '').lower()==qual[-1])]
        if len(cands)!=1: raise KeyError(f'resolve {ident.parts} in {rel.cols}: {cands}')
        return cands[0]
    def run_over(self,query,rel,label):
        q=copy.deepcopy(query); q=self.fill_params(q)
        self.load(rel,'src')
        # expand star
        targets=[]
        for t in q.targets:
            if isinstance(t,ast.Star):
                for i,(lab,name) in enumerate(rel.cols): targets.append(ast.Identifier(parts=['c%d'%i],alias=ast.Identifier(parts=[name])))
            else: targets.append(t)
        q.targets=targets
        outlabels=[]
        def fn(ident):
            if isinstance(ident.parts[-1],ast.Star): raise NotImplementedError
            if ident.parts[0].startswith('c') and ident.parts[0][1:].isdigit() and len(ident.parts)==1: return ident
            i=self.resolve(rel,ident)
            new=ast.Identifier(parts=['c%d'%i],alias=ident.alias)
            return new
        for k in ('targets','where','group_by','having','order_by'):
            v=getattr(q,k)
            if v is not None: setattr(q,k,walk_idents(v,fn))
        # keep names for bare column targets
        for orig,t in zip(query.targets if not any(isinstance(x,ast.Star) for x in query.targets) else [], q.targets):
            if isinstance(orig,ast.Identifier) and t.alias is None: t.alias=ast.Identifier(parts=[orig.parts[-1]])
        q.from_table=ast.Identifier('src')
        sql=q.to_string()
        cur=self.scratch.execute(sql)
        rows=cur.fetchall()
        # labels: keep source label for bare column targets, else given label
        cols=[]
        srcs=query.targets
        names=[d[0] for d in cur.description]
        if any(isinstance(x,ast.Star) for x in srcs) and len(srcs)==1:
            cols=[(label or lab,name) for (lab,name) in rel.cols]
        else:
            for t,nm in zip(srcs,names):
                lab=None
                if isinstance(t,ast.Identifier) and len(t.parts)>1: lab=t.parts[-2]
                cols.append((label or lab,nm))
        return Rel(cols,rows)
    def step(self,s):
        if isinstance(s,S.FetchDataframeStep):
            q=self.fill_params(copy.deepcopy(s.query))
            c=self.dbconn(s.integration)
            cur=c.execute(q.to_string()); rows=cur.fetchall()
            ft=s.query.from_table
            label=(ft.alias.parts[-1] if ft.alias else ft.parts[-1]) if isinstance(ft,ast.Identifier) else None
            return Rel([(label,d[0]) for d in cur.description],rows)
        if isinstance(s,S.SubSelectStep):
            return self.run_over(s.query,self.res[s.dataframe.step_num],s.table_name)
        if isinstance(s,S.QueryStep):
            return self.run_over(s.query,self.res[s.from_table.step_num],None)
        if isinstance(s,S.JoinStep):
            L=self.res[s.left.step_num]; R=self.res[s.right.step_num]
            self.load(L,'l'); self.load(R,'r')
            cond=copy.deepcopy(s.query.condition)
            def fn(ident):
                try:
                    i=self.resolve(L,ident); return ast.Identifier(parts=['l','c%d'%i])
                except KeyError:
                    i=self.resolve(R,ident); return ast.Identifier(parts=['r','c%d'%i])
            on=''
            if cond is not None:
                cond=walk_idents(cond,fn) if not isinstance(cond,ast.Identifier) else fn(cond)
                on=' ON '+cond.to_string()
            jt=s.query.join_type
            sel=', '.join([f'l.c{i}' for i in range(len(L.cols))]+[f'r.c{i}' for i in range(len(R.cols))])
            sql=f'SELECT {sel} FROM l {jt} r{on}'
            rows=self.scratch.execute(sql).fetchall()
            return Rel(L.cols+R.cols,rows)
        if isinstance(s,S.UnionStep):
            L=self.res[s.left.step_num]; R=self.res[s.right.step_num]
            self.load(L,'l'); self.load(R,'r')
            op=s.operation.upper()+('' if s.unique else ' ALL')
            rows=self.scratch.execute(f'select * from l {op} select * from r').fetchall()
            return Rel(L.cols,rows)
        raise NotImplementedError(type(s).__name__)
    def run(self,plan):
        for s in plan.steps:
            self.res[s.step_num]=self.step(s)
        return self.res[plan.steps[-1].step_num].rows

QUERIES=[
 'select x.a, y.d from int1.t1 x left join int2.t3 y on x.a=y.a where y.d is null',
 'select x.a, y.d from int1.t1 x left join int2.t3 y on x.a=y.a where y.d = 1',
 'select x.a, y.d from int1.t1 x left join int2.t3 y on x.a=y.a and y.d = 1',
 'select x.a, y.d from int1.t1 x left join int2.t3 y on x.a=y.a and x.b = 1',
 'select x.a, y.d from int1.t1 x join int2.t3 y on x.a=y.a or x.b = y.d',
 'select x.a, y.d from int1.t1 x join int2.t3 y on x.a=y.a where x.b in (1,2) and y.d != 2',
]
rnd=random.Random(int(sys.argv[1]) if len(sys.argv)>1 else 1)
stat=collections.Counter(); ex={}
for sql in QUERIES:
    for rep in range(40):
        data=mkdata(rnd)
        gt=ground(sql,data)
        plan=plan_query(parse_sql(sql), integrations=['int1','int2'], default_namespace='mindsdb')
        try:
            got=Interp(data).run(plan)
        except Exception as e:
            stat[(sql,'INTERP-ERR '+type(e).__name__+' '+str(e)[:80])]+=1; continue
        same = collections.Counter(gt)==collections.Counter(got)
        if 'limit' in sql:  # validity only
            stat[(sql,'limit-same' if same else 'limit-diff')]+=1
        else:
            stat[(sql,'ok' if same else 'DIFF')]+=1
            if not same: ex.setdefault(sql,(data,gt,got))
for k,v in sorted(stat.items()): print(v,k)
for k,v in list(ex.items())[:3]: print('EX',k,v)
