from mindsdb_sql import parse_sql
from mindsdb_sql.parser.dialects.mindsdb.parser import MindsDBParser
def error(self, p, expected_tokens=None):
    self.error_info = dict(tokens=self.used_tokens.copy(), bad_token=p, expected_tokens=expected_tokens)
    return
MindsDBParser.error = error
for s in ['x y ; select 1', 'x y select 1', 'select 1 ; select 2', 'select from t', 'select 1 from t where ) select 2', 'drop x select 3', ') select 4', 'select a b c d select 5']:
    try: print(repr(s), '->', parse_sql(s))
    except Exception as e: print(repr(s), 'EXC', type(e).__name__, str(e)[:60].replace('\n','|'))
