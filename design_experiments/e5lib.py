import random, re, collections, sys, traceback
from mindsdb_sql import parse_sql, get_lexer_parser
from mindsdb_sql.exceptions import ParsingException
from sly.lex import LexError

def grammar(dialect):
    lexer, parser = get_lexer_parser(dialect)
    g = parser._grammar
    prods = collections.defaultdict(list)
    for p in g.Productions[1:]:
        prods[p.name].append(tuple(p.prod))
    return lexer, prods, g.Start

def min_depths(prods):
    INF=10**9
    d={n:INF for n in prods}
    ch=True
    while ch:
        ch=False
        for n,alts in prods.items():
            for a in alts:
                m=0
                for s in a:
                    if s in prods:
                        m=max(m,d[s])
                if m<INF and m+1<d[n]:
                    d[n]=m+1; ch=True
    return d

IDS=['a','b','t1','col1','tbl','x1','int1','pred']
def lexeme(tok, lexer, rnd):
    if tok=='ID': return rnd.choice(IDS+['`a b`','`select`'])
    if tok=='INTEGER': return str(rnd.choice([0,1,2,10,255]))
    if tok=='FLOAT': return rnd.choice(['1.5','0.25','10.0'])
    if tok=='QUOTE_STRING': return rnd.choice(["'x'","'a b'","''","'2020-01-01'"])
    if tok=='DQUOTE_STRING': return rnd.choice(['"x"','"a b"'])
    if tok=='VARIABLE': return '@v'
    if tok=='SYSTEM_VARIABLE': return '@@sv'
    pat=getattr(lexer, tok)
    s=pat.replace('\\b','')
    s=s.replace('[\\s]+',' ').replace('[_|\\s]','_')
    if s=='(!=|<>)': return '!='
    s=s.replace('\\','')
    return s

def derive(sym, prods, depths, lexer, rnd, budget, out):
    if sym not in prods:
        out.append(lexeme(sym, lexer, rnd)); return
    alts=prods[sym]
    if budget<=0:
        m=min(max([depths[s] for s in a if s in prods] or [0]) for a in alts)
        alts=[a for a in alts if max([depths[s] for s in a if s in prods] or [0])==m]
    a=rnd.choice(alts)
    for s in a:
        derive(s, prods, depths, lexer, rnd, budget-1, out)

