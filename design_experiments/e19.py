import itertools, collections, sys
from mindsdb_sql import parse_sql
from mindsdb_sql.exceptions import ParsingException
from sly.lex import LexError
from mindsdb_sql.parser.ast import Constant, Select, Identifier
# units for single-quoted in mindsdb
UNITS_SQ=[('a','a'),(' ',' '),('"','"'),("''","'"),("\\'","'"),('\\"','"'),('\\\\','\\'),('\\n',None),('%','%'),('`','`'),('.','.'),('-- ','-- ')]
UNITS_DQ=[('a','a'),(' ',' '),("'","'"),("\\'","'"),('\\"','"'),('\\\\','\\'),('\\n',None),('%','%')]
def check(dialect, quote, units, maxlen):
    buckets=collections.Counter(); ex={}; n=0
    for L in range(0,maxlen+1):
        for combo in itertools.product(units, repeat=L):
            text=quote+''.join(u[0] for u in combo)+quote
            if any(u[1] is None for u in combo):
                exp=None
            else: exp=''.join(u[1] for u in combo)
            n+=1
            try: q=parse_sql('select '+text+' from t', dialect)
            except (ParsingException, LexError): buckets['rejected']+=1; ex.setdefault('rejected',text); continue
            except Exception as e: buckets['crash:'+type(e).__name__]+=1; continue
            t=q.targets[0]
            if not isinstance(t, Constant):
                k='not-a-constant:'+type(t).__name__; buckets[k]+=1; ex.setdefault(k,text); continue
            if exp is None: buckets['open-escape(accepted any)']+=1; continue
            if t.value==exp: buckets['ok']+=1
            else:
                # classify by smallest unit pattern
                feats=tuple(sorted(set(u[0] for u in combo if u[0] in ("''","\\'",'\\"','\\\\'))))
                pos=('lead' if combo and combo[0][0] in ("''","\\'") else '')+('trail' if combo and combo[-1][0] in ("''","\\'",'\\\\') else '')
                k=('MISMATCH',feats,pos); buckets[k]+=1; ex.setdefault(k,(text,exp,t.value))
    print(dialect, quote, 'n',n)
    for k,v in buckets.most_common(): print('   ',v,k,ex.get(k,''))
check('mindsdb',"'",UNITS_SQ,int(sys.argv[1]))
check('mindsdb','"',UNITS_DQ,int(sys.argv[1]))
# encode direction
import string
alpha=["a","'",'"',"\\"," ","%","\n","`"]
b=collections.Counter(); ex={}
for L in range(0,4):
    for combo in itertools.product(alpha, repeat=L):
        v=''.join(combo)
        s=Select(targets=[Constant(v)]).to_string()
        try:
            q=parse_sql(s,'mindsdb'); t=q.targets[0]
            got=t.value if isinstance(t,Constant) else ('<'+type(t).__name__+'>')
            if got==v: b['ok']+=1
            else:
                k=('MISMATCH', tuple(sorted(set(c for c in combo if c in "'\"\\")))); b[k]+=1; ex.setdefault(k,(v,s,got))
        except Exception as e:
            k=('REJECT/'+type(e).__name__, tuple(sorted(set(c for c in combo if c in "'\"\\")))); b[k]+=1; ex.setdefault(k,(v,s))
print('encode direction')
for k,v in b.most_common(): print('   ',v,k,ex.get(k,''))
