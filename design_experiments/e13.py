import json, collections
from mindsdb_sql import parse_sql
from mindsdb_sql.parser import ast
from mindsdb_sql.parser.ast.base import ASTNode
from mindsdb_sql.planner.utils import query_traversal
Latest=ast.Latest
def ref(node, role, out):
    # yields (node, role) in textual order
    if node is None: return
    if isinstance(node, list):
        for n in node: ref(n, role, out)
        return
    if not isinstance(node, ASTNode): return
    out.append((node, role))
    A=ast
    if isinstance(node, A.Select):
        for c in (node.cte or []): ref(c.query,'query',out)
        for t in node.targets: ref(t,'target',out)
        ref(node.from_table,'table',out); ref(node.where,'expr',out)
        ref(node.group_by,'expr',out); ref(node.having,'expr',out)
        for o in (node.order_by or []): ref(o.field,'expr',out)
    elif isinstance(node,(A.Union,A.Intersect,A.Except)):
        ref(node.left,'query',out); ref(node.right,'query',out)
    elif isinstance(node,A.Join):
        ref(node.left,'table',out); ref(node.right,'table',out); ref(node.condition,'expr',out)
    elif isinstance(node,(A.Exists,A.NotExists)):
        ref(node.args,'expr',out)
    elif isinstance(node,A.Function):
        ref(node.args,'expr',out); ref(node.from_arg,'expr',out)
    elif isinstance(node,A.Interval): pass
    elif isinstance(node,A.Operation):
        ref(node.args,'expr',out)
    elif isinstance(node,A.WindowFunction):
        ref(node.function,'expr',out); ref(node.partition,'expr',out)
        for o in (node.order_by or []): ref(o.field,'expr',out)
    elif isinstance(node,A.TypeCast): ref(node.arg,'expr',out)
    elif isinstance(node,A.Tuple): ref(node.items,'expr',out)
    elif isinstance(node,A.Case):
        ref(node.arg,'expr',out)
        for c,r in node.rules: ref(c,'expr',out); ref(r,'expr',out)
        ref(node.default,'expr',out)
    elif isinstance(node,A.Insert):
        ref(node.table,'table',out)
        for row in (node.values or []): ref(row,'expr',out)
        ref(node.from_select,'query',out)
    elif isinstance(node,A.Update):
        ref(node.table,'table',out)
        for k,v in (node.update_columns or {}).items(): ref(v,'expr',out)
        ref(node.from_select,'query',out); ref(node.where,'expr',out)
    elif isinstance(node,A.Delete):
        ref(node.table,'table',out); ref(node.where,'expr',out)
    elif isinstance(node,A.CreateTable):
        ref(node.name,'table',out); ref(node.from_select,'query',out)
acc=json.load(open('/tmp/exp/accepted.json'))
kinds=(ast.Select,ast.Union,ast.Intersect,ast.Except,ast.Insert,ast.Update,ast.Delete,ast.CreateTable)
buckets=collections.Counter(); ex={}; n=0
for a in acc:
    q=parse_sql(a['sql'],a['dialect'])
    if not isinstance(q,kinds): continue
    n+=1
    exp=[]; ref(q,'query',exp)
    seen=[]
    def cb(node, is_table=False, is_target=False, parent_query=None, **kw):
        seen.append((node,is_table,is_target))
    query_traversal(q, cb)
    expids=[id(x[0]) for x in exp]; seenids=[id(x[0]) for x in seen if isinstance(x[0],ASTNode)]
    cs=collections.Counter(seenids)
    missing=[x for x in exp if id(x[0]) not in cs]
    dup=[x for x in seen if cs[id(x[0])]>1]
    extra=[x for x in seen if isinstance(x[0],ASTNode) and id(x[0]) not in set(expids)]
    for m in missing:
        k=('missing',type(m[0]).__name__,m[1]); buckets[k]+=1; ex.setdefault(k,a['sql'])
    for d in dup:
        k=('dup',type(d[0]).__name__); buckets[k]+=1; ex.setdefault(k,a['sql'])
    for e in extra:
        k=('extra',type(e[0]).__name__); buckets[k]+=1; ex.setdefault(k,a['sql'])
    # order
    common=[i for i in expids if i in cs]
    seq=[i for i in seenids if i in set(expids)]
    if not missing and not dup and common!=seq:
        # find first out-of-order pair class
        for x,y in zip(common,seq):
            if x!=y:
                nx=[t for t in exp if id(t[0])==x][0]; k=('order', type(nx[0]).__name__, nx[1]); break
        buckets[k]+=1; ex.setdefault(k,a['sql'])
    # flags
    roles={id(x[0]):x[1] for x in exp}
    for node,it,itg in seen:
        r=roles.get(id(node))
        if r is None: continue
        if it!=(r=='table'): k=('flag-table',type(node).__name__,r); buckets[k]+=1; ex.setdefault(k,a['sql'])
        if itg!=(r=='target'): k=('flag-target',type(node).__name__,r); buckets[k]+=1; ex.setdefault(k,a['sql'])
print('statements',n)
for k,v in buckets.most_common(): print(v,k,'|',' '.join(ex[k].split())[:150])
