import sys, threading, json, random, time, collections
import mindsdb_sql
from mindsdb_sql import parse_sql
acc=[a for a in json.load(open('/tmp/exp/accepted.json')) if a['dialect']=='mindsdb'][:300]
bad_inputs=["select a from", "select a b c d from", "create model m predict", "drop x", "select 'abc", "select * from t where"]
items=[(a['sql'],'mindsdb') for a in acc]+[(b,'mindsdb') for b in bad_inputs]
def call(it):
    try:
        q=parse_sql(*it); return ('ok', q.to_tree(), q.to_string())
    except Exception as e: return ('exc', type(e).__name__, str(e))
if len(sys.argv)>1 and sys.argv[1]=='mutant':
    cache={}
    orig=mindsdb_sql.get_lexer_parser
    def cached(d):
        if d not in cache: cache[d]=orig(d)
        return cache[d]
    mindsdb_sql.get_lexer_parser=cached
base=[call(it) for it in items]
sys.setswitchinterval(1e-6)
T=4; N=150
mism=collections.Counter(); overlaps=[0]
active=[0]; lock=threading.Lock()
def worker(k):
    rnd=random.Random(k)
    for _ in range(N):
        i=rnd.randrange(len(items))
        with lock: active[0]+=1; 
        if active[0]>1: overlaps[0]+=1
        r=call(items[i])
        with lock: active[0]-=1
        if r!=base[i]: mism[(r[0], r[1] if r[0]=='exc' else 'treediff')]+=1
bar=threading.Barrier(T)
def run(k): bar.wait(); worker(k)
ths=[threading.Thread(target=run,args=(k,)) for k in range(T)]
t=time.time(); [x.start() for x in ths]; [x.join() for x in ths]
print('calls',T*N,'overlapping starts',overlaps[0],'mismatches',dict(mism),'time',round(time.time()-t,1))
