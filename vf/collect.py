"""Per-shard collector of what a check explored and what failed."""
import collections, hashlib, json
from vf import findings


def _h(key):
    if not isinstance(key, (str, bytes)):
        key = json.dumps(key, sort_keys=True, default=repr)
    if isinstance(key, str):
        key = key.encode('utf-8', 'surrogatepass')
    return hashlib.blake2b(key, digest_size=8).digest()


class Collector:
    MAX_SAMPLES = 6
    MAX_UNMATCHED = 40

    def __init__(self, prop, entries=(), shard=0, nshards=1):
        self.prop = prop
        self.entries = list(entries)
        self.shard, self.nshards = shard, nshards
        self.evaluations = 0
        self.nontrivial = set()
        self.classes = collections.Counter()
        self.excluded_c = collections.Counter()
        self.known_hits = collections.Counter()
        self.samples = []
        self.unmatched = {}        # sig -> {'record', 'case', 'count'}
        self.notes = []
        self.exhaustive_parts = []

    # ---- cases
    def case(self, key, nontrivial=False, classes=(), sample=None):
        self.evaluations += 1
        if nontrivial:
            self.nontrivial.add(_h(key))
        for c in classes:
            self.classes[c] += 1
        if sample is not None and nontrivial and (len(self.samples) < self.MAX_SAMPLES):
            # spread samples: keep 1st, then every 2^k-th non-trivial
            n = len(self.nontrivial)
            if n & (n - 1) == 0:
                self.samples.append(sample)

    def cls(self, *names):
        for c in names:
            self.classes[c] += 1

    def excluded(self, why, n=1):
        self.excluded_c[why] += n

    # ---- failures
    def fail(self, rec, case):
        """Register an oracle failure.  True when it is covered by an open known finding."""
        e = findings.find(self.entries, rec, 'open')
        if e is not None:
            self.known_hits[e['id']] += 1
            return True
        s = findings.sig(rec)
        u = self.unmatched.get(s)
        if u is None:
            if len(self.unmatched) < self.MAX_UNMATCHED:
                self.unmatched[s] = {'record': rec, 'case': case, 'count': 1}
        else:
            u['count'] += 1
        return False

    def result(self):
        return {
            'evaluations': self.evaluations,
            'nontrivial': self.nontrivial,
            'classes': self.classes,
            'excluded': self.excluded_c,
            'known_hits': self.known_hits,
            'samples': self.samples,
            'unmatched': list(self.unmatched.values()),
            'notes': self.notes,
            'exhaustive_parts': self.exhaustive_parts,
        }


class NullCollector(Collector):
    """Used while shrinking / replaying: counts nothing, matches nothing."""
    def __init__(self, entries=()):
        super().__init__('-', entries)

    def case(self, *a, **k):
        pass

    def cls(self, *a):
        pass

    def excluded(self, *a, **k):
        pass
