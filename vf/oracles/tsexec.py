"""C15 helpers: (a) own small executor for the plan shapes of a table JOIN time-series-model query, (b) the reference
row set written from the statement of the property.  Nothing here calls the planner; the executor reads the emitted
steps by their documented meaning (tests/test_planner/test_ts_predictor.py, planner/steps.py):

  FetchDataframeStep(integration, query)                    run `query` in that integration
  MultipleSteps(steps=[...], reduce='union')                run every sub-step, concatenate the results
  MapReduceStep(values=Result(i), step=<one step>, 'union') for every row of step i: replace each string constant
                                                            '$var[<column>]' by the row's value, run, concatenate
"""
import collections, copy, re

from vf.oracles import refprint, engine

VAR_RE = re.compile(r'^\$var\[(.*)\]$')
COLS = ['id', 'ts', 'g', 'h', 'v']          # the data table int1.t1


class ShapeError(Exception):
    """The plan does not have the documented shape (reported as an oracle failure by the caller, with `where`)."""
    def __init__(self, where, msg):
        super().__init__(msg)
        self.where = where


def cname(x):
    return type(x).__name__


# ---------------------------------------------------------------------------------------------- plan anatomy
def locate(plan):
    """{'apply','data','part','fetches','join','limit','last'}; fetches = the Select trees run per partition."""
    steps = list(plan.steps)
    by_num = {}
    for i, s in enumerate(steps):
        if s.step_num != i:
            raise ShapeError('step-num', f'step at index {i} carries step_num {s.step_num!r}')
        by_num[i] = s
    applies = [s for s in steps if cname(s) == 'ApplyTimeseriesPredictorStep']
    if len(applies) != 1:
        raise ShapeError('apply-step', f'{len(applies)} ApplyTimeseriesPredictorStep in {[cname(s) for s in steps]}')
    app = applies[0]
    df = app.dataframe
    if cname(df) != 'Result' or df.step_num not in by_num or df.step_num >= app.step_num:
        raise ShapeError('apply-step', f'dataframe of the model step is {df!r}')
    data = by_num[df.step_num]

    def leaves(x):
        if cname(x) == 'FetchDataframeStep':
            return [x]
        if cname(x) == 'MultipleSteps':
            if x.reduce != 'union':
                raise ShapeError('data-step', f'MultipleSteps.reduce={x.reduce!r}')
            out = []
            for y in x.steps:
                out += leaves(y)
            return out
        raise ShapeError('data-step', f'data step contains {cname(x)}')

    part = None
    if cname(data) == 'MapReduceStep':
        if data.reduce != 'union':
            raise ShapeError('data-step', f'MapReduceStep.reduce={data.reduce!r}')
        v = data.values
        if cname(v) != 'Result' or v.step_num not in by_num or v.step_num >= data.step_num:
            raise ShapeError('data-step', f'MapReduceStep.values={v!r}')
        part = by_num[v.step_num]
        if cname(part) != 'FetchDataframeStep':
            raise ShapeError('partition-step', f'partition values come from {cname(part)}')
        if isinstance(data.step, (list, tuple)):
            raise ShapeError('data-step', 'MapReduceStep.step is a list')
        fetches = leaves(data.step)
    else:
        fetches = leaves(data)
    joins = [s for s in steps if cname(s) == 'JoinStep']
    limits = [s for s in steps if cname(s) == 'LimitOffsetStep']
    return {'apply': app, 'data': data, 'part': part, 'fetches': fetches, 'joins': joins, 'limits': limits,
            'steps': steps}


# ---------------------------------------------------------------------------------------------- executor
def substitute(query, var):
    """Copy of `query` with every Constant('$var[c]') replaced by Constant(var[c]).  KeyError(c) when c is unknown."""
    from mindsdb_sql.parser import ast
    q = copy.deepcopy(query)

    def rec(n):
        if isinstance(n, list):
            return [rec(i) for i in n]
        if isinstance(n, tuple):
            return tuple(rec(i) for i in n)
        if isinstance(n, ast.Constant) and isinstance(n.value, str):
            m = VAR_RE.match(n.value)
            if m:
                return ast.Constant(var[m.group(1)])
            return n
        if isinstance(n, ast.ASTNode):
            for k, v in list(vars(n).items()):
                if isinstance(v, (list, tuple, ast.ASTNode)):
                    setattr(n, k, rec(v))
        return n
    return rec(q)


def has_var(query):
    from vf.oracles.struct import walk
    for n in walk(query):
        if cname(n) == 'Constant' and isinstance(n.value, str) and VAR_RE.match(n.value):
            return True
    return False


def _print(q):
    return refprint.Printer(table_name=lambda parts: refprint.qid(parts[-1])).query(q)


class Exec:
    """Runs the located steps on one sqlite3 connection that holds t1 (the content of integration int1)."""

    def __init__(self, conn):
        self.conn = conn
        self.log = []

    def run_select(self, q):
        sql = _print(q)            # refprint.Unsupported propagates
        self.log.append(sql)
        return engine.run(self.conn, sql)

    def partitions(self, loc):
        """([(var dict, row tuple)], column names): one entry per row of the partition fetch; ([(None, ())], [])
        without MapReduce."""
        if loc['part'] is None:
            return [(None, ())], []
        names, rows = self.run_select(loc['part'].query)
        return [(dict(zip(names, r)), tuple(r)) for r in rows], names

    def handed(self, loc, var):
        out = []
        for f in loc['fetches']:
            q = substitute(f.query, var) if var is not None else f.query
            if has_var(q):
                raise ShapeError('data-step', 'an unsubstituted $var constant reaches the integration')
            _, rows = self.run_select(q)
            out += rows
        return out


# ---------------------------------------------------------------------------------------------- reference
def flip(op):
    return {'>': '<', '<': '>', '>=': '<=', '<=': '>=', '=': '='}[op]


def semantic_time(time):
    """The user's time condition as (op, values) over `ts <op> values` (reversed operands are turned round)."""
    if time is None:
        return ('none', [])
    op = time['op']
    if time.get('rev') and op in ('>', '<', '>=', '<=', '='):
        op = flip(op)
    return (op, list(time.get('v', [])))


def pf_holds(row, f):
    x = row[COLS.index(f['col'])]
    if x is None:
        return False
    op, v = f['op'], f['v']
    if f.get('rev') and op in ('>', '<', '>=', '<=', '='):
        op = flip(op)
    if op == '=':
        return x == v[0]
    if op == 'in':
        return x in v
    if op == '>':
        return x > v[0]
    if op == '>=':
        return x >= v[0]
    if op == '<':
        return x < v[0]
    if op == '<=':
        return x <= v[0]
    if op == 'between':
        return v[0] <= x <= v[1]
    raise ValueError(op)


def reference(rows, groups, pfilters, time):
    """{partition key: (S, cand, mode)} from the statement of the property.

    partitions = distinct group tuples among the rows selected by the non-time filters; per partition R = its rows
    with a non-NULL order value that satisfy the partition filters; S = rows of R satisfying the time condition
    (none for an exact time / LATEST); cand = rows of R preceding the lower bound (None = no window part);
    mode 'exact' or 'open' (IN on the order column: the statement does not say what the lower bound is)."""
    gi = [COLS.index(c) for c in groups]
    sel = [tuple(r) for r in rows if all(pf_holds(r, f) for f in pfilters)]
    if groups:
        keys = []
        for r in sel:
            k = tuple(r[i] for i in gi)
            if k not in keys:
                keys.append(k)
    else:
        keys = [()]
    op, v = semantic_time(time)
    out = {}
    for k in keys:
        R = [r for r in sel if r[1] is not None and tuple(r[i] for i in gi) == k]
        mode = 'exact'
        if op == '>':
            S = [r for r in R if r[1] > v[0]]; cand = [r for r in R if r[1] <= v[0]]
        elif op == '>=':
            S = [r for r in R if r[1] >= v[0]]; cand = [r for r in R if r[1] < v[0]]
        elif op == 'between':
            S = [r for r in R if v[0] <= r[1] <= v[1]]; cand = [r for r in R if r[1] < v[0]]
        elif op == '=':
            S = []; cand = [r for r in R if r[1] <= v[0]]
        elif op in ('>latest', '=latest'):
            S = []; cand = list(R)
        elif op == '<':
            S = [r for r in R if r[1] < v[0]]; cand = None
        elif op == '<=':
            S = [r for r in R if r[1] <= v[0]]; cand = None
        elif op == 'in':
            S = [r for r in R if r[1] in v]; cand = [r for r in R if r[1] <= max(v)]; mode = 'open'
        elif op == 'none':
            S = list(R); cand = None
        else:
            raise ValueError(op)
        out[k] = (S, cand, mode)
    return out


def valid(got, S, cand, mode, window):
    """None when `got` (multiset of rows) is a valid hand-over for (S, cand, window); else (code, text)."""
    g = collections.Counter(map(tuple, got))
    s = collections.Counter(S)
    if s - g:
        return ('selected-rows-missing', f'rows satisfying the time condition are not handed over: {sorted((s - g).elements())[:4]}')
    rest = g - s
    if mode == 'open':
        cc = collections.Counter(cand)
        if rest - cc:
            return ('extra-rows', f'rows outside the condition and its past: {sorted((rest - cc).elements(), key=repr)[:4]}')
        return None
    if cand is None:
        if rest:
            return ('extra-rows', f'rows beyond the selected ones: {sorted(rest.elements(), key=repr)[:4]}')
        return None
    W = list(rest.elements())
    cc = collections.Counter(cand)
    bad = collections.Counter(W) - cc
    if bad:
        return ('extra-rows', f'rows that neither satisfy the condition nor precede its lower bound (or duplicates): '
                              f'{sorted(bad.elements(), key=repr)[:4]}')
    want = min(window, len(cand))
    if len(W) != want:
        return ('window-size', f'{len(W)} context rows handed over, expected min(window={window}, available={len(cand)})')
    if W:
        m = min(r[1] for r in W)
        excl = list((cc - collections.Counter(W)).elements())
        newer = [r for r in excl if r[1] > m]
        if newer:
            return ('window-not-most-recent', f'context rows {sorted(W)[:4]} but newer candidates left out: {sorted(newer)[:4]}')
    return None


def data_traits(ref, window):
    """What makes a data set non-trivial for the property."""
    t = set()
    for k, (S, cand, mode) in ref.items():
        if cand is not None and mode == 'exact':
            if len(cand) > window:
                t.add('data:more-candidates-than-window')
                srt = sorted(cand, key=lambda r: -r[1])
                if srt[window - 1][1] == srt[window][1]:
                    t.add('data:tie-at-window-edge')
            elif len(cand) < window:
                t.add('data:fewer-candidates-than-window')
                if not cand:
                    t.add('data:no-rows-before-bound')
        if S:
            t.add('data:selected-rows')
    return t
