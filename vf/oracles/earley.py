"""O-earley: Earley recogniser over token types, built only from Parser._grammar.Productions.

No LR tables, no precedence, no error recovery.  LALR conflict resolution and precedence can only shrink the
language, so everything a correct LALR parser of this grammar accepts is accepted here.
"""


class Grammar:
    def __init__(self, parser_cls):
        g = parser_cls._grammar
        self.start = g.Start
        self.prods = {}
        for p in g.Productions[1:]:
            self.prods.setdefault(p.name, []).append(tuple(p.prod))
        self.terminals = set(g.Terminals) - {'error'}
        self.nullable = self._nullable()

    def _nullable(self):
        nullable = set()
        changed = True
        while changed:
            changed = False
            for n, alts in self.prods.items():
                if n in nullable:
                    continue
                for a in alts:
                    if all(s in nullable for s in a):
                        nullable.add(n); changed = True
                        break
        return nullable

    def chart(self, toks, start=None):
        prods, nullable = self.prods, self.nullable
        start = start or self.start
        n = len(toks)
        S = [set() for _ in range(n + 1)]
        order = [[] for _ in range(n + 1)]

        def add(i, it):
            if it not in S[i]:
                S[i].add(it); order[i].append(it)

        for a in prods[start]:
            add(0, (start, a, 0, 0))
        last_alive = 0
        for i in range(n + 1):
            k = 0
            if order[i]:
                last_alive = i
            while k < len(order[i]):
                lhs, rhs, dot, org = order[i][k]; k += 1
                if dot < len(rhs):
                    sym = rhs[dot]
                    if sym in prods:
                        for a in prods[sym]:
                            add(i, (sym, a, 0, i))
                        if sym in nullable:
                            add(i, (lhs, rhs, dot + 1, org))
                    elif i < n and toks[i] == sym:
                        add(i + 1, (lhs, rhs, dot + 1, org))
                else:
                    for (l2, r2, d2, o2) in list(S[org]):
                        if d2 < len(r2) and r2[d2] == lhs:
                            add(i, (l2, r2, d2 + 1, o2))
        return S, last_alive

    def accepts(self, toks, start=None):
        start = start or self.start
        S, _ = self.chart(toks, start)
        return any(l == start and d == len(r) and o == 0 for (l, r, d, o) in S[len(toks)])

    def viable_prefix_len(self, toks):
        """Largest k such that toks[:k] is a prefix of some sentence."""
        S, last = self.chart(toks)
        return last

    def expected_after(self, toks):
        """Terminal types that can follow toks (as a viable prefix); empty set if toks is not viable."""
        S, last = self.chart(toks)
        if last < len(toks):
            return set()
        out = set()
        for (lhs, rhs, dot, org) in S[len(toks)]:
            if dot < len(rhs) and rhs[dot] not in self.prods:
                out.add(rhs[dot])
        return out
