"""Operator-tree model for C03: precedence classes, minimal-parenthesis printer, fully parenthesised printer (O-print),
in-order linearisation, ancestor relation between operators ("who groups whom"), sqlite3 reference evaluation.

Nothing in here calls the library under test.  Model trees are JSON lists:

    ['leaf', v]                 v = identifier name (str) | int | None (NULL)
    ['u-', x]   ['not', x]      prefix operators
    ['bin', op, l, r]           op in BINOPS (lower case)
    ['between', x, lo, hi]
    ['isnull', x, neg]          x IS [NOT] NULL
    ['in', x, neg]              x [NOT] IN (1, 2)
    ['p', x]                    parentheses written in the text (needed or redundant)

Precedence classes, tightest first (the property's order): U unary minus, M * / %, A + -, C comparisons and
predicates, N NOT, AND, OR.  M, A, AND, OR chains associate to the left; a class-C node is never a direct
un-parenthesised operand of another class-C node (the printer parenthesises it), which is the property's carve-out.
"""
import sqlite3

ATOM, U, M, A, C, N, AND, OR = 9, 7, 6, 5, 4, 3, 2, 1
CLASS_NAME = {U: 'U', M: 'M', A: 'A', C: 'C', N: 'N', AND: 'AND', OR: 'OR', ATOM: 'atom'}
BINOPS = {'*': M, '/': M, '%': M, '+': A, '-': A,
          '=': C, '!=': C, '<>': C, '<': C, '<=': C, '>': C, '>=': C, 'like': C, 'not like': C,
          'and': AND, 'or': OR}
IN_LIST = '(1, 2)'


def cls(t):
    k = t[0]
    if k in ('leaf', 'p'):
        return ATOM
    if k == 'u-':
        return U
    if k == 'not':
        return N
    if k == 'bin':
        return BINOPS[t[1]]
    if k in ('between', 'isnull', 'in'):
        return C
    raise ValueError(f'bad node {t!r}')


def spelling(t):
    """Lower-case spelling of the node's operator (used in failure sites)."""
    k = t[0]
    if k == 'u-':
        return '-'
    if k == 'not':
        return 'not'
    if k == 'bin':
        return t[1]
    if k == 'between':
        return 'between'
    if k == 'isnull':
        return 'is not null' if t[2] else 'is null'
    if k == 'in':
        return 'not in' if t[2] else 'in'
    return k


def label(t):
    if t[0] == 'leaf':
        return 'leaf'
    if t[0] == 'p':
        return 'parens'
    if t[0] == '?':
        return f'?[{t[1]}]'
    return f'{CLASS_NAME[cls(t)]}[{spelling(t)}]'


def children(t):
    k = t[0]
    if k in ('u-', 'not', 'p'):
        return [t[1]]
    if k == 'bin':
        return [t[2], t[3]]
    if k == 'between':
        return [t[1], t[2], t[3]]
    if k in ('isnull', 'in'):
        return [t[1]]
    return []


def n_ops(t):
    return (0 if t[0] in ('leaf', 'p', '?') else 1) + sum(n_ops(c) for c in children(t))


def leaf_text(v):
    if v is None:
        return 'NULL'
    return str(v)


# ---------------------------------------------------------------- minimal-parenthesis printer

def _wrap(child, need, strict):
    """Print child in a position that needs class >= need (> need when strict).  Returns (text, tree-with-'p')."""
    s, e = render(child)
    c = cls(child)
    if c < need or (strict and c == need):
        return '(' + s + ')', ['p', e]
    return s, e


def render(t):
    """(text, E): text with minimal parentheses (plus the explicit 'p' nodes), E = the tree with a 'p' node wherever
    the text has a parenthesis pair (nested pairs collapse: the flag is boolean)."""
    k = t[0]
    if k == 'leaf':
        return leaf_text(t[1]), ['leaf', t[1]]
    if k == 'p':
        s, e = render(t[1])
        return '(' + s + ')', (e if e[0] == 'p' else ['p', e])
    if k == 'u-':
        s, e = _wrap(t[1], U, False)
        return '- ' + s, ['u-', e]
    if k == 'not':
        s, e = _wrap(t[1], N, False)
        return 'NOT ' + s, ['not', e]
    if k == 'bin':
        p = BINOPS[t[1]]
        if p == C:
            ls, le = _wrap(t[2], C, True)
            rs, re_ = _wrap(t[3], C, True)
        else:
            ls, le = _wrap(t[2], p, False)
            rs, re_ = _wrap(t[3], p, True)
        return f'{ls} {t[1].upper()} {rs}', ['bin', t[1], le, re_]
    if k == 'between':
        xs, xe = _wrap(t[1], C, True)
        ls, le = _wrap(t[2], C, True)
        hs, he = _wrap(t[3], C, True)
        return f'{xs} BETWEEN {ls} AND {hs}', ['between', xe, le, he]
    if k == 'isnull':
        xs, xe = _wrap(t[1], C, True)
        return xs + (' IS NOT NULL' if t[2] else ' IS NULL'), ['isnull', xe, bool(t[2])]
    if k == 'in':
        xs, xe = _wrap(t[1], C, True)
        return xs + (' NOT IN ' if t[2] else ' IN ') + IN_LIST, ['in', xe, bool(t[2])]
    raise ValueError(f'bad node {t!r}')


def strip_p(t):
    k = t[0]
    if k == 'p':
        return strip_p(t[1])
    if k == 'leaf' or k == '?':
        return list(t)
    if k in ('u-', 'not'):
        return [k, strip_p(t[1])]
    if k == 'bin':
        return ['bin', t[1], strip_p(t[2]), strip_p(t[3])]
    if k == 'between':
        return ['between', strip_p(t[1]), strip_p(t[2]), strip_p(t[3])]
    return [k, strip_p(t[1]), t[2]]


def fold_neg(t):
    """Identify `- <int literal>` (not parenthesised) with the negative literal, as the grammar may fold it."""
    k = t[0]
    if k == 'leaf' or k == '?':
        return list(t)
    if k == 'u-':
        x = fold_neg(t[1])
        if x[0] == 'leaf' and isinstance(x[1], int) and not isinstance(x[1], bool):
            return ['leaf', -x[1]]
        return ['u-', x]
    if k in ('not', 'p'):
        return [k, fold_neg(t[1])]
    if k == 'bin':
        return ['bin', t[1], fold_neg(t[2]), fold_neg(t[3])]
    if k == 'between':
        return ['between', fold_neg(t[1]), fold_neg(t[2]), fold_neg(t[3])]
    return [k, fold_neg(t[1]), t[2]]


# ---------------------------------------------------------------- O-print: every operator application parenthesised

def full(t):
    k = t[0]
    if k == 'leaf':
        v = t[1]
        if isinstance(v, int) and v < 0:
            return f'({v})'
        return leaf_text(v)
    if k == 'p':
        return full(t[1])
    if k == 'u-':
        return f'(- {full(t[1])})'
    if k == 'not':
        return f'(NOT {full(t[1])})'
    if k == 'bin':
        return f'({full(t[2])} {t[1].upper()} {full(t[3])})'
    if k == 'between':
        return f'({full(t[1])} BETWEEN {full(t[2])} AND {full(t[3])})'
    if k == 'isnull':
        return f"({full(t[1])} IS {'NOT ' if t[2] else ''}NULL)"
    if k == 'in':
        return f"({full(t[1])} {'NOT ' if t[2] else ''}IN {IN_LIST})"
    raise ValueError(f'cannot print {t!r}')


# ---------------------------------------------------------------- linearisation and grouping relation

def linearise(t):
    """(tokens, ops, rel): in-order token list of the 'p'-free tree; ops = {token position of the node's principal
    token: label}; rel = set of (ancestor position, descendant position) over operator nodes."""
    toks, ops, rel = [], {}, set()

    def go(n):
        k = n[0]
        if k == 'p':
            return go(n[1])
        if k == 'leaf':
            toks.append(leaf_text(n[1]))
            return []
        if k == '?':
            toks.append('?' + str(n[1]))
            return []
        if k in ('u-', 'not'):
            pos = len(toks)
            toks.append('-' if k == 'u-' else 'NOT')
            below = go(n[1])
        elif k == 'bin':
            below = go(n[2])
            pos = len(toks)
            toks.append(n[1].upper())
            below = below + go(n[3])
        elif k == 'between':
            below = go(n[1])
            pos = len(toks)
            toks.append('BETWEEN')
            below = below + go(n[2])
            toks.append('AND')
            below = below + go(n[3])
        elif k == 'isnull':
            below = go(n[1])
            pos = len(toks)
            toks.append('IS NOT NULL' if n[2] else 'IS NULL')
        elif k == 'in':
            below = go(n[1])
            pos = len(toks)
            toks.append('NOT IN' if n[2] else 'IN')
            toks.append(IN_LIST)
        else:
            raise ValueError(f'bad node {n!r}')
        ops[pos] = label(n)
        for d in below:
            rel.add((pos, d))
        return below + [pos]

    go(t)
    return toks, ops, rel


def flips(expected, observed):
    """Pairs of operators whose grouping is reversed: expected `p` groups (is an ancestor of) `q`, observed `q`
    groups `p`.  Returns (list of (label_p, label_q, pos_p, pos_q)) or None when the token sequences differ."""
    te, oe, re_ = linearise(expected)
    to, oo, ro = linearise(observed)
    if te != to:
        return None
    fl = [(p, q) for (p, q) in sorted(re_) if (q, p) in ro]
    # drop flips that are forced by another flip plus relations that are the same in both trees:
    #   q rightly encloses r (both trees), r wrongly captured p  =>  q encloses p
    #   r rightly encloses p (both trees), q wrongly captured r  =>  q encloses p
    kept = list(fl)
    for f in fl:
        p, q = f
        others = [g for g in kept if g != f]
        forced = any((g[0] == p and (q, g[1]) in ro and (q, g[1]) in re_) or
                     (g[1] == q and (g[0], p) in ro and (g[0], p) in re_) for g in others)
        if forced:
            kept = others
    return [(oe[p], oe[q], p, q) for (p, q) in kept]


def first_disagreement(e, o):
    """Top-down: labels of the first pair of nodes (same span) that differ; None when identical ('p'-free trees)."""
    if e == o:
        return None
    if e[0] != o[0] or label(e) != label(o) or len(children(e)) != len(children(o)):
        return label(e), label(o)
    if e[0] == 'leaf':
        return ('leaf:' + leaf_text(e[1]), 'leaf:' + leaf_text(o[1])) if e[1] != o[1] else None
    for ce, co in zip(children(e), children(o)):
        d = first_disagreement(ce, co)
        if d:
            return d
    if e[0] in ('isnull', 'in') and bool(e[2]) != bool(o[2]):
        return label(e), label(o)
    return None


def ambiguous(e):
    """True when the printed token sequence (E = tree with 'p' nodes) has more than one bracketing, i.e. some
    operator has a direct un-parenthesised operand that is open towards it - precedence decides something."""
    k = e[0]
    if k in ('leaf', '?'):
        return False
    if k == 'p':
        return ambiguous(e[1])
    kids = children(e)
    if any(ambiguous(c) for c in kids):
        return True

    def right_open(c):   # has an operand at its right end
        return c[0] in ('u-', 'not', 'bin', 'between')

    def left_open(c):    # has an operand at its left end
        return c[0] in ('bin', 'between', 'isnull', 'in')

    if k in ('u-', 'not'):
        return left_open(kids[0])
    if k == 'bin':
        return right_open(kids[0]) or left_open(kids[1])
    if k == 'between':
        # lo sits between BETWEEN and AND: ambiguous only through a binary AND, which needs parentheses there
        return right_open(kids[0]) or left_open(kids[2])
    if k in ('isnull', 'in'):
        return right_open(kids[0])
    return False


def adjacent_pairs(e):
    """Labels 'parent-class/child-class' of every un-parenthesised operator-under-operator edge of E."""
    out = []

    def go(n):
        if n[0] in ('leaf', '?'):
            return
        if n[0] == 'p':
            go(n[1])
            return
        for c in children(n):
            if c[0] not in ('leaf', 'p', '?'):
                out.append(f'{CLASS_NAME[cls(n)]}/{CLASS_NAME[cls(c)]}')
            go(c)
    go(e)
    return out


def skeleton(t):
    k = t[0]
    if k == 'leaf':
        return 'x'
    if k == 'p':
        return '(' + skeleton(t[1]) + ')'
    return spelling(t) + '(' + ', '.join(skeleton(c) for c in children(t)) + ')'


def subtrees(t):
    """All operator subtrees, smallest first (post-order)."""
    out = []

    def go(n):
        for c in children(n):
            go(c)
        if n[0] not in ('leaf', 'p'):
            out.append(n)
    go(t)
    return out


def replace_children(t, new):
    k = t[0]
    if k in ('u-', 'not', 'p'):
        return [k, new[0]]
    if k == 'bin':
        return ['bin', t[1], new[0], new[1]]
    if k == 'between':
        return ['between', new[0], new[1], new[2]]
    return [k, new[0], t[2]]


def simplifications(t):
    """One-step simplifications: some operator child (at any depth) replaced by a leaf or by one of its own
    children (hoisting; also out of a 'p')."""
    kids = children(t)
    for i, c in enumerate(kids):
        if c[0] != 'leaf':
            yield replace_children(t, kids[:i] + [['leaf', 'x']] + kids[i + 1:])
            for g in children(c):
                if g[0] != 'leaf':
                    yield replace_children(t, kids[:i] + [g] + kids[i + 1:])
        for s in simplifications(c):
            yield replace_children(t, kids[:i] + [s] + kids[i + 1:])


# ---------------------------------------------------------------- reference engine

LEAF_NAMES = ('a', 'b', 'c', 'd', 'e', 'f', 'g', 'h')
_VALUES = (None, -2, -1, 0, 1, 2, 3)


def _rows(n=40):
    rows = [tuple([None] * 8), tuple([0] * 8), tuple([1] * 8), (1, 2, 3, -1, -2, 0, None, 2), (3, 2, 1, 0, -1, -2, 2, None),
            (None, 1, None, 2, None, 3, None, 0), (2, None, 3, None, 1, None, -1, 1), (-2, -2, 3, 3, 1, 1, 0, 0)]
    x = 12345
    while len(rows) < n:
        r = []
        for _ in range(8):
            x = (x * 1103515245 + 12345) % (1 << 31)
            r.append(_VALUES[(x >> 16) % len(_VALUES)])
        rows.append(tuple(r))
    return rows


ROWS = _rows()


class Engine:
    """sqlite3 evaluation of an expression text over the fixed assignments ROWS (one result per assignment)."""

    def __init__(self):
        self.con = sqlite3.connect(':memory:')
        cols = ', '.join(LEAF_NAMES)
        self.con.execute(f'create table v ({cols})')
        self.con.executemany(f"insert into v values ({', '.join('?' * 8)})", ROWS)
        self.cache = {}

    def eval(self, text):
        r = self.cache.get(text)
        if r is None:
            r = [x[0] for x in self.con.execute(f'SELECT {text} FROM v ORDER BY rowid')]
            if len(self.cache) > 20000:
                self.cache.clear()
            self.cache[text] = r
        return r


def selftest():
    t = ['bin', '<', ['leaf', 'a'], ['bin', '*', ['leaf', 'b'], ['leaf', 'c']]]
    assert render(t)[0] == 'a < b * c'
    w = ['bin', '*', ['bin', '<', ['leaf', 'a'], ['leaf', 'b']], ['leaf', 'c']]
    assert render(w)[0] == '(a < b) * c' and render(w)[1][2][0] == 'p'
    f = flips(t, w)
    assert f == [('C[<]', 'M[*]', 1, 3)], f
    assert ambiguous(render(t)[1]) and not ambiguous(render(w)[1])
    assert render(['u-', ['u-', ['leaf', 'a']]])[0] == '- - a'
    assert render(['bin', '=', ['bin', '<', ['leaf', 'a'], ['leaf', 'b']], ['leaf', 'c']])[0] == '(a < b) = c'
    assert render(['bin', '-', ['leaf', 'a'], ['bin', '-', ['leaf', 'b'], ['leaf', 'c']]])[0] == 'a - (b - c)'
    assert fold_neg(['u-', ['u-', ['leaf', 1]]]) == ['leaf', 1]
    en = Engine()
    assert en.eval('a < b * c') == en.eval(full(t)) != en.eval(full(w))
    return True
