"""O-rawtext: a small literal-aware scanner for raw SQL text (used by C16), written from the documented token shapes,
independent of the library's lexers.

scan(text) -> [(kind, piece)] with ''.join(piece) == text.  Kinds:
  ws     blanks ' \\t\\r\\n', `-- ...` to end of line, terminated `/* ... */`
  sq     '...'   backslash escapes the next character, '' inside continues the literal
  dq     "..."   backslash escapes the next character
  bq     `...`   no escapes
  var    @name / @@name / @'..' / @".." / @`..` (and @@ forms); quoted bodies have no escapes
  word   run of letters, digits, _ $ . and non-ASCII characters (identifiers, keywords, numbers, dotted paths)
  punct  one of ( ) , ;
  op     run of any other characters (operators)
  broken an unterminated literal: the rest of the text, verbatim

strict(text)  = comments/blank runs -> one blank, ends stripped, literals untouched ("up to whitespace and comments"
                when the layout is kept).
lenient(text) = additionally drops blanks that cannot separate two tokens: a blank is kept only between two
                word/literal pieces or between two operator pieces (`a b`, `'a' 'b'`, `- -`, `< =`), never next to
                ( ) , ; or between a word/literal and an operator.
"""

WS = ' \t\r\n'
PUNCT = '(),;'
QUOTES = '\'"`'


def _is_word_char(ch):
    return ch.isalnum() or ch in '_$.' or ord(ch) > 127


def scan(text):
    out = []
    n = len(text)
    i = 0
    while i < n:
        ch = text[i]
        # ---- blanks and comments
        if ch in WS:
            j = i + 1
            while j < n and text[j] in WS:
                j += 1
            out.append(('ws', text[i:j])); i = j; continue
        if text.startswith('--', i):
            j = text.find('\n', i)
            j = n if j < 0 else j
            out.append(('ws', text[i:j])); i = j; continue
        if text.startswith('/*', i):
            j = text.find('*/', i + 2)
            if j >= 0:
                out.append(('ws', text[i:j + 2])); i = j + 2; continue
            # unterminated: '/' and '*' are operators
        # ---- literals
        if ch == "'" or ch == '"':
            j = i + 1
            closed = False
            while j < n:
                c = text[j]
                if c == '\\' and j + 1 < n and text[j + 1] != '\n':
                    j += 2; continue
                if c == ch:
                    if ch == "'" and j + 1 < n and text[j + 1] == "'":
                        j += 2; continue
                    closed = True; j += 1; break
                j += 1
            if not closed:
                out.append(('broken', text[i:])); i = n; continue
            out.append(('sq' if ch == "'" else 'dq', text[i:j])); i = j; continue
        if ch == '`':
            j = text.find('`', i + 1)
            if j < 0:
                out.append(('broken', text[i:])); i = n; continue
            out.append(('bq', text[i:j + 1])); i = j + 1; continue
        if ch == '@':
            j = i + 1
            if j < n and text[j] == '@':
                j += 1
            if j < n and text[j] in QUOTES:
                k = text.find(text[j], j + 1)
                if k < 0:
                    out.append(('broken', text[i:])); i = n; continue
                out.append(('var', text[i:k + 1])); i = k + 1; continue
            k = j
            while k < n and _is_word_char(text[k]):
                k += 1
            if k > j:
                out.append(('var', text[i:k])); i = k; continue
            out.append(('var', text[i:j])); i = j; continue      # a bare sigil
        if ch in PUNCT:
            out.append(('punct', ch)); i += 1; continue
        if _is_word_char(ch):
            j = i + 1
            while j < n and _is_word_char(text[j]):
                j += 1
            out.append(('word', text[i:j])); i = j; continue
        # ---- operator run (stops before anything that starts another piece)
        j = i + 1
        while j < n:
            c = text[j]
            if c in WS or c in PUNCT or c in QUOTES or c == '@' or _is_word_char(c):
                break
            if text.startswith('--', j):
                break
            if text.startswith('/*', j) and text.find('*/', j + 2) >= 0:
                break
            j += 1
        out.append(('op', text[i:j])); i = j
    return out


def pieces(text):
    """Non-blank pieces in order."""
    return [(k, s) for (k, s) in scan(text) if k != 'ws']


def well_formed(text):
    """(ok, reason): every literal terminated, parentheses balanced outside literals/comments, and the text does not
    end inside a line comment (which would swallow the closing parenthesis of the embedding)."""
    sc = scan(text)
    depth = 0
    for k, s in sc:
        if k == 'broken':
            return False, 'unterminated literal'
        if k == 'punct':
            if s == '(':
                depth += 1
            elif s == ')':
                depth -= 1
                if depth < 0:
                    return False, 'unbalanced )'
    if depth:
        return False, 'unbalanced ('
    if sc and sc[-1][0] == 'ws' and sc[-1][1].startswith('--'):
        return False, 'ends in line comment'
    if not any(k != 'ws' for k, s in sc):
        return False, 'empty'
    return True, ''


def strict(text):
    out = []
    gap = False
    for k, s in scan(text):
        if k == 'ws':
            gap = True
            continue
        if gap and out:
            out.append(' ')
        gap = False
        out.append(s)
    return ''.join(out)


def _cls(kind):
    if kind in ('sq', 'dq', 'bq', 'broken', 'word', 'var'):
        return 'W'
    if kind == 'op':
        return 'O'
    return 'P'


def lenient(text):
    out = []
    gap = False
    prev = None
    for k, s in scan(text):
        if k == 'ws':
            gap = True
            continue
        if gap and prev is not None:
            a, b = _cls(prev), _cls(k)
            if (a == 'W' and b == 'W') or (a == 'O' and b == 'O'):
                out.append(' ')
        gap = False
        out.append(s)
        prev = k
    return ''.join(out)


def dropped(src, got):
    """If `got` is `src` with some characters deleted (greedy left-to-right alignment) return the sorted string of
    distinct deleted characters, else None."""
    i = 0
    lost = set()
    for ch in src:
        if i < len(got) and got[i] == ch:
            i += 1
        else:
            lost.add(ch)
    if i != len(got):
        return None
    return ''.join(sorted(lost))


def _selftest():
    def kinds(t):
        return [(k, s) for k, s in scan(t)]
    assert ''.join(s for k, s in scan("a 'b' -- c\n d")) == "a 'b' -- c\n d"
    assert strict("  select  a,\n b -- c\n from /* x */ t ") == 'select a, b from t'
    assert strict("a/**/b") == 'a b'
    assert strict("select '  a -- b '  ,  \"/* c */\"") == "select '  a -- b ' , \"/* c */\""
    assert kinds("'it''s'") == [('sq', "'it''s'")]
    assert kinds("''") == [('sq', "''")]
    assert kinds("''''") == [('sq', "''''")]
    assert kinds("'a\\'b'") == [('sq', "'a\\'b'")]
    assert kinds("'a\\\\'x") == [('sq', "'a\\\\'"), ('word', 'x')]
    assert kinds('"a\\"b"') == [('dq', '"a\\"b"')]
    assert kinds('"a""b"') == [('dq', '"a"'), ('dq', '"b"')]
    assert kinds("`a 'b`") == [('bq', "`a 'b`")]
    assert kinds("@'a b' @@`x y` @v @@sv.x @") == [('var', "@'a b'"), ('ws', ' '), ('var', '@@`x y`'), ('ws', ' '),
                                                  ('var', '@v'), ('ws', ' '), ('var', '@@sv.x'), ('ws', ' '), ('var', '@')]
    assert kinds("a<=b") == [('word', 'a'), ('op', '<='), ('word', 'b')]
    assert kinds("a--b\nc") == [('word', 'a'), ('ws', '--b'), ('ws', '\n'), ('word', 'c')]
    assert kinds("a-/*x*/-b") == [('word', 'a'), ('op', '-'), ('ws', '/*x*/'), ('op', '-'), ('word', 'b')]
    assert kinds("a /* b") == [('word', 'a'), ('ws', ' '), ('op', '/*'), ('ws', ' '), ('word', 'b')]
    assert kinds("f((1.50),007)") == [('word', 'f'), ('punct', '('), ('punct', '('), ('word', '1.50'), ('punct', ')'),
                                      ('punct', ','), ('word', '007'), ('punct', ')')]
    assert kinds("'abc")[0][0] == 'broken'
    assert lenient("f ( a , b )") == lenient("f(a,b)") == 'f(a,b)'
    assert lenient("a < = b") != lenient("a <= b")
    assert lenient("a - - b") == 'a- -b' and lenient("a - -b") == 'a- -b'
    assert lenient("a b") == 'a b' and lenient("'a' 'b'") == "'a' 'b'" and lenient("'a''b'") == "'a''b'"
    assert lenient("@ 'a'") != lenient("@'a'")
    assert lenient("x = 'a'  ||  'b'") == "x='a'||'b'"
    assert well_formed("a ( b ')' ) -- (\n")[0]
    assert not well_formed("a ( b")[0] and not well_formed("a ) (")[0] and not well_formed("a -- b")[0]
    assert not well_formed("  /* */ ")[0] and not well_formed("a 'b")[0]
    assert dropped("''", "'") == "'" and dropped("'it''s'", "'it's'") == "'"
    assert dropped("'a\\'b'", "'a'b'") == '\\' and dropped("@'a b'", 'a b') == "'@"
    assert dropped("@$x", "x") == '$@' and dropped('abc', 'abd') is None and dropped('abc', 'abc') == ''
    print('rawtext self-test ok')


if __name__ == '__main__':
    _selftest()
