"""O-plan: reference interpreter of plan steps by their documented meaning (planner/steps.py docstrings), on sqlite3.

Each step result is a relation whose columns carry (table label, column name).  Relations are materialised as tables
of a scratch SQLite database, so expression semantics (NULL logic, arithmetic, LIKE) are the engine's.  Queries held
by steps are turned into SQL by the own printer (vf.oracles.refprint), never by the library's to_string().
"""
import copy, sqlite3

from vf.oracles import refprint


class InterpError(Exception):
    """The interpreter cannot give this plan a meaning (unknown step kind, unresolvable column...).  Never a
    violation by itself: the caller decides (harness error for predictor-free plans of the registered domain)."""


class NestedQuery(InterpError):
    """A step that works on a result still contains an un-planned nested SELECT: it cannot be carried out."""


class Rel:
    def __init__(self, cols, rows):
        self.cols = list(cols)     # [(label or None, name)]
        self.rows = [tuple(r) for r in rows]


class Interp:
    def __init__(self, fetch_conn):
        """fetch_conn(integration) -> sqlite3 connection holding that integration's tables unqualified"""
        self.fetch_conn = fetch_conn
        self.res = {}
        self.scratch = sqlite3.connect(':memory:')
        self.log = []

    # ---- helpers
    def load(self, rel, name):
        self.scratch.execute(f'DROP TABLE IF EXISTS "{name}"')
        n = len(rel.cols)
        if n == 0:
            self.scratch.execute(f'CREATE TABLE "{name}" (dummy)')
            return
        self.scratch.execute(f'CREATE TABLE "{name}" ({", ".join("c%d" % i for i in range(n))})')
        if rel.rows:
            self.scratch.executemany(f'INSERT INTO "{name}" VALUES ({", ".join("?" * n)})', rel.rows)

    def resolve(self, rel, ident):
        parts = list(ident.parts)
        col = parts[-1]
        qual = [str(p).lower() for p in parts[:-1]]
        cands = [i for i, (lab, name) in enumerate(rel.cols)
                 if str(name).lower() == str(col).lower() and (not qual or (lab or '').lower() == qual[-1])]
        if not cands and qual and not any((lab or '').lower() == qual[-1] for lab, _ in rel.cols):
            # the qualifier names nothing in this relation (e.g. a CTE addressed through an alias): which frame a
            # qualifier denotes is the executor's business; fall back to the column name when that is unambiguous
            cands = [i for i, (lab, name) in enumerate(rel.cols) if str(name).lower() == str(col).lower()]
        if len(cands) != 1:
            raise InterpError(f'cannot resolve {parts} in {rel.cols}: {cands}')
        return cands[0]

    def result_of(self, ref):
        from mindsdb_sql.planner.step_result import Result
        from mindsdb_sql.planner.steps import PlanStep
        if isinstance(ref, Result):
            n = ref.step_num
        elif isinstance(ref, PlanStep):
            n = ref.step_num
        else:
            raise InterpError(f'unknown reference {ref!r}')
        if n not in self.res:
            raise InterpError(f'reference to result {n} which has not been computed')
        return self.res[n]

    def fill_params(self, node):
        """Replace Parameter(Result n) by the values of result n (list in IN position, scalar otherwise)."""
        from mindsdb_sql.parser import ast
        from mindsdb_sql.parser.ast.base import ASTNode
        from mindsdb_sql.planner.step_result import Result

        def const(v):
            return ast.NullConstant() if v is None else ast.Constant(v)

        def rec(n, in_rhs=False):
            if isinstance(n, list):
                return [rec(x) for x in n]
            if isinstance(n, ast.Parameter) and isinstance(n.value, Result):
                rel = self.result_of(n.value)
                if in_rhs:
                    return ast.Tuple([const(r[0]) for r in rel.rows])
                c = ast.NullConstant() if len(rel.rows) == 0 else const(rel.rows[0][0])
                c.alias = n.alias          # the value keeps the column name of the parameter
                return c
            if not isinstance(n, ASTNode):
                return n
            if isinstance(n, ast.BinaryOperation) and n.op in ('in', 'not in'):
                n.args = [rec(n.args[0]), rec(n.args[1], in_rhs=True)]
                return n
            for k, v in list(vars(n).items()):
                if k == 'alias':
                    continue
                if isinstance(v, (ASTNode, list)):
                    setattr(n, k, rec(v))
            return n
        return rec(node)

    def map_idents(self, node, fn):
        """Apply fn to every Identifier in expression position (not aliases); returns the rewritten node."""
        from mindsdb_sql.parser import ast
        from mindsdb_sql.parser.ast.base import ASTNode
        if isinstance(node, list):
            return [self.map_idents(x, fn) for x in node]
        if not isinstance(node, ASTNode):
            return node
        if isinstance(node, ast.Identifier):
            return fn(node)
        if isinstance(node, (ast.Select, ast.Union, ast.Intersect, ast.Except)):
            raise NestedQuery('nested query left inside a step query')
        for k, v in list(vars(node).items()):
            if k == 'alias':
                continue
            if isinstance(v, (ASTNode, list)):
                setattr(node, k, self.map_idents(v, fn))
        return node

    # ---- select over a relation
    def run_over(self, query, rel, label):
        from mindsdb_sql.parser import ast
        q = self.fill_params(copy.deepcopy(query))
        self.load(rel, 'src')

        def fn(ident):
            i = self.resolve(rel, ident)
            return ast.Identifier(parts=['c%d' % i])

        mapped, out_cols = [], []
        alias_names = {}
        for t in q.targets:
            if isinstance(t, ast.Star) or (isinstance(t, ast.Identifier) and isinstance(t.parts[-1], ast.Star)):
                qual = None
                if isinstance(t, ast.Identifier) and len(t.parts) > 1:
                    qual = str(t.parts[-2]).lower()
                n = 0
                for i, (lab, name) in enumerate(rel.cols):
                    if qual is None or (lab or '').lower() == qual:
                        mapped.append(ast.Identifier(parts=['c%d' % i], alias=ast.Identifier(parts=['o%d' % len(out_cols)])))
                        out_cols.append((label or lab, name))
                        n += 1
                if n == 0:
                    raise InterpError(f'star {getattr(t, "parts", "*")} matches nothing in {rel.cols}')
                continue
            lab, name = None, None
            if isinstance(t, ast.Identifier):
                lab, name = rel.cols[self.resolve(rel, t)]
            if t.alias is not None:
                name = t.alias.parts[-1]
                alias_names[str(name).lower()] = len(out_cols)
            if name is None:
                name = 'expr%d' % len(out_cols)
            t2 = copy.deepcopy(t)
            t2.alias = None
            t2 = self.map_idents(t2, fn)
            t2.alias = ast.Identifier(parts=['o%d' % len(out_cols)])
            mapped.append(t2)
            out_cols.append((label or lab, name))

        def fn_order(ident):
            # an output alias shadows a source column in GROUP BY / HAVING / ORDER BY (SQLite: output names first
            # in ORDER BY; our generated queries only use aliases that are not source column names)
            if len(ident.parts) == 1 and str(ident.parts[0]).lower() in alias_names:
                return ast.Identifier(parts=['o%d' % alias_names[str(ident.parts[0]).lower()]])
            return fn(ident)

        q.targets = mapped
        if q.where is not None:
            q.where = self.map_idents(q.where, fn)
        if q.group_by:
            q.group_by = self.map_idents(q.group_by, fn_order)
        if q.having is not None:
            q.having = self.map_idents(q.having, fn_order)
        if q.order_by:
            for o in q.order_by:
                o.field = self.map_idents(o.field, fn_order)
        q.from_table = ast.Identifier(parts=['src'])
        q.cte = None
        q.using = None
        sql = refprint.Printer().query(q)
        self.log.append(sql)
        try:
            rows = self.scratch.execute(sql).fetchall()
        except sqlite3.Error as e:
            raise InterpError(f'scratch query failed: {e}: {sql}')
        return Rel(out_cols, rows)

    # ---- steps
    def step(self, s):
        from mindsdb_sql.planner import steps as S
        from mindsdb_sql.parser import ast
        cn = type(s).__name__
        if cn == 'FetchDataframeStep':
            if s.raw_query is not None:
                raise InterpError('raw query fetch')
            q = self.fill_params(copy.deepcopy(s.query))
            conn = self.fetch_conn(s.integration)
            sql = refprint.Printer().query(q)
            self.log.append(f'[{s.integration}] {sql}')
            try:
                cur = conn.execute(sql)
                rows = cur.fetchall()
            except sqlite3.Error as e:
                raise InterpError(f'fetch failed on {s.integration}: {e}: {sql}')
            label = None
            ft = getattr(s.query, 'from_table', None)
            if isinstance(ft, ast.Identifier):
                label = ft.alias.parts[-1] if ft.alias is not None else ft.parts[-1]
            return Rel([(label, d[0]) for d in cur.description], rows)
        if cn == 'SubSelectStep':
            rel = self.result_of(s.dataframe)
            if s.table_name is not None:
                # the dataframe is addressed under this name by the step's query
                rel = Rel([(s.table_name, name) for _, name in rel.cols], rel.rows)
            return self.run_over(s.query, rel, None)
        if cn == 'QueryStep':
            return self.run_over(s.query, self.result_of(s.from_table), None)
        if cn == 'JoinStep':
            L, R = self.result_of(s.left), self.result_of(s.right)
            self.load(L, 'l'); self.load(R, 'r')
            cond = copy.deepcopy(s.query.condition)

            both = Rel(L.cols + R.cols, [])

            def fn(ident):
                i = self.resolve(both, ident)
                if i < len(L.cols):
                    return ast.Identifier(parts=['l', 'c%d' % i])
                return ast.Identifier(parts=['r', 'c%d' % (i - len(L.cols))])
            on = ''
            if cond is not None:
                cond = self.fill_params(cond)
                cond = self.map_idents(cond, fn)
                on = ' ON ' + refprint.Printer().expr(cond)
            jt = (s.query.join_type or 'JOIN').upper()
            if jt == 'CROSS JOIN' or (cond is None and jt in ('JOIN', 'INNER JOIN')):
                jt, on = 'CROSS JOIN', ''
            sel = ', '.join([f'l.c{i}' for i in range(len(L.cols))] + [f'r.c{i}' for i in range(len(R.cols))])
            sql = f'SELECT {sel} FROM l {jt} r{on}'
            self.log.append(sql)
            try:
                rows = self.scratch.execute(sql).fetchall()
            except sqlite3.Error as e:
                raise InterpError(f'join failed: {e}: {sql}')
            return Rel(L.cols + R.cols, rows)
        if cn == 'UnionStep':
            L, R = self.result_of(s.left), self.result_of(s.right)
            if len(L.cols) != len(R.cols):
                raise InterpError('union of different widths')
            self.load(L, 'l'); self.load(R, 'r')
            op = s.operation.upper() + ('' if s.unique else ' ALL')
            rows = self.scratch.execute(f'SELECT * FROM l {op} SELECT * FROM r').fetchall()
            return Rel(L.cols, rows)
        if cn == 'LimitOffsetStep':
            rel = self.result_of(s.dataframe)
            rows = rel.rows
            off = s.offset.value if s.offset is not None else 0
            rows = rows[off:]
            if s.limit is not None:
                rows = rows[:s.limit.value]
            return Rel(rel.cols, rows)
        if cn == 'ProjectStep':
            rel = self.result_of(s.dataframe)
            q = ast.Select(targets=copy.deepcopy(s.columns))
            return self.run_over(q, rel, None)
        raise InterpError('unknown step kind ' + cn)

    def run(self, plan):
        for s in plan.steps:
            try:
                self.res[s.step_num] = self.step(s)
            except refprint.Unsupported as e:
                raise InterpError(f'O-print: {e}')
        return self.res[plan.steps[-1].step_num]
