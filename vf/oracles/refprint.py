"""O-print: own printer from library trees (the query subset) to SQLite text.

Every operator application is parenthesised, so the text shows exactly the grouping the *tree* has; the
`parentheses` flags, to_string() and the renderer are not used.  Table names go through `table_name(parts)`.
Unknown node kinds raise Unsupported (the caller counts the case as not judged / harness error, never a violation).
"""
import datetime


class Unsupported(Exception):
    pass


def qid(name):
    return '"' + str(name).replace('"', '""') + '"'


def qstr(v):
    return "'" + str(v).replace("'", "''") + "'"


BINOPS = {'and': 'AND', 'or': 'OR', '=': '=', '!=': '!=', '<>': '<>', '<': '<', '<=': '<=', '>': '>', '>=': '>=',
          '+': '+', '-': '-', '*': '*', '/': '/', '%': '%', '||': '||', 'like': 'LIKE', 'not like': 'NOT LIKE',
          'in': 'IN', 'not in': 'NOT IN', 'is': 'IS', 'is not': 'IS NOT'}


class Printer:
    def __init__(self, table_name=None, param=None):
        self.table_name = table_name or (lambda parts: '.'.join(qid(p) for p in parts))
        self.param = param      # callable(Parameter node) -> sql text, for Parameter(Result) substitution

    # ---- expressions
    def expr(self, n):
        cn = type(n).__name__
        f = getattr(self, 'e_' + cn, None)
        if f is None:
            raise Unsupported('expression node ' + cn)
        return f(n)

    def e_Identifier(self, n):
        out = []
        for p in n.parts:
            if type(p).__name__ == 'Star':
                out.append('*')
            else:
                out.append(qid(p))
        return '.'.join(out)

    def e_Star(self, n):
        return '*'

    def e_Constant(self, n):
        v = n.value
        if v is None:
            return 'NULL'
        if isinstance(v, bool):
            return 'TRUE' if v else 'FALSE'      # not 1 / 0: `x IS TRUE` is a truth test, `x IS 1` a comparison
        if isinstance(v, (int, float)):
            return repr(v) if v >= 0 else '(' + repr(v) + ')'
        if isinstance(v, (datetime.date, datetime.datetime)):
            return qstr(v)
        if isinstance(v, str):
            return qstr(v)
        raise Unsupported('constant ' + type(v).__name__)

    def e_NullConstant(self, n):
        return 'NULL'

    def e_Parameter(self, n):
        if self.param is None:
            raise Unsupported('Parameter')
        return self.param(n)

    def e_BinaryOperation(self, n):
        op = BINOPS.get(n.op)
        if op is None:
            raise Unsupported('binary op ' + n.op)
        a, b = n.args
        if n.op in ('in', 'not in'):
            rb = self.in_rhs(b)
            return f'({self.expr(a)} {op} {rb})'
        return f'({self.expr(a)} {op} {self.expr(b)})'

    def in_rhs(self, b):
        cn = type(b).__name__
        if cn == 'Tuple':
            return '(' + ', '.join(self.expr(x) for x in b.items) + ')'
        if cn in ('Select', 'Union', 'Intersect', 'Except'):
            return '(' + self.query(b) + ')'
        if cn == 'Parameter':
            return self.expr(b)
        return '(' + self.expr(b) + ')'

    def e_UnaryOperation(self, n):
        if n.op == 'not':
            return f'(NOT {self.expr(n.args[0])})'
        if n.op == '-':
            return f'(- {self.expr(n.args[0])})'
        raise Unsupported('unary op ' + n.op)

    def e_BetweenOperation(self, n):
        a, b, c = n.args
        return f'({self.expr(a)} BETWEEN {self.expr(b)} AND {self.expr(c)})'

    def e_Tuple(self, n):
        return '(' + ', '.join(self.expr(x) for x in n.items) + ')'

    def e_Function(self, n):
        if n.namespace:
            raise Unsupported('namespaced function')
        if n.from_arg is not None:
            raise Unsupported('function FROM-argument')
        args = ', '.join(self.expr(a) for a in n.args)
        return f"{n.op}({'DISTINCT ' if n.distinct else ''}{args})"

    def e_WindowFunction(self, n):
        s = self.e_Function(n.function) + ' OVER ('
        if n.partition:
            s += 'PARTITION BY ' + ', '.join(self.expr(x) for x in n.partition)
        if n.order_by:
            s += ' ORDER BY ' + ', '.join(self.order_term(x) for x in n.order_by)
        if n.modifier:
            s += ' ' + n.modifier
        return s + ')'

    def e_Case(self, n):
        s = 'CASE'
        if n.arg is not None:
            s += ' ' + self.expr(n.arg)
        for c, r in n.rules:
            s += f' WHEN {self.expr(c)} THEN {self.expr(r)}'
        if n.default is not None:
            s += ' ELSE ' + self.expr(n.default)
        return '(' + s + ' END)'

    def e_TypeCast(self, n):
        t = n.type_name
        if n.precision is not None:
            t += '(' + ','.join(str(x) for x in n.precision) + ')'
        return f'CAST({self.expr(n.arg)} AS {t})'

    def e_Exists(self, n):
        return f'(EXISTS ({self.query(n.args[0])}))'

    def e_NotExists(self, n):
        return f'(NOT EXISTS ({self.query(n.args[0])}))'

    def e_Select(self, n):
        return '(' + self.query(n) + ')'

    e_Union = e_Intersect = e_Except = e_Select

    # ---- queries
    def alias(self, n):
        a = getattr(n, 'alias', None)
        return '' if a is None else ' AS ' + qid(a.parts[-1])

    def order_term(self, o):
        s = self.expr(o.field)
        if o.direction and o.direction != 'default':
            s += ' ' + o.direction
        if o.nulls and o.nulls != 'default':
            s += ' ' + o.nulls
        return s

    def from_item(self, n):
        cn = type(n).__name__
        if cn == 'Identifier':
            return self.table_name(list(n.parts)) + self.alias(n)
        if cn == 'Join':
            left = self.from_item(n.left)
            right = self.from_item(n.right)
            if n.implicit:
                return f'{left}, {right}'
            jt = n.join_type or 'JOIN'
            s = f'{left} {jt} {right}'
            if n.condition is not None:
                s += ' ON ' + self.expr(n.condition)
            return s
        if cn in ('Select', 'Union', 'Intersect', 'Except'):
            return '(' + self.query(n) + ')' + self.alias(n)
        raise Unsupported('FROM item ' + cn)

    def with_clause(self, cte_list):
        ctes = []
        for c in cte_list:
            cols = ''
            if c.columns:
                cols = '(' + ', '.join(qid(x.parts[-1]) for x in c.columns) + ')'
            ctes.append(f'{qid(c.name.parts[-1])}{cols} AS ({self.query(c.query)})')
        return 'WITH ' + ', '.join(ctes) + ' '

    def query(self, n):
        cn = type(n).__name__
        if cn in ('Union', 'Intersect', 'Except'):
            kw = cn.upper() + ('' if n.unique else ' ALL')
            # the parsers attach a leading WITH clause to the left-most select, while in SQL it scopes over the
            # whole compound statement: hoist it
            import copy as _copy
            left, prefix = n.left, ''
            lm = left
            while type(lm).__name__ in ('Union', 'Intersect', 'Except'):
                lm = lm.left
            if type(lm).__name__ == 'Select' and lm.cte:
                n = _copy.copy(n)
                chain = []
                node = n
                while type(node.left).__name__ in ('Union', 'Intersect', 'Except'):
                    node.left = _copy.copy(node.left)
                    node = node.left
                lm2 = _copy.copy(node.left)
                ctes = lm2.cte
                lm2.cte = None
                node.left = lm2
                prefix = self.with_clause(ctes)
            if getattr(n, 'cte', None):
                # WITH written in front of a parenthesised set operation sits on the operation itself
                prefix = self.with_clause(n.cte) + (prefix[len('WITH '):].join([', ', '']) if prefix else '')
                prefix = prefix.replace(' , ', ', ')
            # SQLite has no parenthesised compound operands: wrap each operand as a sub-select
            return f'{prefix}SELECT * FROM ({self.query(n.left)}) {kw} SELECT * FROM ({self.query(n.right)})'
        if cn != 'Select':
            raise Unsupported('query node ' + cn)
        s = ''
        if n.cte:
            s += self.with_clause(n.cte)
        s += 'SELECT '
        if n.distinct:
            s += 'DISTINCT '
        s += ', '.join(self.expr(t) + self.alias(t) for t in n.targets)
        if n.from_table is not None:
            s += ' FROM ' + self.from_item(n.from_table)
        if n.where is not None:
            s += ' WHERE ' + self.expr(n.where)
        if n.group_by:
            s += ' GROUP BY ' + ', '.join(self.expr(g) for g in n.group_by)
        if n.having is not None:
            s += ' HAVING ' + self.expr(n.having)
        if n.order_by:
            s += ' ORDER BY ' + ', '.join(self.order_term(o) for o in n.order_by)
        if n.limit is not None:
            s += ' LIMIT ' + self.expr(n.limit)
            if n.offset is not None:
                s += ' OFFSET ' + self.expr(n.offset)
        elif n.offset is not None:
            s += ' LIMIT -1 OFFSET ' + self.expr(n.offset)
        if n.mode or getattr(n, 'using', None):
            raise Unsupported('mode/using')
        return s
