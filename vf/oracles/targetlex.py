"""O-lex for render *targets*: how MySQL, PostgreSQL, SQLite, MSSQL and Oracle cut a statement text into tokens and
what a quoted literal / quoted identifier denotes there; plus the same tokenizer over the library's own lexical
rules (string reader imported from vf.oracles.reflex) for the to_string() path.

Small hand-written models of the engines' DEFAULT modes, written from their reference manuals, not from SQLAlchemy
or mindsdb_sql (nothing of either is imported):

  mysql       '...' and "..." are strings; '' / "" is the doubled delimiter; backslash escapes
              (\\0 \\' \\" \\b \\n \\r \\t \\Z \\\\ ; \\% and \\_ stay two characters; any other \\c is c); `...` identifier with
              `` doubled; comments: '-- ' (two dashes + blank/control/end), '#' to end of line, /* */.
              (sql_mode NO_BACKSLASH_ESCAPES / ANSI_QUOTES are not modelled.)
  postgresql  '...' with '' only (standard_conforming_strings = on); E'...' adds backslash escapes; "..." identifier with
              "" doubled; $tag$...$tag$; comments -- and nested /* */; a NUL character cannot occur in a statement.
  sqlite      '...' with '' only; identifiers "..." ("" doubled), `...` (`` doubled), [...] (no escape); comments -- and
              /* */ (an unterminated /* runs to the end); the statement text ends at a NUL character.
  mssql       '...' with '' only (N'...' too); identifiers "..." ("" doubled) and [...] (]] doubled); comments -- and
              nested /* */.
  oracle      '...' with '' only (N'...', q'[...]' forms); "..." identifier (a doubled "" is tolerated here: the reader
              is lenient on identifiers because the property is silent on labels); comments -- and /* */.
  snowflake   (the engine behind SqlalchemyRender's name 'Snowflake', which reuses the oracle compiler) '...' with '' and
              backslash escapes (\\' \\" \\\\ \\b \\f \\n \\r \\t \\0 \\ooo \\xhh \\uhhhh; in any other pair the backslash is
              dropped); $$...$$ strings; "..." identifier with "" doubled; comments --, // and /* */.
  library     the mindsdb dialect of mindsdb_sql: strings by reflex.read_quoted(.., 'mindsdb') ('' and backslash pairs,
              unspecified escapes left open), "..." is read the same way (string / identifier part), `...` identifier,
              comments -- and /* */.

Tokens: Tok(kind, src, value, extra, pos) (pos = offset of the token in the text) with kind in
  str      quoted string literal            value = denoted text (None for prefixed forms such as X'..' that are not text)
  qident   quoted identifier                value = denoted name
  word     bare word (identifier / keyword / digits glued to letters)
  num      unsigned numeric literal         value = source text
  op       any other single character
  comment  a comment (kept as a token so that it can never hide a difference)
  error    text that is not a token of the target: unterminated literal / identifier / comment, forbidden character;
           always the last token (the rest of the text is inside it)
For the library target the value of a str token is a reflex.Denot (use `admits`).
"""
import re
from collections import namedtuple

from vf.oracles import reflex

Tok = namedtuple('Tok', 'kind src value extra pos', defaults=(0,))

TARGETS = ('mysql', 'postgresql', 'sqlite', 'mssql', 'oracle')
TARGETS_EXTRA = ('snowflake',)
ALIASES = {'postgres': 'postgresql', 'Snowflake': 'snowflake'}       # SqlalchemyRender names -> engine whose rules apply
LIBRARY = 'library'

_BLANK = ' \t\n\r\f\v'
_NUM = re.compile(r'(?:\d+(?:\.\d*)?|\.\d+)(?:[eE][+-]?\d+)?')
_MYSQL_ESC = {'0': '\x00', "'": "'", '"': '"', 'b': '\x08', 'n': '\n', 'r': '\r', 't': '\t', 'Z': '\x1a', '\\': '\\'}
_PG_ESC = {'b': '\x08', 'f': '\x0c', 'n': '\n', 'r': '\r', 't': '\t'}
_SNOW_ESC = {'b': '\x08', 'f': '\x0c', 'n': '\n', 'r': '\r', 't': '\t', '0': '\x00'}
_PG_NUMESC = re.compile(r'[0-7]{1,3}|x[0-9A-Fa-f]{1,2}|u[0-9A-Fa-f]{4}|U[0-9A-Fa-f]{8}')
_SNOW_NUMESC = re.compile(r'[0-7]{3}|x[0-9A-Fa-f]{2}|u[0-9A-Fa-f]{4}')


class Rules:
    def __init__(self, name, backslash=False, dq_string=False, idq=(), line_comments=('--',), dash_needs_blank=False,
                 nested_comments=False, open_comment_ok=False, no_nul=False, prefixes=(), bracket_escape=False,
                 dollar=False, oracle_q=False):
        self.name = name
        self.backslash = backslash                 # backslash escapes inside plain '...'
        self.dq_string = dq_string                 # "..." is a string, not an identifier
        self.idq = idq                             # identifier quote characters among  " ` [
        self.line_comments = line_comments
        self.dash_needs_blank = dash_needs_blank
        self.nested_comments = nested_comments
        self.open_comment_ok = open_comment_ok
        self.no_nul = no_nul
        self.prefixes = prefixes                   # string prefixes, lower case
        self.bracket_escape = bracket_escape       # ]] inside [...]
        self.dollar = dollar
        self.oracle_q = oracle_q


RULES = {
    'mysql': Rules('mysql', backslash=True, dq_string=True, idq='`', line_comments=('--', '#'), dash_needs_blank=True,
                   prefixes=('n', 'x', 'b')),
    'postgresql': Rules('postgresql', idq='"', nested_comments=True, no_nul=True, prefixes=('e', 'n', 'x', 'b', 'u&'),
                        dollar=True),
    'sqlite': Rules('sqlite', idq='"`[', open_comment_ok=True, no_nul=True, prefixes=('x',)),
    'mssql': Rules('mssql', idq='"[', nested_comments=True, prefixes=('n',), bracket_escape=True),
    'oracle': Rules('oracle', idq='"', prefixes=('n', 'q', 'nq'), oracle_q=True),
    'snowflake': Rules('snowflake', backslash='snow', idq='"', line_comments=('--', '//'), dollar='$$'),
    LIBRARY: Rules(LIBRARY, idq='`'),
}


def canonical(target):
    return ALIASES.get(target, target)


def _is_word_ch(c):
    return c.isalnum() or c in '_$' or ord(c) > 127


# ------------------------------------------------------------------------------------------------- quoted forms

def read_string(text, i, target, escapes=None):
    """The string literal that starts at text[i] (a quote character).  -> (value, end) | None when unterminated.

    escapes: None = the target's default for a plain literal; 'mysql' / 'pg' = force that escape table (E'..')."""
    r = RULES[canonical(target)]
    q = text[i]
    mode = escapes if escapes is not None else (('mysql' if r.backslash is True else r.backslash) if r.backslash else None)
    out = []
    j = i + 1
    n = len(text)
    while j < n:
        ch = text[j]
        if r.no_nul and ch == '\x00':
            return None
        if ch == q:
            if j + 1 < n and text[j + 1] == q:
                out.append(q)
                j += 2
                continue
            return ''.join(out), j + 1
        if mode and ch == '\\':
            if j + 1 >= n:
                return None
            c = text[j + 1]
            if mode == 'mysql':
                if c in '%_':
                    out.append('\\' + c)
                else:
                    out.append(_MYSQL_ESC.get(c, c))
                j += 2
            else:                                   # PostgreSQL E'' strings / Snowflake
                snow = mode == 'snow'
                m = (_SNOW_NUMESC if snow else _PG_NUMESC).match(text, j + 1)
                if m:
                    g = m.group(0)
                    code = int(g, 8) if g[0] in '01234567' else int(g[1:], 16)
                    if (code == 0 and not snow) or code > 0x10ffff:
                        return None
                    out.append(chr(code))
                    j = m.end()
                else:
                    out.append((_SNOW_ESC if snow else _PG_ESC).get(c, c))
                    j += 2
            continue
        out.append(ch)
        j += 1
    return None


def read_qident(text, i, target):
    """The quoted identifier that starts at text[i] (one of the target's identifier quotes).  -> (name, end) | None."""
    r = RULES[canonical(target)]
    q = text[i]
    close = ']' if q == '[' else q
    doubled = r.bracket_escape if q == '[' else True
    out = []
    j = i + 1
    n = len(text)
    while j < n:
        ch = text[j]
        if r.no_nul and ch == '\x00':
            return None
        if ch == close:
            if doubled and j + 1 < n and text[j + 1] == close:
                out.append(close)
                j += 2
                continue
            return ''.join(out), j + 1
        out.append(ch)
        j += 1
    return None


def decode_literal(src, target):
    """Value of `src` when it is, completely, one plain string literal of the target; else None."""
    t = tokens(src, target)
    if len(t) == 1 and t[0].kind == 'str' and not t[0].extra:
        v = t[0].value
        return v if isinstance(v, str) else None
    return None


def spell_string(value, target):
    """Reference spelling of a text value as one plain literal of the target, or None when the target has none."""
    r = RULES[canonical(target)]
    if r.no_nul and '\x00' in value:
        return None
    if r.name == LIBRARY:
        return reflex.spell_string(value, 'mindsdb')
    s = value
    if r.backslash:
        s = s.replace('\\', '\\\\')
    return "'" + s.replace("'", "''") + "'"


def representable(value, target):
    """Has the target a plain quoted literal that denotes this text?"""
    return spell_string(value, target) is not None


# ------------------------------------------------------------------------------------------------- tokenizer

def _comment(text, i, r):
    """-> (kind, end) when a comment starts at i, else None."""
    n = len(text)
    if text.startswith('/*', i):
        depth, j = 1, i + 2
        while j < n:
            if text.startswith('*/', j):
                depth -= 1
                j += 2
                if depth == 0:
                    return 'comment', j
            elif r.nested_comments and text.startswith('/*', j):
                depth += 1
                j += 2
            else:
                j += 1
        return ('comment' if r.open_comment_ok else 'error'), n
    for lc in r.line_comments:
        if text.startswith(lc, i):
            if lc == '--' and r.dash_needs_blank:
                nxt = text[i + 2:i + 3]
                if nxt and not (nxt in _BLANK or ord(nxt) < 32):
                    continue
            k = text.find('\n', i)
            return 'comment', (n if k < 0 else k)
    return None


def tokens(text, target):
    r = RULES[canonical(target)]
    lib = r.name == LIBRARY
    out = []
    i, n = 0, len(text)

    def err():
        out.append(Tok('error', text[i:], None, '', i))
        return out

    while i < n:
        ch = text[i]
        if ch in _BLANK:
            i += 1
            continue
        if ch == '\x00' and r.no_nul:
            return err()
        c = _comment(text, i, r)
        if c is not None:
            kind, j = c
            out.append(Tok(kind, text[i:j], None, '', i))
            if kind == 'error':
                return out
            i = j
            continue
        if lib and ch in '\'"':
            d = reflex.read_quoted(text, i, 'mindsdb')
            if d is None:
                return err()
            out.append(Tok('str', text[i:d.end], d, 'dq' if ch == '"' else '', i))
            i = d.end
            continue
        if ch == "'" or (ch == '"' and r.dq_string):
            s = read_string(text, i, r.name)
            if s is None:
                return err()
            out.append(Tok('str', text[i:s[1]], s[0], 'dq' if ch == '"' else '', i))
            i = s[1]
            continue
        if ch in r.idq:
            if lib:
                s = reflex.read_backquoted(text, i)
            else:
                s = read_qident(text, i, r.name)
            if s is None:
                return err()
            out.append(Tok('qident', text[i:s[1]], s[0], ch, i))
            i = s[1]
            continue
        if r.dollar and ch == '$' and not (i and _is_word_ch(text[i - 1])):
            m = re.compile(r'\$\$' if r.dollar == '$$' else r'\$(?:[^\W\d]\w*)?\$').match(text, i)
            if m:
                k = text.find(m.group(0), m.end())
                if k < 0:
                    return err()
                j = k + len(m.group(0))
                out.append(Tok('str', text[i:j], text[m.end():k], 'dollar', i))
                i = j
                continue
        m = _NUM.match(text, i) if (ch.isdigit() and ch.isascii()) or (ch == '.' and text[i + 1:i + 2].isdigit()) else None
        if m and not (m.end() < n and _is_word_ch(text[m.end()])):
            if lib and re.search('[eE]', m.group(0)):
                m = None                                  # no exponent form in the library's number shapes
            elif lib and m.group(0).startswith('.'):
                m = None
        if m and not (m.end() < n and _is_word_ch(text[m.end()])):
            out.append(Tok('num', m.group(0), m.group(0), '', i))
            i = m.end()
            continue
        if _is_word_ch(ch):
            j = i
            while j < n and _is_word_ch(text[j]):
                j += 1
            w = text[i:j]
            wl = w.lower()
            # string prefixes: N'..', E'..', X'..', B'..', U&'..', q'[..]'
            if j < n and text[j] == "'" and wl in r.prefixes and wl not in ('q', 'nq'):
                if wl == 'e':
                    s = read_string(text, j, r.name, escapes='pg')
                else:
                    s = read_string(text, j, r.name)
                if s is None:
                    return err()
                val = s[0] if wl in ('e', 'n') else None
                out.append(Tok('str', text[i:s[1]], val, wl, i))
                i = s[1]
                continue
            if wl == 'u' and 'u&' in r.prefixes and text.startswith("&'", j):
                s = read_string(text, j + 1, r.name)
                if s is None:
                    return err()
                out.append(Tok('str', text[i:s[1]], None, 'u&', i))
                i = s[1]
                continue
            if r.oracle_q and wl in ('q', 'nq') and j + 2 < n and text[j] == "'":
                op = text[j + 1]
                cl = {'[': ']', '(': ')', '{': '}', '<': '>'}.get(op, op)
                k = text.find(cl + "'", j + 2)
                if k < 0:
                    return err()
                out.append(Tok('str', text[i:k + 2], text[j + 2:k], wl, i))
                i = k + 2
                continue
            out.append(Tok('word', w, w, '', i))
            i = j
            continue
        out.append(Tok('op', ch, ch, '', i))
        i += 1
    return out


def same_token(a, b):
    """Equality of two tokens outside the literal position (source text; quoted forms by kind and value)."""
    return a.kind == b.kind and a.src == b.src


# ------------------------------------------------------------------------------------------------- self-test

def selftest():
    T = tokens
    assert [t.kind for t in T("SELECT 'a''b' AS `x``y`", 'mysql')] == ['word', 'str', 'word', 'qident']
    assert T("'a''b'", 'mysql')[0].value == "a'b" and T("'a\\'b'", 'mysql')[0].value == "a'b"
    assert T("'\\'' OR 1=1 -- '", 'mysql')[0].value == "'" and len(T("'\\'' OR 1=1 -- '", 'mysql')) == 6
    assert T("'\\'' OR 1=1 -- '", 'postgresql')[0].value == "\\' OR 1=1 -- " and len(T("'\\'' OR 1=1 -- '", 'sqlite')) == 1
    assert T("'a\\'", 'mysql')[-1].kind == 'error' and T("'a\\'", 'oracle')[0].value == 'a\\'
    assert T("'\\n\\%\\_\\q\\0\\Z'", 'mysql')[0].value == '\n\\%\\_q\x00\x1a'
    assert T('"a""b"', 'mysql')[0].kind == 'str' and T('"a""b"', 'postgresql')[0] == Tok('qident', '"a""b"', 'a"b', '"')
    assert T('[a]]b]', 'mssql')[0].value == 'a]b' and [t.src for t in T('[a]]b]', 'sqlite')] == ['[a]', ']', 'b', ']']
    assert [t.kind for t in T('1 --x\n2', 'mysql')] == ['num', 'op', 'op', 'word', 'num']
    assert [t.kind for t in T('1 -- x\n2', 'mysql')] == ['num', 'comment', 'num']
    assert [t.kind for t in T('1 --x\n2 # c', 'postgresql')] == ['num', 'comment', 'num', 'op', 'word']
    assert [t.kind for t in T('1 # c\n2', 'mysql')] == ['num', 'comment', 'num']
    assert [t.kind for t in T('/* a /* b */ c */ 1', 'postgresql')] == ['comment', 'num']
    assert [t.kind for t in T('/* a /* b */ c */ 1', 'oracle')] == ['comment', 'word', 'op', 'op', 'num']
    assert T('/* a', 'sqlite')[0].kind == 'comment' and T('/* a', 'mysql')[0].kind == 'error'
    assert T("'a\x00b'", 'sqlite')[-1].kind == 'error' and T("'a\x00b'", 'mysql')[0].value == 'a\x00b'
    assert T("E'a\\'b\\n'", 'postgresql')[0].value == "a'b\n" and T("e 'a'", 'postgresql')[0].kind == 'word'
    assert T("N'a'", 'mssql')[0] == Tok('str', "N'a'", 'a', 'n') and T("x'00'", 'sqlite')[0].value is None
    assert T("q'[a'b]'", 'oracle')[0].value == "a'b" and T("$a$x'y$a$", 'postgresql')[0].value == "x'y"
    assert [t.kind for t in T('1e-07 .5 1.5 12abc 1.', 'sqlite')] == ['num', 'num', 'num', 'word', 'num']
    assert [t.src for t in T('1e-07', LIBRARY)] == ['1e', '-', '07']
    d = T("'a\\'b' \"x\" `y`", LIBRARY)
    assert d[0].value.exact == "a'b" and d[1].kind == 'str' and d[2][:4] == ('qident', '`y`', 'y', '`')
    assert T("'a\\'", LIBRARY)[-1].kind == 'error'
    assert T("'a\\'b\\q\\101\\x41\\u0041\\0'", 'snowflake')[0].value == "a'bqAAA\x00" and T("'a\\'", 'Snowflake')[-1].kind == 'error'
    assert [t.kind for t in T("1 // c\n$$a'b$$", 'snowflake')] == ['num', 'comment', 'str'] and T("'a\\'", 'oracle')[0].kind == 'str'
    for tgt in TARGETS + TARGETS_EXTRA + (LIBRARY,):
        for v in ['', "a'b", 'a\\', "\\' OR 1=1 -- ", '%s', 'a\nb', '"', '`', "''", '\\\\', '\\n']:
            s = spell_string(v, tgt)
            tk = T(s, tgt)
            assert len(tk) == 1 and tk[0].kind == 'str', (tgt, v, s)
            assert (tk[0].value.admits(v) if tgt == LIBRARY else tk[0].value == v), (tgt, v, s)
    assert spell_string('a\x00', 'sqlite') is None and spell_string('a\x00', 'mysql') == "'a\x00'"
    assert decode_literal("'a''b'", 'postgres') == "a'b" and decode_literal("'a' 'b'", 'mysql') is None
    return True
