"""O-lex — reference lexical denotation for the three dialects of mindsdb_sql.

What a quoted literal, an identifier path, a number and an @variable *denote*, written from the token shapes the
lexers declare (the regular expressions of QUOTE_STRING / DQUOTE_STRING / ID / INTEGER / FLOAT / VARIABLE /
SYSTEM_VARIABLE and the grammar shape `identifier DOT (identifier | integer | dquote_string | star)`), NOT by
calling the lexers or the grammar actions.  Nothing of mindsdb_sql is imported at module level; the only thing ever
read from the library is the *table* of keyword patterns (`keyword_of`), never its behaviour.

Token shapes
  mindsdb   '...'   units: plain char (not ' and not \\) | '' | \\ + any char
            "..."   units: plain char (not " and not \\) | \\ + any char
            denotation: plain -> itself, '' -> ', \\' -> ', \\" -> ", \\\\ -> \\ ; any other \\c is OPEN: the reader
            admits the two characters `\\c`, the character `c`, or MySQL's control-character meaning.
  mysql, sqlite   '[^']*'  "[^"]*"  : no escape form exists; the literal denotes its raw content.
  word      [A-Za-z_$0-9]*[A-Za-z_$]+[A-Za-z_$0-9]*   (so `1a`, `$x` are words; a run of digits only is a number)
  `...`     non-empty, no back-quote inside; denotes its content verbatim (dots included)
  number    INTEGER \\d+ ; FLOAT \\d+\\.\\d+ (mindsdb) or \\d+\\.\\d* (mysql, sqlite); no exponent form, no sign
  variable  @name | @'q' | @`q` | @"q"  (and @@...), name = [A-Za-z_.$]+, q = [A-Za-z_.$] then anything but the quote
  path      part (blank* . blank* part)* ; part = word | `...` | "..." (mindsdb) | digits after a dot (mindsdb) | *

The readers below never backtrack: a backslash always pairs with the next character and a doubled quote is always a
unit, i.e. a text is read the way its writer composed it from units.  A text that is not completely one token of
the asked shape reads as `None`.
"""
import re
from fractions import Fraction

DIALECTS = ('mindsdb', 'mysql', 'sqlite')
ESCAPING = ('mindsdb',)            # dialects whose quoted-literal shape pairs a backslash with the next character
HAS_VARIABLES = ('mindsdb', 'mysql')
DQ_IDENT = ('mindsdb',)            # dialects whose grammar takes a double-quoted string as an identifier part
INT_PART = ('mindsdb',)            # `identifier DOT integer`

_WORD_CH = frozenset('abcdefghijklmnopqrstuvwxyzABCDEFGHIJKLMNOPQRSTUVWXYZ_$0123456789')
_DIGITS = frozenset('0123456789')
_VAR_CH = frozenset('abcdefghijklmnopqrstuvwxyzABCDEFGHIJKLMNOPQRSTUVWXYZ_.$')
_BLANK = frozenset(' \t\r\n')

# MySQL's reading of \c for the characters where it is not "c itself"
_MYSQL_CTRL = {'0': '\x00', 'b': '\x08', 'n': '\n', 'r': '\r', 't': '\t', 'Z': '\x1a'}
_EXACT_ESC = {"'": "'", '"': '"', '\\': '\\'}


# ---------------------------------------------------------------------------------------------- quoted literals

class Denot:
    """Denotation of a quoted literal: a sequence of units, each with the tuple of readings the reference admits."""
    __slots__ = ('units', 'end', 'quote')

    def __init__(self, units, end, quote):
        self.units, self.end, self.quote = units, end, quote

    @property
    def open(self):
        return any(len(a) > 1 for _, a in self.units)

    @property
    def exact(self):
        """The single denoted value, or None when a unit is open."""
        if self.open:
            return None
        return ''.join(a[0] for _, a in self.units)

    @property
    def canonical(self):
        """First admitted reading of every unit (for open units: the two characters kept as they are)."""
        return ''.join(a[0] for _, a in self.units)

    def admits(self, value):
        if not isinstance(value, str):
            return False
        reach = {0}
        for _, alts in self.units:
            nxt = set()
            for p in reach:
                for a in alts:
                    if value.startswith(a, p):
                        nxt.add(p + len(a))
            reach = nxt
            if not reach:
                return False
        return len(value) in reach

    def sources(self):
        return [s for s, _ in self.units]


def escape_alternatives(c):
    """Admitted readings of the unit backslash + c in an escaping dialect."""
    if c in _EXACT_ESC:
        return (_EXACT_ESC[c],)
    alts = ['\\' + c, c]
    if c in _MYSQL_CTRL:
        alts.append(_MYSQL_CTRL[c])
    return tuple(alts)


def read_quoted(text, i, dialect):
    """Read the single- or double-quoted literal that starts at text[i].  -> Denot | None (not a complete literal)."""
    n = len(text)
    if i >= n or text[i] not in '\'"':
        return None
    q = text[i]
    j = i + 1
    units = []
    esc = dialect in ESCAPING
    while True:
        if j >= n:
            return None
        ch = text[j]
        if ch == q:
            if esc and q == "'" and j + 1 < n and text[j + 1] == "'":
                units.append(("''", ("'",)))
                j += 2
                continue
            return Denot(units, j + 1, q)
        if esc and ch == '\\':
            if j + 1 >= n:
                return None
            c = text[j + 1]
            units.append(('\\' + c, escape_alternatives(c)))
            j += 2
            continue
        units.append((ch, (ch,)))
        j += 1


def read_whole_quoted(text, dialect):
    d = read_quoted(text, 0, dialect)
    if d is None or d.end != len(text):
        return None
    return d


def spell_string(value, dialect, quote="'"):
    """A reference spelling of `value` as a quoted literal of the dialect, or None when the shape has none."""
    if dialect in ESCAPING:
        out = []
        for ch in value:
            if ch == '\\':
                out.append('\\\\')
            elif ch == quote:
                out.append('\\' + quote)
            else:
                out.append(ch)
        return quote + ''.join(out) + quote
    if quote in value:
        return None
    return quote + value + quote


# ---------------------------------------------------------------------------------------------- blanks

def skip_blank(text, i):
    """Skip white space, /* */ and -- comments (the `ignore` patterns, identical in the three lexers)."""
    n = len(text)
    while i < n:
        ch = text[i]
        if ch in _BLANK:
            i += 1
        elif text.startswith('/*', i):
            k = text.find('*/', i + 2)
            if k < 0:
                return i
            i = k + 2
        elif text.startswith('--', i):
            k = text.find('\n', i)
            i = n if k < 0 else k
        else:
            break
    return i


# ---------------------------------------------------------------------------------------------- words, numbers

def word_run(text, i):
    j = i
    n = len(text)
    while j < n and text[j] in _WORD_CH:
        j += 1
    return j


def read_word(text, i):
    """-> (word, end) when an ID-shaped plain word starts at i (digits only is not a word)."""
    j = word_run(text, i)
    if j == i:
        return None
    w = text[i:j]
    if all(c in _DIGITS for c in w):
        return None
    return w, j


def read_backquoted(text, i):
    if i >= len(text) or text[i] != '`':
        return None
    k = text.find('`', i + 1)
    if k < 0 or k == i + 1:
        return None
    return text[i + 1:k], k + 1


def read_number(text, i, dialect):
    """Unsigned number token at i -> ('int', int, end) | ('float', Fraction, end) | None.

    A digit run that continues with word characters is a word (`1a`, `1e5`), not a number."""
    j = word_run(text, i)
    if j == i or not all(c in _DIGITS for c in text[i:j]):
        return None
    n = len(text)
    if j < n and text[j] == '.':
        k = j + 1
        while k < n and text[k] in _DIGITS:
            k += 1
        if k > j + 1:
            return 'float', Fraction(text[i:k]), k
        if dialect != 'mindsdb':                      # \d+\.\d*  : "1." is a FLOAT there
            return 'float', Fraction(text[i:j]), k
    return 'int', int(text[i:j]), j


def nearest_double(fr):
    return float(fr)            # int/int true division of Fraction.__float__ is correctly rounded


def read_signed_number(text, i, dialect):
    """[-] blank* number  -> (kind, exact value (int | Fraction), end) | None"""
    neg = False
    if i < len(text) and text[i] == '-':
        neg = True
        i = skip_blank(text, i + 1)
    r = read_number(text, i, dialect)
    if r is None:
        return None
    kind, v, end = r
    return kind, (-v if neg else v), end


def read_whole_number(text, dialect):
    r = read_signed_number(text, 0, dialect)
    if r is None or r[2] != len(text):
        return None
    return r


def same_number(observed, kind, exact):
    """Does the Python number `observed` carry the value the literal denotes?  int: exactly; decimal: nearest double."""
    if isinstance(observed, bool) or not isinstance(observed, (int, float)):
        return False
    if kind == 'int':
        return observed == exact
    want = nearest_double(exact)
    return observed == want


# ---------------------------------------------------------------------------------------------- variables

def read_variable(text, i, dialect):
    """-> (name, is_system, end) | None"""
    if dialect not in HAS_VARIABLES:
        return None
    n = len(text)
    if i >= n or text[i] != '@':
        return None
    j = i + 1
    system = False
    if j < n and text[j] == '@':
        system = True
        j += 1
    if j >= n:
        return None
    ch = text[j]
    if ch in '\'"`':
        if j + 1 >= n or text[j + 1] not in _VAR_CH:
            return None
        k = text.find(ch, j + 1)
        if k < 0:
            return None
        return text[j + 1:k], system, k + 1
    k = j
    while k < n and text[k] in _VAR_CH:
        k += 1
    if k == j:
        return None
    return text[j:k], system, k


def read_whole_variable(text, dialect):
    r = read_variable(text, 0, dialect)
    if r is None or r[2] != len(text):
        return None
    return r


def spell_variable(name, system=False):
    """Reference spelling or None when the token shape has none (first character / all three quotes used)."""
    if not name or name[0] not in _VAR_CH:
        return None
    at = '@@' if system else '@'
    if all(c in _VAR_CH for c in name):
        return at + name
    for q in '`\'"':
        if q not in name:
            return at + q + name + q
    return None


# ---------------------------------------------------------------------------------------------- identifier paths

STAR = ('star', '*')


def read_path(text, i, dialect):
    """Identifier path starting at i -> (parts, end) | None.

    parts = list of (kind, value, source) with kind in word | bq | dq | int | star.  For kind 'int' the value is the
    digit text as written.  The path ends before the first token that cannot continue it."""
    parts = []
    n = len(text)
    j = i
    first = True
    while True:
        got = None
        if j < n and text[j] == '`':
            r = read_backquoted(text, j)
            if r is None:
                return None
            got = ('bq', r[0], text[j:r[1]])
            j = r[1]
        elif j < n and text[j] == '"' and dialect in DQ_IDENT:
            d = read_quoted(text, j, dialect)
            if d is None:
                return None
            got = ('dq', d, text[j:d.end])
            j = d.end
        elif j < n and text[j] == '*' and not first:
            got = ('star', '*', '*')
            j += 1
        else:
            w = read_word(text, j)
            if w is not None:
                got = ('word', w[0], w[0])
                j = w[1]
            elif not first and dialect in INT_PART:
                r = read_number(text, j, dialect)
                if r is None or r[0] != 'int':
                    return None
                got = ('int', text[j:r[2]], text[j:r[2]])
                j = r[2]
            else:
                return None
        parts.append(got)
        first = False
        if got[0] == 'star':
            return parts, j
        k = skip_blank(text, j)
        if k < n and text[k] == '.':
            j = skip_blank(text, k + 1)
            continue
        return parts, j


def read_whole_path(text, dialect):
    r = read_path(text, 0, dialect)
    if r is None or r[1] != len(text):
        return None
    return r[0]


def part_admits(part, value):
    """Does the tree part `value` (str, or an object whose class is named Star) equal what `part` denotes?

    Open points: a dq part with an open escape admits every reading; an integer part admits the digits as written
    and the digits without leading zeros (the statement is silent on numeric parts)."""
    kind, v, _ = part
    if kind == 'star':
        return type(value).__name__ == 'Star'
    if not isinstance(value, str):
        return False
    if kind == 'dq':
        return v.admits(value)
    if kind == 'int':
        return value == v or value == str(int(v))
    return value == v


def part_value(part):
    """Canonical denoted value of a part (str; '*' for star)."""
    kind, v, _ = part
    if kind == 'dq':
        return v.canonical
    return v


def spell_part(value, dialect='mindsdb'):
    """Reference spelling of one identifier part, or None (empty / contains a back-quote: no spelling exists)."""
    if not value or '`' in value:
        return None
    w = read_word(value, 0)
    if w is not None and w[1] == len(value) and keyword_of(value, dialect) is None:
        return value
    return '`' + value + '`'


# ---------------------------------------------------------------------------------------------- keyword table

_KW = {}


def keyword_rules(dialect):
    """[(token name, compiled pattern)] of every lexer rule that is declared before ID and is not ID itself, read
    from the lexer class's rule table (declared shapes; the lexer is not run)."""
    if dialect not in _KW:
        from mindsdb_sql import get_lexer_parser
        lexer, _ = get_lexer_parser(dialect)
        rules = []
        for name, pat in type(lexer)._rules:
            if name == 'ID':
                break
            if not isinstance(pat, str):
                pat = getattr(pat, 'pattern', None)
                if isinstance(pat, (list, tuple)):
                    pat = '|'.join(f'(?:{p})' for p in pat)
            if name.startswith('ignore') or not isinstance(pat, str):
                continue
            rules.append((name, re.compile(pat, re.IGNORECASE)))
        _KW[dialect] = rules
    return _KW[dialect]


def keyword_of(word, dialect):
    """Name of the keyword token whose declared pattern matches the whole `word` (rules declared before ID win)."""
    for name, rx in keyword_rules(dialect):
        if rx.fullmatch(word):
            return name
    return None


def keyword_words(dialect):
    """Plain words spelled by the keyword patterns (\\bWORD\\b forms and the two-word / `[_|\\s]` compounds)."""
    out = []
    for name, rx in keyword_rules(dialect):
        p = rx.pattern
        m = re.fullmatch(r'\\b([A-Za-z_]+)\\b', p)
        if m:
            out.append((name, m.group(1)))
            continue
        m = re.fullmatch(r'\\b([A-Za-z]+)(?:\[_\|?\\s\]|\[\\s\]\+| )([A-Za-z]+)\\b', p)
        if m:
            for w in (m.group(1) + '_' + m.group(2), m.group(1) + ' ' + m.group(2)):
                if rx.fullmatch(w):
                    out.append((name, w))
    return out


# ---------------------------------------------------------------------------------------------- self-test

def selftest():
    d = read_whole_quoted("'a''b\\'c\\\\'", 'mindsdb')
    assert d.exact == "a'b'c\\", d.exact
    assert read_whole_quoted("'\\'", 'mindsdb') is None
    assert read_whole_quoted("'\\'", 'mysql').exact == '\\'
    assert read_whole_quoted("'a''b'", 'sqlite') is None
    assert read_whole_quoted("''''", 'mindsdb').exact == "'"
    o = read_whole_quoted("'x\\ny'", 'mindsdb')
    assert o.exact is None and o.admits('x\\ny') and o.admits('x\ny') and o.admits('xny') and not o.admits('xy')
    assert read_whole_quoted('"a\\"b\'"', 'mindsdb').exact == 'a"b\''
    assert read_whole_quoted('""', 'mysql').exact == ''
    assert read_whole_number('007', 'mysql')[:2] == ('int', 7)
    assert read_whole_number('1.', 'mindsdb') is None and read_whole_number('1.', 'sqlite')[0] == 'float'
    assert read_whole_number('- 1.50', 'mindsdb')[1] == Fraction(-3, 2)
    assert read_whole_number('1e5', 'mysql') is None and read_word('1e5', 0) == ('1e5', 3)
    assert same_number(0.1, 'float', Fraction('0.1')) and not same_number(0.1, 'float', Fraction('0.10000001'))
    assert not same_number(float(2 ** 53 + 1), 'int', 2 ** 53 + 1)
    assert read_whole_variable("@@'a b'", 'mysql') == ('a b', True, 7)
    assert read_whole_variable('@a1', 'mysql') is None and read_whole_variable('@a', 'sqlite') is None
    assert spell_variable('a b') == '@`a b`' and spell_variable('1a') is None
    p = read_whole_path('a . `b.c`."d.e".1.*', 'mindsdb')
    assert [part_value(x) for x in p] == ['a', 'b.c', 'd.e', '1', '*'], p
    assert read_whole_path('a.1', 'mysql') is None and read_whole_path('a.1.5', 'mindsdb') is None
    assert read_whole_path('1a.$x', 'sqlite') is not None and read_whole_path('a b', 'mysql') is None
    return True
