"""O-engine: sqlite3 as the reference SQL engine: databases from generated data, execution, order-aware comparison."""
import collections, sqlite3


def connect(tables, attach=None):
    """tables: {(db, table): (columns, rows)}; db None = main.  attach: iterable of database names to ATTACH."""
    c = sqlite3.connect(':memory:')
    for db in sorted(set(attach or ())):
        c.execute(f"ATTACH ':memory:' AS \"{db}\"")
    for (db, t), (cols, rows) in tables.items():
        q = f'"{db}"."{t}"' if db else f'"{t}"'
        c.execute(f"CREATE TABLE {q} ({', '.join(cols)})")
        if rows:
            c.executemany(f"INSERT INTO {q} VALUES ({', '.join('?' * len(cols))})", rows)
    c.commit()
    return c


def run(conn, sql):
    cur = conn.execute(sql)
    rows = cur.fetchall()
    names = [d[0] for d in cur.description] if cur.description else []
    return names, rows


def norm_row(r):
    """ints and integral floats compare equal (SQLite true/integer division aside, which is what we want to see)."""
    return tuple(r)


def multiset(rows):
    return collections.Counter(map(norm_row, rows))


def same_multiset(a, b):
    return multiset(a) == multiset(b)


def compare(a, b, ordered):
    """None when equivalent, else a short description."""
    if ordered:
        if [norm_row(r) for r in a] != [norm_row(r) for r in b]:
            if same_multiset(a, b):
                return f'same rows, different order: {a[:6]} vs {b[:6]}'
            return f'different rows: {a[:6]} vs {b[:6]}'
        return None
    if not same_multiset(a, b):
        return f'different rows (multiset): {sorted(a, key=repr)[:6]} vs {sorted(b, key=repr)[:6]}'
    return None


def dump_all(conn, tables):
    out = {}
    for (db, t) in tables:
        q = f'"{db}"."{t}"' if db else f'"{t}"'
        try:
            out[(db, t)] = multiset(conn.execute(f'SELECT * FROM {q}').fetchall())
        except sqlite3.Error as e:
            out[(db, t)] = 'ERR ' + str(e)
    return out
