"""O-resolve: independent resolver of table / model names against a catalog, and collectors of the table references
of a statement tree and of a plan (reflection only: nothing of mindsdb_sql.planner is called).

Reading of the property statement (C10):
  * a name is a *model* reference when, after removing a trailing all-digit part (the version; only when the name has
    more than one part), its last part is the name of a model and the part before it -- or, when there is none, the
    default namespace -- is, case-insensitively, the project that model belongs to;
  * otherwise it is a *data table*: when the name has more than one part and its first part is, case-insensitively,
    a known integration or project, the table lives there and the remaining parts are its name; otherwise it lives in
    the default namespace under its full name; without a default namespace it is unroutable.

`table_refs` / `ref_contexts` find the references of a tree by reflection (struct.walk: every object reachable
through any attribute, so no position can be missed), `observe` reads what a plan does, `selftest` pins the resolver.
"""
import collections

Catalog = collections.namedtuple('Catalog', 'integrations projects default models')
# integrations / projects: frozenset of lower-case names; default: lower-case name or None;
# models: frozenset of (project lower, model name lower)


def catalog(integrations, projects, default, models):
    return Catalog(frozenset(x.lower() for x in integrations),
                   frozenset(x.lower() for x in projects) | {'mindsdb'},
                   default.lower() if default else None,
                   frozenset((p.lower(), m.lower()) for p, m in models))


def resolve(parts, cat):
    """parts: list of str.  Returns ('model', project, name, version|None) | ('table', place, (parts...)) |
    ('unroutable', None, (parts...))."""
    parts = [str(p) for p in parts]
    body, version = parts, None
    if len(body) > 1 and body[-1].isdigit():
        body, version = body[:-1], body[-1]
    name = body[-1]
    ns = body[-2] if len(body) > 1 else cat.default
    if ns is not None and (ns.lower(), name.lower()) in cat.models and len(body) <= 2:
        return ('model', ns.lower(), (name,) if version is None else (name, version))
    if len(parts) > 1 and parts[0].lower() in (cat.integrations | cat.projects):
        return ('table', parts[0].lower(), tuple(parts[1:]))
    if cat.default is None:
        return ('unroutable', None, tuple(parts))
    return ('table', cat.default, tuple(parts))


# ---------------------------------------------------------------------------------------------------------------
# table references of a tree, by reflection
TABLE_FIELDS = {'Select': ('from_table',), 'Join': ('left', 'right'), 'Insert': ('table',), 'Update': ('table',),
                'Delete': ('table',), 'CreateTable': ('name',)}
TARGET_FIELDS = {('Insert', 'table'), ('Update', 'table'), ('Delete', 'table'), ('CreateTable', 'name')}


def cte_names(tree):
    from vf.oracles.struct import walk
    out = set()
    for n in walk(tree):
        if type(n).__name__ == 'CommonTableExpression':
            out.add(str(n.name.parts[-1]))
    return out


def table_refs(tree):
    """[(Identifier, role, slot)] for every identifier standing in a table position anywhere in the object graph
    (role 'read' | 'target', slot = 'Class.field' of the holder); names of common table expressions defined in the
    tree are not tables."""
    from vf.oracles.struct import walk
    ctes = cte_names(tree)
    # inside its own (non-recursive) definition a CTE's name is not visible: `WITH t AS (SELECT * FROM t)` reads the table t
    own = set()
    for c in walk(tree):
        if type(c).__name__ == 'CommonTableExpression':
            nm = str(c.name.parts[-1])
            for m in walk(c.query):
                for f in TABLE_FIELDS.get(type(m).__name__, ()):
                    v = getattr(m, f, None)
                    if type(v).__name__ == 'Identifier' and len(v.parts) == 1 and str(v.parts[0]) == nm:
                        own.add(id(v))
    out = []
    for n in walk(tree):
        cn = type(n).__name__
        for f in TABLE_FIELDS.get(cn, ()):
            v = getattr(n, f, None)
            if type(v).__name__ != 'Identifier':
                continue
            if len(v.parts) == 1 and str(v.parts[0]) in ctes and id(v) not in own:
                continue
            out.append((v, 'target' if (cn, f) in TARGET_FIELDS else 'read', f'{cn}.{f}'))
    return out


def ref_contexts(tree):
    """{id(table identifier): [(Select, field)] from the outermost to the innermost enclosing Select, field = the
    attribute of that Select under which the identifier sits} -- by reflection"""
    from vf.oracles.struct import _is_node
    out, seen = {}, set()

    def go(o, chain):
        if isinstance(o, (list, tuple, set, frozenset)):
            for x in o:
                go(x, chain)
        elif isinstance(o, dict):
            for k, v in o.items():
                go(k, chain)
                go(v, chain)
        elif _is_node(o):
            if id(o) in seen:
                return
            seen.add(id(o))
            cn = type(o).__name__
            if cn == 'Identifier':
                out[id(o)] = list(chain)
            for k, v in vars(o).items():
                go(v, chain + [(o, k)] if cn == 'Select' else chain)
    go(tree, [])
    return out


def alias_of(ident):
    a = getattr(ident, 'alias', None)
    return str(a.parts[-1]) if a is not None and getattr(a, 'parts', None) else None


def identifiers(tree):
    """the Identifier nodes that belong to the statement: reflection over public attributes only (a private
    back-pointer such as `_orig_node`, which the join planner leaves on a copied condition, is not part of the query)"""
    from vf.oracles.struct import _is_node
    out, seen = [], set()

    def go(o):
        if id(o) in seen:
            return
        if isinstance(o, (list, tuple, set, frozenset)):
            seen.add(id(o))
            for x in o:
                go(x)
        elif isinstance(o, dict):
            seen.add(id(o))
            for k, v in o.items():
                go(k)
                go(v)
        elif _is_node(o):
            seen.add(id(o))
            if type(o).__name__ == 'Identifier':
                out.append(o)
            for k, v in vars(o).items():
                if not k.startswith('_'):
                    go(v)
    go(tree)
    return out


def expected_routes(tree, cat):
    """(reads, targets): sets of resolve() results for the table references of the original statement."""
    reads, targets = set(), set()
    for ident, role, _ in table_refs(tree):
        r = resolve(ident.parts, cat)
        (targets if role == 'target' else reads).add(r)
    return reads, targets


# ---------------------------------------------------------------------------------------------------------------
# what a plan does
FETCH = ('FetchDataframeStep',)
APPLY = ('ApplyPredictorStep', 'ApplyTimeseriesPredictorStep', 'ApplyPredictorRowStep', 'GetPredictorColumns')
DML = ('InsertToTable', 'UpdateToTable', 'DeleteStep', 'SaveToTable', 'CreateTableStep')
CONTAINERS = {'MapReduceStep': 'step', 'MultipleSteps': 'steps'}


def all_steps(steps):
    """every step of a plan, recursively through container steps, in order"""
    out = []
    for s in steps:
        out.append(s)
        f = CONTAINERS.get(type(s).__name__)
        if f:
            sub = getattr(s, f)
            out.extend(all_steps(sub if isinstance(sub, (list, tuple)) else [sub]))
    return out


Read = collections.namedtuple('Read', 'place parts step under_cte')
Observed = collections.namedtuple('Observed', 'reads targets models strays kept foreign')


def _ids_under_cte(q):
    from vf.oracles.struct import walk
    out = set()
    for n in walk(q):
        if type(n).__name__ == 'CommonTableExpression':
            out |= {id(x) for x in walk(n.query)}
    return out


def observe(plan_steps, cat):
    """reads: [Read] one per table mention in a fetch query (and in the WHERE of a delete, which runs on the
    integration of its table); targets: resolve() of the table of every DML step; models: {('model', namespace lower,
    parts)} of apply steps; strays: [(step class, parts, alias)] tables mentioned in queries that run on dataframes
    (definitions of common table expressions that such a query still carries are not counted: they are dead text
    there); kept: [(step no, parts, under a CTE definition)] identifiers of a fetch query that still start with the integration's name;
    foreign: [(step no, parts, under a CTE definition)] column identifiers of a fetch query that start with another known database."""
    reads, targets, models, strays, kept, foreign = [], set(), set(), [], [], []
    known = cat.integrations | cat.projects
    for s in all_steps(plan_steps):
        cn = type(s).__name__
        if cn in FETCH or cn == 'DeleteStep':
            if cn in FETCH:
                place, q = str(s.integration).lower(), s.query
            else:
                r = resolve(s.table.parts, cat)
                targets.add(r)
                place, q = r[1], s.where
            if q is None:
                continue
            tabs = table_refs(q)
            tab_ids = {id(t) for t, _, _ in tabs}
            under = _ids_under_cte(q)
            for t, _, _ in tabs:
                reads.append(Read(place, tuple(str(p) for p in t.parts), s.step_num, id(t) in under))
            for i in identifiers(q):
                if len(i.parts) > 1 and isinstance(i.parts[0], str):
                    if i.parts[0].lower() == place:
                        kept.append((s.step_num, tuple(str(p) for p in i.parts), id(i) in under))
                    elif i.parts[0].lower() in known and id(i) not in tab_ids:
                        foreign.append((s.step_num, tuple(str(p) for p in i.parts), id(i) in under))
        elif cn in APPLY:
            models.add(('model', str(s.namespace).lower(), tuple(str(p) for p in s.predictor.parts)))
        elif cn in DML:
            targets.add(resolve(s.table.parts, cat))
        elif cn in CONTAINERS:
            pass
        else:
            for f, v in vars(s).items():
                if f in ('dataframe', 'left', 'right', 'values', 'from_table', 'step_num'):
                    continue
                if cn == 'JoinStep' and f == 'query':
                    v = getattr(v, 'condition', None)     # its left / right are placeholders for the two results
                under = _ids_under_cte(v)
                for t, _, _ in table_refs(v):
                    if id(t) not in under:
                        strays.append((cn, tuple(str(p) for p in t.parts), alias_of(t)))
    return Observed(reads, targets, models, strays, kept, foreign)


def selftest():
    """unit self-test of the resolver on hand-written expectations (raises AssertionError)"""
    c = catalog(['int1', 'INT2'], ['proj'], 'mindsdb', [('proj', 'pred'), ('mindsdb', 'pred2')])
    n = catalog(['int1'], [], None, [('proj', 'pred')])
    d = catalog(['int1'], ['proj'], 'proj', [('proj', 'pred')])
    for parts, cat, want in [
        (['int1', 't'], c, ('table', 'int1', ('t',))),
        (['INT1', 't'], c, ('table', 'int1', ('t',))),
        (['Int2', 'sch', 't'], c, ('table', 'int2', ('sch', 't'))),
        (['t'], c, ('table', 'mindsdb', ('t',))),
        (['zzz', 't'], c, ('table', 'mindsdb', ('zzz', 't'))),
        (['int1'], c, ('table', 'mindsdb', ('int1',))),
        (['MindsDB', 'v'], c, ('table', 'mindsdb', ('v',))),
        (['proj', 'v'], c, ('table', 'proj', ('v',))),
        (['PROJ', 'pred'], c, ('model', 'proj', ('pred',))),
        (['proj', 'pred', '3'], c, ('model', 'proj', ('pred', '3'))),
        (['pred'], c, ('table', 'mindsdb', ('pred',))),
        (['pred2', '12'], c, ('model', 'mindsdb', ('pred2', '12'))),
        (['int1', 'pred'], c, ('table', 'int1', ('pred',))),
        (['int1', 'pred', '3'], c, ('table', 'int1', ('pred', '3'))),
        (['pred'], d, ('model', 'proj', ('pred',))),
        (['pred', '7'], d, ('model', 'proj', ('pred', '7'))),
        (['t'], n, ('unroutable', None, ('t',))),
        (['int1', 't'], n, ('table', 'int1', ('t',))),
        (['mindsdb', 't'], n, ('table', 'mindsdb', ('t',))),
    ]:
        got = resolve(parts, cat)
        assert got == want, (parts, got, want)
