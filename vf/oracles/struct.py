"""O-struct: structural identity of trees / plans by reflection (independent of to_tree / __eq__ / to_string)."""
import datetime, decimal


def _is_node(o):
    mod = type(o).__module__ or ''
    return hasattr(o, '__dict__') and (mod.startswith('mindsdb_sql') or mod.startswith('sly'))


def struct(o, _depth=0):
    """Canonical nested-tuple image of an object graph. 1, 1.0 and True are kept apart."""
    if _depth > 400:
        return ('deep',)
    if o is None or isinstance(o, (bool, int, str, bytes)):
        return (type(o).__name__, o)
    if isinstance(o, float):
        return ('float', repr(o))
    if isinstance(o, (list, tuple)):
        return (type(o).__name__,) + tuple(struct(x, _depth + 1) for x in o)
    if isinstance(o, dict):
        items = [(struct(k, _depth + 1), struct(v, _depth + 1)) for k, v in o.items()]
        items.sort(key=repr)
        return ('dict',) + tuple(items)
    if isinstance(o, (set, frozenset)):
        return (type(o).__name__,) + tuple(sorted((struct(x, _depth + 1) for x in o), key=repr))
    if _is_node(o):
        fields = tuple((k, struct(v, _depth + 1)) for k, v in sorted(vars(o).items()))
        return ('node', type(o).__name__) + fields
    if isinstance(o, (datetime.date, datetime.datetime, datetime.time, decimal.Decimal)):
        return ('obj', type(o).__name__, repr(o))
    if isinstance(o, type):
        return ('type', o.__name__)
    return ('obj', type(o).__name__, repr(o))


def diff(a, b, path='$'):
    """First difference between two struct() images as (path, a_part, b_part) or None."""
    if a == b:
        return None
    if not isinstance(a, tuple) or not isinstance(b, tuple) or not a or not b:
        return (path, a, b)
    if a[0] != b[0]:
        return (path, _short(a), _short(b))
    tag = a[0]
    if tag == 'node':
        if a[1] != b[1]:
            return (path, ('node', a[1]), ('node', b[1]))
        fa, fb = dict(a[2:]), dict(b[2:])
        for k in sorted(set(fa) | set(fb)):
            if k not in fa or k not in fb:
                return (f'{path}<{a[1]}>.{k}', _short(fa.get(k, 'MISSING')), _short(fb.get(k, 'MISSING')))
            d = diff(fa[k], fb[k], f'{path}<{a[1]}>.{k}')
            if d:
                return d
        return (path, _short(a), _short(b))
    if tag in ('list', 'tuple', 'dict', 'set', 'frozenset'):
        if len(a) != len(b):
            return (path + '.len', len(a) - 1, len(b) - 1)
        for i, (x, y) in enumerate(zip(a[1:], b[1:])):
            d = diff(x, y, f'{path}[{i}]')
            if d:
                return d
    return (path, _short(a), _short(b))


def _short(x, n=160):
    s = repr(x)
    return s if len(s) <= n else s[:n] + '…'


def node_classes(o, acc=None, _seen=None):
    """Set of class names of library objects reachable from o."""
    if acc is None:
        acc, _seen = set(), set()
    if id(o) in _seen:
        return acc
    if isinstance(o, (list, tuple, set, frozenset)):
        _seen.add(id(o))
        for x in o:
            node_classes(x, acc, _seen)
    elif isinstance(o, dict):
        _seen.add(id(o))
        for k, v in o.items():
            node_classes(k, acc, _seen); node_classes(v, acc, _seen)
    elif _is_node(o):
        _seen.add(id(o))
        acc.add(type(o).__name__)
        for v in vars(o).values():
            node_classes(v, acc, _seen)
    return acc


def walk(o, _seen=None):
    """Yield every library object reachable from o (pre-order, attribute-name order), once by identity."""
    if _seen is None:
        _seen = set()
    if id(o) in _seen:
        return
    if isinstance(o, (list, tuple, set, frozenset)):
        _seen.add(id(o))
        for x in o:
            yield from walk(x, _seen)
    elif isinstance(o, dict):
        _seen.add(id(o))
        for k, v in o.items():
            yield from walk(k, _seen)
            yield from walk(v, _seen)
    elif _is_node(o):
        _seen.add(id(o))
        yield o
        for k, v in vars(o).items():
            yield from walk(v, _seen)


def mutable_ids(o, acc=None):
    """id -> object for every mutable object (nodes, lists, dicts, sets) reachable from o."""
    if acc is None:
        acc = {}
    if id(o) in acc:
        return acc
    if isinstance(o, (list, set)):
        acc[id(o)] = o
        for x in o:
            mutable_ids(x, acc)
    elif isinstance(o, (tuple, frozenset)):
        for x in o:
            mutable_ids(x, acc)
    elif isinstance(o, dict):
        acc[id(o)] = o
        for k, v in o.items():
            mutable_ids(k, acc); mutable_ids(v, acc)
    elif _is_node(o):
        acc[id(o)] = o
        for v in vars(o).values():
            mutable_ids(v, acc)
    return acc
