"""O-c05-scan: which characters of a statement text may lie outside / between the words of its tokens.

Independent of the lexers' behaviour: the token spans are *given* (observed from the lexer under test), this module
says whether they account for every character of the text.  It is a left-to-right reader, never a backtracking regular
expression (a backtracking `(?:/\\*[\\s\\S]*?\\*/)*` under fullmatch lets one comment run over `*/ junk /*`).

  between tokens   blanks ' \\t\\r\\n', `-- ...` up to the end of the line (or of the text), `/* ... */` closed by the
                   FIRST `*/`.  An unterminated `/*` is not a comment.
  inside a token   quoted shapes ('..', "..", `..`, @'..' ...) hold anything.  Every other token is either one run of
                   word characters, or one run of operator characters, or -- the two-word keywords (IS NOT, GROUP BY,
                   KNOWLEDGE BASE ...) -- word runs separated by blanks / comments (any character of Python's \\s class
                   counts as a blank there: parse_sql itself strips that class at the end of the text) or one `_`;
                   the words, upper-cased and joined, must spell the token's name.
  spans            start < end, no overlap, inside the text, in text order.
"""

BLANK = frozenset(' \t\r\n')
WORD = frozenset('abcdefghijklmnopqrstuvwxyzABCDEFGHIJKLMNOPQRSTUVWXYZ_$0123456789')
QUOTED_TYPES = frozenset(['QUOTE_STRING', 'DQUOTE_STRING', 'VARIABLE', 'SYSTEM_VARIABLE'])
VALUE_TYPES = frozenset(['ID', 'INTEGER', 'FLOAT'])


def skip(text, i, end=None, wide=False):
    """Index after the blanks and complete comments that start at i (not beyond `end`)."""
    n = len(text) if end is None else end
    while i < n:
        ch = text[i]
        if ch in BLANK or (wide and ch.isspace()):
            i += 1
        elif text.startswith('/*', i):
            k = text.find('*/', i + 2, n)
            if k < 0:
                return i
            i = k + 2
        elif text.startswith('--', i):
            k = text.find('\n', i, n)
            i = n if k < 0 else k
        else:
            break
    return i


def token_problem(ty, src):
    """None when `src` is a complete spelling of one token that hides no other text, else a description."""
    if not src:
        return 'empty token'
    if ty in QUOTED_TYPES or src[0] in '\'"`@':
        return None
    if ty in VALUE_TYPES:
        # a plain word or a number: one run of word characters (FLOAT: with one dot)
        body = src.replace('.', '', 1) if ty == 'FLOAT' else src
        if all(c in WORD for c in body):
            return None
        return f'characters other than word characters inside a {ty} token'
    if not any(c in WORD for c in src):
        # operator / punctuation token: no blank, no comment inside
        if any(c.isspace() for c in src) or '/*' in src or (src.startswith('--')):
            return 'blank or comment inside an operator token'
        return None
    # keyword token: words separated by blanks / comments / one underscore
    words, i, n = [], 0, len(src)
    while i < n:
        j = i
        while j < n and src[j] in WORD:
            j += 1
        if j == i:
            return f'character {src[i]!r} between the words of a keyword token is neither blank nor comment'
        words.append(src[i:j].upper())
        i = skip(src, j, wide=True)
        if i == j and i < n:
            return f'character {src[i]!r} between the words of a keyword token is neither blank nor comment'
    spelled = ' '.join(words).replace('_', ' ')
    if len(words) > 1 and spelled != ty.replace('_', ' '):
        return f'words {words} do not spell the token name'
    return None


def account(text, spans):
    """spans: [(type, source, start, end)] as observed.  -> list of (where, description); empty = every character of
    the text is a blank, part of a complete comment, or part of exactly one token that hides nothing."""
    out = []
    pos = 0
    for k, (ty, src, i, e) in enumerate(spans):
        if not (0 <= i < e <= len(text)):
            out.append(('span', f'token {k} {ty} has the span [{i}:{e}] in a text of {len(text)} characters'))
            break
        if i < pos:
            out.append(('span', f'token {k} {ty} [{i}:{e}] starts before the end {pos} of the token before it'))
            break
        j = skip(text, pos, i)
        if j != i:
            out.append(('gap', f'{text[j:i]!r} before token {k} {ty} {src!r} at {i} is dropped'))
            break
        why = token_problem(ty, text[i:e])
        if why:
            out.append(('token:' + ty, f'{why}: {text[i:e]!r}'))
            break
        pos = e
    else:
        j = skip(text, pos)
        if j != len(text):
            out.append(('tail', f'{text[j:]!r} after the last token is dropped'))
    return out


def selftest():
    assert skip('/* a */ x /* b */', 0) == 8
    assert skip('-- c', 0) == 4 and skip('--c\nx', 0) == 4 and skip('/* x', 0) == 0
    assert token_problem('IS_NOT', 'is /* c */ -- d\n\tNoT') is None
    assert token_problem('KNOWLEDGE_BASE', 'knowledge_base') is None
    assert token_problem('KNOWLEDGE_BASE', 'knowledge base') is None
    assert token_problem('KNOWLEDGE_BASE', 'knowledge|base')
    assert token_problem('IS_NOT', 'is x not')
    assert token_problem('IS_NOT', 'is # not')
    assert token_problem('JSON_GET', '->') is None and token_problem('ID', '`a b`') is None
    assert token_problem('FLOAT', '1.5') is None and token_problem('ID', 'a b')
    assert account('a /* x */ b', [('ID', 'a', 0, 1), ('ID', 'b', 10, 11)]) == []
    assert account('a /* x */ y /* z */ b', [('ID', 'a', 0, 1), ('ID', 'b', 20, 21)])
    assert account('a b', [('ID', 'a', 0, 1)]) and account('ab', [('ID', 'ab', 0, 2), ('ID', 'b', 1, 2)])


if __name__ == '__main__':
    selftest()
    print('ok')
