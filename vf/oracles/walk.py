"""O-walk: reference traversal of a statement tree in textual order (independent of planner.utils.query_traversal).

Per node class an explicit list of child fields in the order in which the fields appear in the statement text (the
canonical print of the tree: WITH, select list, FROM, WHERE, GROUP BY, HAVING, ORDER BY; left JOIN right ON cond;
CASE arg WHEN..THEN.. ELSE; f(args FROM from_arg) OVER (PARTITION BY .. ORDER BY ..); INSERT INTO t VALUES rows | select;
UPDATE t [ON keys] SET values FROM (select) WHERE; DELETE FROM t WHERE; CREATE TABLE t select).

`ref_walk(root)` yields the *required* visits: every table reference, expression node and nested query, as `Entry`
(node, role, slot, parent) where role in {query, table, target, expr}; role 'table' = FROM/JOIN operand or the
target table of INSERT/UPDATE/DELETE/CREATE TABLE, role 'target' = direct select-list item.  Wrapper objects
(`OrderBy`, `CommonTableExpression`) are not entries: visiting them is neither required nor forbidden, and so are
the nodes in *open* fields (aliases, LIMIT/OFFSET constants, USING values, column definitions, CTE names, Star
inside Identifier.parts, NativeQuery.integration); `open_nodes()` lists those by reflection.

`deviations` re-orders the walk by named, individually switchable deviations from the textual order (used by C13
to keep the order clause sensitive while some order defects are listed as known findings):
  select:from-first         Select.from_table is visited immediately before the select list
  select:cte-after-from     CTE bodies are visited after the select list and FROM (just before WHERE)
  join:right-first          Join.right before Join.left
  update:where-before-set   Update.where before the SET values (and FROM select)
"""
import collections

Entry = collections.namedtuple('Entry', 'node role slot parent')   # parent = index of the parent entry, -1 for root

DEVIATIONS = ('select:from-first', 'select:cte-after-from', 'join:right-first', 'update:where-before-set')

LEAF_CLASSES = ('Identifier', 'Constant', 'NullConstant', 'Star', 'Parameter', 'Variable', 'Latest', 'Last',
                'NativeQuery', 'Data', 'Interval', 'Object')
KNOWN_INNER = ('Select', 'Union', 'Intersect', 'Except', 'Join', 'Function', 'BinaryOperation', 'UnaryOperation',
               'BetweenOperation', 'Exists', 'NotExists', 'WindowFunction', 'TypeCast', 'Tuple', 'Case', 'Insert',
               'Update', 'Delete', 'CreateTable')


def ref_walk(root, deviations=()):
    """Required visits in (possibly deviated) textual order: list[Entry]."""
    from mindsdb_sql.parser import ast as A
    from mindsdb_sql.parser.ast.base import ASTNode
    dev = frozenset(deviations)
    out = []

    def many(nodes, role, slot, parent):
        for n in (nodes or ()):
            go(n, role, slot, parent)

    def order_fields(items, slot, parent):
        for o in (items or ()):
            if isinstance(o, A.OrderBy):
                go(o.field, 'expr', slot, parent)
            else:                      # not a wrapper: the item itself is the expression
                go(o, 'expr', slot, parent)

    def go(node, role, slot, parent):
        if node is None or not isinstance(node, ASTNode):
            return
        me = len(out)
        out.append(Entry(node, role, slot, parent))
        cn = type(node).__name__
        if isinstance(node, A.Select):
            def cte():
                for c in (node.cte or ()):
                    if isinstance(c, A.CommonTableExpression):
                        go(c.query, 'query', 'Select.cte.query', me)
                    else:
                        go(c, 'query', 'Select.cte', me)

            def targets():
                many(node.targets, 'target', 'Select.targets', me)

            def from_():
                go(node.from_table, 'table', 'Select.from_table', me)
            head = [cte, targets, from_]
            if 'select:from-first' in dev:
                head = [cte, from_, targets]
            if 'select:cte-after-from' in dev:
                head.remove(cte)
                head.append(cte)
            for f in head:
                f()
            go(node.where, 'expr', 'Select.where', me)
            many(node.group_by, 'expr', 'Select.group_by', me)
            go(node.having, 'expr', 'Select.having', me)
            order_fields(node.order_by, 'Select.order_by.field', me)
        elif isinstance(node, (A.Union, A.Intersect, A.Except)):
            # WITH ... ( select UNION select ): the parser keeps the CTE list on the set operation
            for c in (getattr(node, 'cte', None) or ()):
                go(c.query, 'query', 'Union.cte.query', me)
            go(node.left, 'query', 'Union.left', me)
            go(node.right, 'query', 'Union.right', me)
        elif isinstance(node, A.Join):
            if 'join:right-first' in dev:
                go(node.right, 'table', 'Join.right', me)
                go(node.left, 'table', 'Join.left', me)
            else:
                go(node.left, 'table', 'Join.left', me)
                go(node.right, 'table', 'Join.right', me)
            go(node.condition, 'expr', 'Join.condition', me)
        elif isinstance(node, A.Interval):
            pass
        elif isinstance(node, A.Function):
            many(node.args, 'expr', 'Function.args', me)
            go(node.from_arg, 'expr', 'Function.from_arg', me)
        elif isinstance(node, A.Operation):     # Binary / Unary / Between / Exists / NotExists / plain
            many(node.args, 'expr', cn + '.args', me)
        elif isinstance(node, A.WindowFunction):
            go(node.function, 'expr', 'WindowFunction.function', me)
            many(node.partition, 'expr', 'WindowFunction.partition', me)
            order_fields(node.order_by, 'WindowFunction.order_by.field', me)
        elif isinstance(node, A.TypeCast):
            go(node.arg, 'expr', 'TypeCast.arg', me)
        elif isinstance(node, A.Tuple):
            many(node.items, 'expr', 'Tuple.items', me)
        elif isinstance(node, A.Case):
            go(node.arg, 'expr', 'Case.arg', me)
            for rule in (node.rules or ()):
                go(rule[0], 'expr', 'Case.rules.when', me)
                go(rule[1], 'expr', 'Case.rules.then', me)
            go(node.default, 'expr', 'Case.default', me)
        elif isinstance(node, A.Insert):
            go(node.table, 'table', 'Insert.table', me)
            for row in (node.values or ()):
                many(row, 'expr', 'Insert.values', me)
            go(node.from_select, 'query', 'Insert.from_select', me)
        elif isinstance(node, A.Update):
            go(node.table, 'table', 'Update.table', me)
            many(node.keys, 'expr', 'Update.keys', me)

            def sets():
                for k, v in (node.update_columns or {}).items():
                    go(v, 'expr', 'Update.update_columns', me)
                go(node.from_select, 'query', 'Update.from_select', me)
            if 'update:where-before-set' in dev:
                go(node.where, 'expr', 'Update.where', me)
                sets()
            else:
                sets()
                go(node.where, 'expr', 'Update.where', me)
        elif isinstance(node, A.Delete):
            go(node.table, 'table', 'Delete.table', me)
            go(node.where, 'expr', 'Delete.where', me)
        elif isinstance(node, A.CreateTable):
            go(node.name, 'table', 'CreateTable.name', me)
            go(node.from_select, 'query', 'CreateTable.from_select', me)
        # every other class is a leaf for the walk (see LEAF_CLASSES; unknown classes are reported by open_nodes)

    go(root, 'query', 'root', -1)
    return out


def reach(root):
    """Reflection walk: every library object reachable from root as (obj, slot) with slot = 'ParentClass.field',
    once by identity, in attribute order."""
    from vf.oracles.struct import _is_node
    seen = set()
    out = []

    def go(o, slot):
        if isinstance(o, (list, tuple, set, frozenset)):
            for x in o:
                go(x, slot)
        elif isinstance(o, dict):
            for k, v in o.items():
                go(k, slot)
                go(v, slot)
        elif _is_node(o):
            if id(o) in seen:
                return
            seen.add(id(o))
            out.append((o, slot))
            for k, v in vars(o).items():
                go(v, type(o).__name__ + '.' + k)
    go(root, 'root')
    return out


def open_nodes(root, required_ids):
    """ASTNodes reachable from root that the reference neither requires nor forbids: list of (node, slot)."""
    from mindsdb_sql.parser.ast.base import ASTNode
    return [(o, s) for o, s in reach(root) if isinstance(o, ASTNode) and id(o) not in required_ids]


def replace_everywhere(root, target, new):
    """Independent 'replace exactly this node': every reference to `target` (by identity) inside the object graph of
    `root` is redirected to `new`; nothing else is touched.  Returns the new root (== new when target is root)."""
    from vf.oracles.struct import _is_node
    if root is target:
        return new
    seen = set()

    def fix(o):
        if id(o) in seen:
            return
        if isinstance(o, list):
            seen.add(id(o))
            for i, x in enumerate(o):
                if x is target:
                    o[i] = new
                else:
                    fix(x)
        elif isinstance(o, dict):
            seen.add(id(o))
            for k in list(o):
                if o[k] is target:
                    o[k] = new
                else:
                    fix(o[k])
        elif isinstance(o, tuple):
            for x in o:
                fix(x)             # tuples holding the target are handled by the owner (see below)
        elif _is_node(o):
            seen.add(id(o))
            for k, v in list(vars(o).items()):
                if v is target:
                    setattr(o, k, new)
                elif isinstance(v, tuple) and any(x is target for x in v):
                    setattr(o, k, tuple(new if x is target else x for x in v))
                    for x in v:
                        if x is not target:
                            fix(x)
                else:
                    fix(v)
    fix(root)
    return root


def clone(o, _memo=None):
    """Reflection clone of an object graph (does not use the library's __copy__/__deepcopy__); sharing preserved."""
    from vf.oracles.struct import _is_node
    if _memo is None:
        _memo = {}
    if id(o) in _memo:
        return _memo[id(o)]
    if isinstance(o, list):
        new = []
        _memo[id(o)] = new
        new.extend(clone(x, _memo) for x in o)
        return new
    if isinstance(o, tuple):
        return tuple(clone(x, _memo) for x in o)
    if isinstance(o, dict):
        new = {}
        _memo[id(o)] = new
        for k, v in o.items():
            new[clone(k, _memo)] = clone(v, _memo)
        return new
    if isinstance(o, (set, frozenset)):
        return type(o)(clone(x, _memo) for x in o)
    if _is_node(o):
        new = object.__new__(type(o))
        _memo[id(o)] = new
        for k, v in vars(o).items():
            new.__dict__[k] = clone(v, _memo)
        return new
    return o


def sdiff(a, b, path='$'):
    """struct.diff that also descends into dict values (struct images of dicts are (key image, value image) pairs)."""
    from vf.oracles.struct import diff, _short
    if a == b:
        return None
    if isinstance(a, tuple) and isinstance(b, tuple) and a and b and a[0] == b[0]:
        tag = a[0]
        if tag == 'dict' and len(a) == len(b):
            for x, y in zip(a[1:], b[1:]):
                if x != y:
                    if x[0] == y[0]:
                        return sdiff(x[1], y[1], f'{path}{{{x[0][1]!r}}}')
                    return (path, _short(x), _short(y))
        if tag == 'node' and a[1] == b[1]:
            fa, fb = dict(a[2:]), dict(b[2:])
            if set(fa) == set(fb):
                for k in sorted(fa):
                    if fa[k] != fb[k]:
                        return sdiff(fa[k], fb[k], f'{path}<{a[1]}>.{k}')
        if tag in ('list', 'tuple') and len(a) == len(b):
            for i, (x, y) in enumerate(zip(a[1:], b[1:])):
                if x != y:
                    return sdiff(x, y, f'{path}[{i}]')
    return diff(a, b, path)
