"""Two rules of Transact-SQL character-string constants that vf/oracles/targetlex.py does not model (C07 only).

1. Line continuation: inside a string constant a backslash immediately followed by a line break (LF or CR LF) continues
   the constant on the next line: the backslash and the line break are both dropped ('abc\\<newline>def' denotes abcdef;
   Microsoft: "\\ (Backslash) (Transact-SQL)", KB "a backslash followed by a carriage return line feed is removed").
   A backslash in front of anything else is an ordinary character, so  \\ \\ <newline> <newline>  denotes \\ <newline>.
2. A constant without the N prefix is a varchar constant: it is converted to the code page of the database's default
   collation and characters outside that code page are lost; only N'...' denotes Unicode text whatever the collation
   (Microsoft: "Constants (Transact-SQL)"). The part every code page shares is ASCII, so a constant without N denotes
   its value for certain only when the value is ASCII (SQLAlchemy itself switches to N'...' on the same test).
"""
import re

_CONT = re.compile(r'\\(?:\r\n|\n)')


def drop_continuations(text):
    """The characters a T-SQL constant denotes, given the characters between its quotes ('' already undoubled)."""
    return _CONT.sub('', text)


def has_continuation(value):
    return _CONT.search(value) is not None


def denoted(tok):
    """tok = targetlex 'str' token of the mssql target -> (denoted text, has N prefix)."""
    v = tok.value
    return (drop_continuations(v) if isinstance(v, str) else v), tok.extra == 'n'


def spell(value):
    """Reference spelling: one constant that denotes `value` under both rules."""
    s = value.replace("'", "''")
    s = _CONT.sub(lambda m: '\\' + m.group(0) + m.group(0)[1:], s)
    return ('' if value.isascii() else 'N') + "'" + s + "'"


def selftest():
    from vf.oracles import targetlex
    for v in ['a', "a'b", 'a\\\nb', 'a\\\r\nb', '\\\n', '\\\\\n', 'a\\b', '\\', 'é中', '\\\n\\\n', 'a\\\rb']:
        t = targetlex.tokens(spell(v), 'mssql')
        assert len(t) == 1 and t[0].kind == 'str', (v, t)
        got, nat = denoted(t[0])
        assert got == v and nat == (not v.isascii()), (v, got, nat)
    t = targetlex.tokens("'abc\\\ndef'", 'mssql')[0]
    assert denoted(t) == ('abcdef', False)
