"""C08 helper: the reference interpreter of plan steps (vf.oracles.planexec) with a strict reading of qualified
column names in the steps that work on a *joined* result.

planexec.Interp.resolve falls back to the bare column name when the qualifier of `q.col` is the label of no column
of the relation.  That is right for a step over one frame (SubSelectStep: the executor addresses the single
dataframe whatever the qualifier says) but not for JoinStep / QueryStep: their frames are told apart by nothing
but the name each result was given (fetch: alias or table name; SubSelectStep: table_name - the planner's own tests
pin table_name = the name under which later steps address the result, e.g. the alias of a joined sub-select), so
a qualifier that is the name of no frame denotes nothing and the step cannot be carried out.
"""
from vf.oracles import planexec


class UnknownQualifier(planexec.InterpError):
    def __init__(self, step, qualifier, labels):
        super().__init__(f'step {step}: column qualifier {qualifier!r} is the name of no frame of the joined result '
                         f'(frames: {sorted(labels)})')
        self.qualifier = qualifier
        self.labels = sorted(labels)


class StrictInterp(planexec.Interp):
    def __init__(self, fetch_conn):
        super().__init__(fetch_conn)
        self._joined = None        # step_num of the JoinStep / QueryStep that is being carried out

    def resolve(self, rel, ident):
        if self._joined is not None and len(ident.parts) > 1:
            qual = str(ident.parts[-2]).lower()
            labels = {(lab or '').lower() for lab, _ in rel.cols}
            if qual not in labels:
                raise UnknownQualifier(self._joined, qual, labels)
        return super().resolve(rel, ident)

    def step(self, s):
        self._joined = s.step_num if type(s).__name__ in ('JoinStep', 'QueryStep') else None
        try:
            return super().step(s)
        finally:
            self._joined = None
