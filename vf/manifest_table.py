"""What MANIFEST.json claims, per property (bin/mkmanifest turns this into MANIFEST.json)."""
HOOK_COMMITS = []
NOT_BUILT = {}
CHECKS = {
    'C05': {
        'technique': 'property-based differential testing: generated token sequences (grammar derivations, token '
                     'mutations, garbage prefix/suffix, concatenations) judged by an independent Earley recogniser '
                     'built from the live grammar, plus a token-span tiling invariant',
        'level': 'Sampled search over an infinite input language with an exact oracle for the soundness direction '
                 '(accepted => one sentence of the bare grammar, no character skipped). Not a proof; the class of '
                 'non-sentences with a valid statement as suffix (error-recovery resynchronisation) is forced to be '
                 'well populated.',
        'note': 'Trusts the Earley recogniser (80 lines, self-tested) and that Parser._grammar.Productions is the '
                'grammar; lexer acceptance is taken as given apart from the tiling clause.',
    },
}
