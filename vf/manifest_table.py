"""What MANIFEST.json claims, per property (bin/mkmanifest turns this into MANIFEST.json)."""
HOOK_COMMITS = []
NOT_BUILT = {}
CHECKS = {
    'C05': {
        'technique': 'property-based differential testing: generated token sequences (grammar derivations, token '
                     'mutations, garbage prefix/suffix, concatenations) judged by an independent Earley recogniser '
                     'built from the live grammar, plus a token-span tiling invariant',
        'level': 'Sampled search over an infinite input language with an exact oracle for the soundness direction '
                 '(accepted => one sentence of the bare grammar, no character skipped). Not a proof; the class of '
                 'non-sentences with a valid statement as suffix (error-recovery resynchronisation) is forced to be '
                 'well populated.',
        'note': 'Trusts the Earley recogniser (80 lines, self-tested) and that Parser._grammar.Productions is the '
                'grammar; lexer acceptance is taken as given apart from the tiling clause.',
    },
    'C01': {
        'technique': 'property-based round-trip testing: accepted statements (test corpus, random derivations of the '
                     'live grammar -- two thirds tame, one third wild --, accepted token mutations, option-list values) '
                     'plus the bounded-exhaustive set of production-pair sentences x 3 dialects; oracle = structural tree '
                     'identity by reflection after print -> re-parse, print idempotence, copy() identity',
        'level': 'Sampled search over the accepted language with an exact round-trip oracle (structural identity of '
                 'every node field, stronger than the library\'s own to_tree/__eq__). Known printer defects are '
                 'matched by failure kind + tree-feature tags and excluded so that the search continues behind them.',
        'note': 'The first parse is only a filter. Two thirds of the random derivations are tame (no keyword-spelled '
                'identifiers via `id: KEYWORD`, no statements as sub-queries, no token-soup raw queries); the wild third '
                'and the production-pair sentences cover those; struct oracle trusts Python reflection only.',
    },
    'C02': {
        'technique': 'property-based robustness testing / fuzzing: coverage-guided byte-level campaign (atheris / '
                     'libFuzzer, 16 processes, dictionary of all lexemes) + structured Hypothesis generators (grammar '
                     'derivations, token mutations of valid statements, random lexeme sequences, SQL-flavoured and Unicode '
                     'text, pump inputs) + bounded-exhaustive layers (production-pair sentences of the live grammars, '
                     'option lists of the MindsDB commands); oracle = outcome is a tree, ParsingException or LexError '
                     '(exception class + innermost frame as failure site), 30 s watchdog for termination',
        'level': 'Sampled and coverage-guided search plus two finite layers that are enumerated completely; the crash '
                 'oracle is exact. Termination is observed under a watchdog, not proved.',
        'note': 'Known internal-error sites of the pinned tree are listed per (exception type, function) and '
                'skipped; any other site is a violation.',
    },
    'C06': {
        'technique': 'property-based differential execution: typed SQL model (joins of every kind, sub-selects, CTEs, '
                     'set operations, grouping, ordering with NULLS, LIMIT/OFFSET, windows, DML/DDL) x generated table '
                     'contents x {sqlite, mysql, postgresql} renderings, original vs rendered text executed on two '
                     'identical sqlite3 databases, order-aware row comparison / table-state comparison',
        'level': 'Sampled search over statements and small table contents with the real SQLite engine as reference; '
                 'tiny value domains make NULL/duplicate/empty-table corner cases frequent.',
        'note': 'Trusts sqlite3 and the generator\'s typing discipline (ground truth must execute; otherwise the case '
                'is dropped and counted). mysql/postgresql output is judged only when SQLite executes it; MSSQL and '
                'Oracle output cannot be executed here.',
    },
    'C16': {
        'technique': 'property-based round-trip testing: hostile inner query texts (string literals of every kind, '
                     '@variables, odd numbers, nested parentheses, comments, multi-line layouts) x 48 embedding command '
                     'templates; oracle = own literal-aware scanner (stored text == inner text up to blanks/comments) '
                     'and same parse tree for stored and inner text',
        'level': 'Sampled search plus a fixed hostile list run against every template; exact textual oracle.',
        'note': 'Trusts the 150-line literal-aware scanner (self-tested). Only the mindsdb dialect has these commands.',
    },
    'C04': {
        'technique': 'property-based testing against a reference model + bounded-exhaustive enumeration: literal / '
                     'identifier / number / @variable texts assembled from lexical units (decode) and values placed in '
                     'trees (encode), judged by an independent reference reader of the three dialects\' token shapes',
        'level': 'Exhaustive over all literal texts up to 3 (quick) / 5 (thorough) units of a hostile unit alphabet '
                 'and all values up to 3 / 5 characters; random Unicode beyond. Exact oracle where the token shape '
                 'fixes the denotation, open (all readings accepted) for unspecified backslash escapes.',
        'note': 'Trusts vf/oracles/reflex.py (reference denotation written from the lexers\' regexes, self-tested); '
                'its one debatable reading (two backslashes denote one) is argued in DESIGN.md.',
    },
    'C11': {
        'technique': 'property-based differential execution + structural invariant: single-integration queries from '
                     'the typed SQL model (qualifier spellings, shadowing aliases, 3-part columns, CTEs, set operations, '
                     'sub-selects) x table contents x catalog shapes; plan must be one fetch step, pushed query '
                     '(printed by an own printer) executed on sqlite3 vs the original text on an engine with the '
                     'integration ATTACH-ed; pushed tree may differ only by qualifier removal / AS <column>',
        'level': 'Sampled search with the real SQLite engine as reference and an exact structural edit-distance check.',
        'note': 'Trusts sqlite3, the own printer vf/oracles/refprint.py and the generator\'s typing discipline.',
    },
    'C03': {
        'technique': 'bounded-exhaustive enumeration + property-based testing against a reference model and a '
                     'differential engine: all operator trees with <= 3 operators (4 in thorough) over the listed '
                     'precedence classes printed with minimal parentheses x 3 dialects x 9 expression contexts, random '
                     'deeper trees; oracle (a) parsed shape == generating tree, (b) sqlite3 value of the text == value '
                     'of the parsed tree printed fully parenthesised',
        'level': 'Exhaustive up to 3 operators per class representative in every context (thorough), sampled beyond; '
                 'the precedence model itself is validated against SQLite on every case.',
        'note': 'Trusts sqlite3 as the reference for SQL precedence and vf/oracles/optree.py (model, printers).',
    },
    'C08': {
        'technique': 'property-based differential execution with a reference plan interpreter: multi-integration '
                     'queries from the typed SQL model x table contents x catalog shapes; emitted plan steps carried out '
                     'by their documented meaning on sqlite3 vs the original query on one engine holding all tables; on '
                     'a mismatch the plan is re-interpreted with push-down mechanisms neutralised to attribute it',
        'level': 'Sampled search; multiset / order-aware comparison, validity predicate under LIMIT without total order. '
                 'Known push-down defects are matched by mechanism (semi-join filter under RIGHT/FULL join, atoms pushed '
                 'irrespective of boolean context, ...) so other mismatches stay violations.',
        'note': 'Step semantics are my reading of planner/steps.py docstrings; the real executor is in another '
                'repository. Plans the interpreter cannot give a meaning are counted as not judged, never as violations.',
    },
    'C13': {
        'technique': 'property-based testing against a reference model: trees from the corpus, grammar derivations '
                     'and a targeted shape generator; oracle = independent reflection-based reference walk in textual '
                     'order (visited exactly once, order, is_table / is_target flags) and exhaustive single-node '
                     'replacement compared with an independently built clone',
        'level': 'Sampled over trees, exhaustive over replacement positions within each tree (cap 48).',
        'note': 'Trusts vf/oracles/walk.py (per node class the child fields in textual order).',
    },
    'C17': {
        'technique': 'property-based contract testing: parser-produced trees (corpus, targeted unsupported shapes, '
                     'fragment x frame products, production-pair sentences, derivations, mutations) x 7 dialect names x {get_string, '
                     'get_exec_params} x fallback on/off; oracle = exception class contract, fallback output identity, '
                     'structural snapshot of the tree unchanged',
        'level': 'Sampled + a fixed product of 60 expression fragments x 47 clause frames and 30 table fragments x 26 '
                 'table positions; exact contract oracle.',
        'note': 'The no-fallback result is taken as "the rendering"; its meaning is C06/C07\'s subject.',
    },
    'C18': {
        'technique': 'property-based testing of algebraic laws with drawn mutation histories: copy()/deepcopy of '
                     'parser-produced trees and of plans, identity-graph disjointness, original unchanged after every '
                     'single-attribute mutation of the copy; reflexivity / symmetry / print-consistency of ==, plan and '
                     'step equality, Result hashing',
        'level': 'Sampled trees, plans and mutation sequences (<= 10 steps); exact oracle.',
        'note': 'Structural image by reflection (vf/oracles/struct.py) is the notion of "unchanged".',
    },
    'C19': {
        'technique': 'property-based metamorphic testing: rejected texts from token mutations, truncations, layouts '
                     'with comments / blank lines / CRLF and illegal characters; location oracle = first token whose '
                     'prefix the parser cannot extend (prefix parsing, cross-checked by the Earley recogniser) mapped to '
                     'source coordinates by an own layout model; suggestion oracle = re-parse with the suggestion '
                     'inserted + Earley expected-terminal set',
        'level': 'Sampled + every token-boundary truncation of corpus statements; exact oracle for caret position, '
                 'soundness only for suggestions.',
        'note': 'Relies on the LR correct-prefix property (bisection over prefixes) and the Earley recogniser.',
    },
    'C07': {
        'technique': 'bounded-exhaustive enumeration + property-based testing against reference lexical models: constant '
                     'values (all strings <= 3/4 chars over a 10-character hostile alphabet, injection payloads, Unicode, '
                     'numbers, booleans, NULL, dates) x 7 positions x 15 outputs (to_string, get_string / '
                     'get_exec_params for 7 dialect names); oracle = token sequence of the output by the target dialect\'s '
                     'own lexical rules equals that of a benign sentinel except for one literal decoding to the value; '
                     'real sqlite3 engine cross-check for the sqlite target',
        'level': 'Exhaustive over the hostile alphabet up to length 3 (quick) / 4 (thorough), sampled beyond.',
        'note': 'Trusts vf/oracles/targetlex.py (hand-written default-mode lexical models of mysql, postgresql, sqlite, '
                'mssql, oracle, snowflake; the sqlite one is checked against the engine on every run).',
    },
    'C09': {
        'technique': 'bounded-exhaustive enumeration + property-based invariant checking: every join shape over '
                     '{table, model, TS model, sub-select, native query, injected data} up to length 3/4 x variants x 13 '
                     'statement wraps on fixed catalogs, random model/catalog combinations beyond; oracle = dataflow '
                     'invariants over every Result / Parameter(Result) / held step found by reflection, exception class',
        'level': 'Exhaustive over join shapes up to length 3 (4 in thorough) on two catalogs; sampled over catalogs, '
                 'WHERE atoms and options. Exact invariant oracle with its own unit self-test.',
        'note': 'Single-sink clause is waived (counted) for statements with a WITH clause (unused / eagerly planned CTEs); '
                'the answer clause (every table the statement reads is mentioned by a step feeding the last one) is not.',
    },
    'C10': {
        'technique': 'property-based testing against a reference model + metamorphic relation: queries with tables and '
                     'models in every position x catalogs x qualifier spellings; oracle = independent name resolver '
                     'over a reflection walk of the original tree vs places observed in fetch / apply / DML steps; '
                     're-spelling qualifiers / re-encoding the catalog must not change the normalised plan',
        'level': 'Sampled; exact set-equality oracle plus stray-qualifier and stray-table clauses.',
        'note': 'Trusts vf/oracles/resolve.py (19-case self-test run in prepare). DML target routing is identity of the '
                'identifier only (the executor routes).',
    },
    'C12': {
        'technique': 'property-based metamorphic testing over call histories: statement templates with holes in every '
                     'expression position x value lists x drawn prepare / info / execute / execute-wrong-count / '
                     're-prepare sequences on one planner; oracle = steps of execute(values) structurally identical to '
                     'plan_query(parse(text with the i-th hole replaced by literal i)), exact parameter count, '
                     'PlanningException on a wrong count, no placeholder left',
        'level': 'Sampled templates and histories (2..8 calls quick, 2..20 thorough); exact oracle.',
        'note': 'The expected side never consults the library\'s walker; sub-select names t_<id> are normalised.',
    },
    'C14': {
        'technique': 'property-based testing against a generating model + bounded enumeration: table-model join queries '
                     'rendered from a model of labelled atoms (which conjunct belongs where) x WHERE skeletons x USING '
                     'options x catalogs; oracle = five structural clauses computed from the generating model (apply '
                     'step per model and its input, row_dict, neutralised / untouched atoms, pushed conjuncts, params, '
                     'columns_map)',
        'level': 'Exhaustive over 10 WHERE skeletons x pairs of 10 atom kinds x 3 FROM shapes; sampled beyond.',
        'note': 'A parse-sanity clause checks that the parsed WHERE / ON / USING equal the model before judging.',
    },
    'C15': {
        'technique': 'property-based testing against a reference definition + execution: TS-join queries (time '
                     'condition x partition filters x window x group columns x join order x source) x table contents '
                     'with ties / NULL times / short partitions; emitted fetch queries executed on sqlite3 by an own '
                     'executor and compared with the reference row set (validity predicate under ties); rejected '
                     'shapes must raise PlanningException',
        'level': 'Bounded enumeration of operator x filter x window x groups x order x source on fixed tables + sampled.',
        'note': 'Trusts vf/oracles/tsexec.py ($var substitution, MultipleSteps / MapReduce shapes as the repo\'s tests '
                'show them) and sqlite3.',
    },
    'C20': {
        'technique': 'differential isolation testing: every call of a corpus (parse / plan / render, incl. failing ones) '
                     'is compared with the same call run first in a pristine forked process, under (a) free-running and '
                     'deterministically forced thread interleavings in three sharing modes, (b) drawn call histories '
                     're-using catalog and renderer objects, (c) sub-processes with PYTHONHASHSEED 0,1,2,3,random',
        'level': 'Sampled schedules and histories; (c) covers the whole call corpus. Schedules are explored, not '
                 'enumerated: a race needing one specific switch point may be missed (forced line-level switching helps).',
        'note': 'The harness does not own the GIL schedule in free-running mode; forced mode switches at line boundaries '
                'inside mindsdb_sql/ and sly/ only.',
    },
}


# additions of the sixth wave (appended to the technique texts above)
TECH_ADD = {
    'C01': '; bounded-exhaustive CREATE TABLE column x key-list family and nested set operations with their own WITH / USING in 39 contexts',
    'C02': '; keywords of the production-pair sentences re-spelled with the non-ASCII letters re.IGNORECASE equates with i / s / k',
    'C03': '; layout variants (newlines, tabs, block and line comments between the tokens)',
    'C04': '; identifier paths also in function-name position',
    'C06': '; bounded-exhaustive ORDER BY direction x NULLS matrix; drawn histories of statements rendered by one renderer object (incl. refused ones) before the judged statement',
    'C07': '; every node position also inside value-preserving wrappers (function argument, argument in front of FROM, CASE result)',
    'C08': '; ORDER BY item forms (positions, aliases, expressions) random and enumerated; qualifiers of JoinStep / QueryStep must name a frame',
    'C11': '; qualified stars, WITH inside derived tables / join operands / sub-selects / in front of parenthesised set operations',
    'C12': '; statements without placeholders are prepared, executed and executed again too',
    'C13': '; nodes in open positions (LIMIT / OFFSET ...) that the walker shows to the visitor are replaced too',
    'C14': '; non-constant BETWEEN / IN operands, same-named models in two projects, ON clauses read in the JoinStep',
    'C17': '; type and function catalogues read from SQLAlchemy (every registered function class x 16 argument-list shapes)',
    'C18': '; odd quoted name parts; one statement planned under catalogs that differ only in what the models are (steps of different classes compared)',
    'C20': '; one predictor-metadata object planned under two predictor namespaces; renderers built from shared dialect classes',
}
for _k, _v in TECH_ADD.items():
    CHECKS[_k]['technique'] += _v
