"""bin/check entry point: tiers, shards, known findings, evidence, replay."""
import argparse, collections, importlib, json, multiprocessing, os, sys, time, traceback

from vf import lib, findings
from vf.collect import Collector, NullCollector

LEVEL = 'exploration'


def _shard_entry(args):
    mod_name, k, nshards, tier, seed, triage = args
    mod = importlib.import_module(mod_name)
    entries = findings.load(mod.PROPERTY)
    col = Collector(mod.PROPERTY, entries, k, nshards)
    col.triage = triage
    t0 = time.monotonic()
    try:
        mod.run_shard(col, k, nshards, tier, seed * 1000 + k)
        err = None
    except BaseException as e:  # harness error, reported as exit 2
        err = ''.join(traceback.format_exception(type(e), e, e.__traceback__))[-4000:]
    r = col.result()
    r['error'] = err
    r['wall'] = time.monotonic() - t0
    return r


def main(argv=None):
    ap = argparse.ArgumentParser()
    ap.add_argument('prop')
    ap.add_argument('--tier', default=os.environ.get('VERIF_TIER', 'quick'))
    ap.add_argument('--replay')
    ap.add_argument('--shards', type=int, default=int(os.environ.get('VERIF_SHARDS', '16')))
    ap.add_argument('--triage', action='store_true', help='development: list every unmatched bucket, exit 0')
    ap.add_argument('--no-evidence', action='store_true')
    ap.add_argument('--emit-known', help='development: write candidate known-finding entries for unmatched buckets')
    a = ap.parse_args(argv)
    prop = a.prop.upper()
    tier = a.tier if a.tier in ('quick', 'thorough') else 'quick'
    seed = int(os.environ.get('VERIF_SEED', '1') or 1)
    t0 = time.monotonic()
    try:
        lib.load()
        mod_name = f'vf.props.{prop.lower()}'
        mod = importlib.import_module(mod_name)
    except Exception:
        traceback.print_exc()
        print(f'HARNESS-ERROR property={prop} import failed')
        return 2

    if a.replay:
        return replay_file(mod, a.replay)

    try:
        if hasattr(mod, 'prepare'):
            mod.prepare(tier)
    except Exception:
        traceback.print_exc()
        print(f'HARNESS-ERROR property={prop} prepare failed')
        return 2

    nshards = max(1, a.shards)
    ctx = multiprocessing.get_context('fork')
    jobs = [(mod_name, k, nshards, tier, seed, a.triage) for k in range(nshards)]
    if nshards == 1:
        results = [_shard_entry(jobs[0])]
    else:
        with ctx.Pool(nshards) as pool:
            results = pool.map(_shard_entry, jobs, chunksize=1)

    merged = merge(results)
    entries = findings.load(prop)
    rc = 0
    out_lines = []

    # harness errors
    errs = [r['error'] for r in results if r['error']]
    if errs:
        print(errs[0])
        print(f'HARNESS-ERROR property={prop} {len(errs)} shard(s) failed')
        rc = 2

    # witnesses of known findings (open: must still fail to be reported; fixed: must pass)
    violations = []
    for e in entries:
        w = e.get('witness')
        if not w:
            continue
        wcases = w if isinstance(w, list) else [w]
        still = False
        for wc in wcases:
            recs = run_case(mod, wc, entries)
            if e['status'] == 'open':
                if any(findings.matches(e, r) for r in recs):
                    still = True
                # other failures of an open witness are judged like any generated case
                for r in recs:
                    if not findings.find(entries, r, 'open'):
                        violations.append({'record': r, 'case': wc, 'count': 1, 'origin': 'witness of ' + e['id']})
            elif e['status'] == 'fixed':
                for r in recs:
                    if not findings.find(entries, r, 'open'):
                        violations.append({'record': r, 'case': wc, 'count': 1,
                                           'origin': 'regression of fixed finding ' + e['id']})
        if e['status'] == 'open':
            hits = merged['known_hits'].get(e['id'], 0)
            if still or hits:
                out_lines.append(f"KNOWN-FINDING: property={prop} {e['id']}: {e['title']} (hits={hits})")
            else:
                out_lines.append(f"NOTE: listed finding {e['id']} no longer reproduces (witness passes, 0 hits)")

    violations.extend(merged['unmatched'])

    if a.triage:
        print_triage(prop, merged, violations)
        if a.emit_known:
            emit_known(prop, violations, a.emit_known)
        return 0

    # vacuity guards
    floors = getattr(mod, 'FLOORS', {}).get(tier, {})
    vac = []
    for cname, floor in floors.items():
        got = merged['classes'].get(cname, 0) if cname != '__nontrivial__' else len(merged['nontrivial'])
        if got < floor:
            vac.append(f'{cname}: {got} < {floor}')
    if vac and rc == 0 and not errs:
        print(f'HARNESS-ERROR property={prop} generator does not reach the property: ' + '; '.join(vac))
        rc = 2

    replay_paths = []
    if violations:
        rdir = os.path.join(os.environ.get('VERIF_REPLAY_DIR') or os.path.join(lib.VERIF, 'replays'), prop)
        os.makedirs(rdir, exist_ok=True)
        seen = set()
        for v in violations:
            s = findings.sig(v['record'])
            if s in seen:
                continue
            seen.add(s)
            path = os.path.join(rdir, findings.case_hash(v['case']) + '.json')
            with open(path, 'w') as f:
                json.dump({'property': prop, 'case': v['case'], 'record': v['record'], 'count': v.get('count', 1),
                           'origin': v.get('origin', 'generated'), 'seed': seed, 'tier': tier,
                           'shrunk': bool(v.get('shrunk'))}, f, indent=1, default=repr, ensure_ascii=False)
            replay_paths.append(path)
            if len(replay_paths) <= 6:
                out_lines.append(f'VIOLATION property={prop} replay={path}')
                out_lines.append(f"  kind={v['record']['kind']} site={v['record']['site']} features={v['record']['features']} "
                                 f"config={v['record']['config']}")
                out_lines.append(f"  detail={v['record']['detail'][:300]}")
        if len(replay_paths) > 6:
            out_lines.append(f'  ... and {len(replay_paths) - 6} more violation signatures (replay files written)')
        rc = 1   # a violation backed by a replay file outranks a vacuity / harness warning

    wall = time.monotonic() - t0
    if not a.no_evidence:
        write_evidence(mod, prop, tier, seed, merged, entries, wall, len(replay_paths), rc)
    for l in out_lines:
        print(l)
    print(f"{prop} tier={tier} seed={seed} evaluations={merged['evaluations']} nontrivial={len(merged['nontrivial'])} "
          f"known_hits={sum(merged['known_hits'].values())} violations={len(replay_paths)} wall={wall:.1f}s rc={rc}")
    return rc


def merge(results):
    m = {'evaluations': 0, 'nontrivial': set(), 'classes': collections.Counter(), 'excluded': collections.Counter(),
         'known_hits': collections.Counter(), 'samples': [], 'unmatched': [], 'notes': [], 'exhaustive_parts': []}
    by_sig = {}
    for r in results:
        m['evaluations'] += r['evaluations']
        m['nontrivial'] |= r['nontrivial']
        m['classes'].update(r['classes'])
        m['excluded'].update(r['excluded'])
        m['known_hits'].update(r['known_hits'])
        m['notes'].extend(r['notes'])
        m['exhaustive_parts'].extend(r['exhaustive_parts'])
        for u in r['unmatched']:
            s = findings.sig(u['record'])
            if s in by_sig:
                by_sig[s]['count'] += u['count']
                # prefer shrunk / shorter case
                if len(json.dumps(u['case'], default=repr)) < len(json.dumps(by_sig[s]['case'], default=repr)):
                    by_sig[s]['case'], by_sig[s]['record'] = u['case'], u['record']
                    by_sig[s]['shrunk'] = u.get('shrunk')
            else:
                by_sig[s] = dict(u)
    # samples: round-robin over shards
    pools = [list(r['samples']) for r in results]
    while any(pools) and len(m['samples']) < 10:
        for p in pools:
            if p and len(m['samples']) < 10:
                m['samples'].append(p.pop(0))
    m['unmatched'] = list(by_sig.values())
    return m


def run_case(mod, case, entries):
    """Judge one stored case outside Hypothesis.  Returns the failure records."""
    nc = NullCollector(entries)
    return list(mod.judge(case, nc) or ())


def replay_file(mod, path):
    with open(path) as f:
        data = json.load(f)
    case = data['case'] if isinstance(data, dict) and 'case' in data else data
    entries = findings.load(mod.PROPERTY)
    if hasattr(mod, 'prepare'):
        mod.prepare('quick')
    recs = run_case(mod, case, entries)
    bad = 0
    for r in recs:
        e = findings.find(entries, r, 'open')
        if e:
            print(f"KNOWN-FINDING: property={mod.PROPERTY} {e['id']}: {e['title']}")
        else:
            bad += 1
            print(f'VIOLATION property={mod.PROPERTY} replay={path}')
            print(f"  kind={r['kind']} site={r['site']} features={r['features']} config={r['config']}")
            print(f"  detail={r['detail']}")
    if not recs:
        print('replay: case passes')
    return 1 if bad else 0


def print_triage(prop, merged, violations):
    print(f"== triage {prop}: evaluations={merged['evaluations']} nontrivial={len(merged['nontrivial'])}")
    print('classes:', dict(sorted(merged['classes'].items())))
    print('excluded:', dict(merged['excluded']))
    print('known hits:', dict(merged['known_hits']))
    bks = collections.defaultdict(list)
    for v in violations:
        bks[findings.bucket(v['record'])].append(v)
    print(f'unmatched buckets: {len(bks)}')
    for b, vs in sorted(bks.items(), key=lambda kv: -sum(v['count'] for v in kv[1])):
        n = sum(v['count'] for v in vs)
        v = min(vs, key=lambda v: len(json.dumps(v['case'], default=repr)))
        cfgs = sorted({json.dumps(x['record']['config'], sort_keys=True) for x in vs})
        print(f'-- [{n}] kind={b[0]} site={b[1]} features={list(b[2])} configs={cfgs[:4]}')
        print('   case:', json.dumps(v['case'], default=repr, ensure_ascii=False)[:int(os.environ.get('VF_TRIAGE_WIDTH', '420'))])
        print('   detail:', v['record']['detail'][:int(os.environ.get('VF_TRIAGE_WIDTH', '420'))])


def emit_known(prop, violations, path):
    import re
    bks = collections.defaultdict(list)
    for v in violations:
        bks[findings.bucket(v['record'])].append(v)
    out = []
    for b, vs in bks.items():
        v = min(vs, key=lambda v: len(json.dumps(v['case'], default=repr)))
        cfg = collections.defaultdict(set)
        for x in vs:
            for k, val in x['record']['config'].items():
                cfg[k].add(val)
        slug = re.sub(r'[^A-Za-z0-9]+', '-', f'{b[0]}-{b[1]}-' + '-'.join(b[2])).strip('-')[:70]
        m = {'kind': b[0], 'site': '^' + re.escape(b[1]) + '$'}
        if b[2]:
            m['features_all'] = list(b[2])
        if cfg:
            m['config'] = {k: sorted(vals) for k, vals in cfg.items()}
        out.append({'id': f'{prop}-{slug}', 'property': prop, 'status': 'open',
                    'title': v['record']['detail'][:140], 'match': m, 'witness': v['case']})
    with open(path, 'w') as f:
        json.dump(out, f, indent=1, default=repr, ensure_ascii=False)
    print(f'wrote {len(out)} candidate entries to {path}')


def write_evidence(mod, prop, tier, seed, merged, entries, wall, nviol, rc):
    os.makedirs(os.path.join(lib.VERIF, 'evidence'), exist_ok=True)
    cov = {
        'evaluations': merged['evaluations'],
        'distinct_nontrivial': len(merged['nontrivial']),
        'rule': getattr(mod, 'RULE', ''),
        'samples': merged['samples'] or ['(no non-trivial sample collected)'],
        'classes': dict(sorted(merged['classes'].items())),
        'excluded_by_construction': dict(merged['excluded']),
        'known_finding_hits': dict(merged['known_hits']),
        'exhaustive_parts': merged['exhaustive_parts'],
        'exhaustive': False,
        'notes': merged['notes'][:20],
        'exit_code': rc,
    }
    ev = {
        'property_id': prop, 'tier': tier, 'seed': seed, 'level': LEVEL, 'coverage': cov,
        'assumptions': list(getattr(mod, 'ASSUMPTIONS', [])),
        'wall_s': round(wall, 2), 'violations': nviol,
    }
    path = os.path.join(lib.VERIF, 'evidence', prop + '.json')
    with open(path, 'w') as f:
        json.dump(ev, f, indent=1, default=repr, ensure_ascii=False)


if __name__ == '__main__':
    sys.exit(main())
