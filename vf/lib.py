"""Import the library under test from the tree the check is pointed at (default /repo)."""
import os, sys

REPO = os.environ.get('VERIF_REPO', '/repo')
VERIF = os.path.dirname(os.path.dirname(os.path.abspath(__file__)))


def load():
    """Put REPO first on sys.path, import mindsdb_sql from it and make sure that is what we got."""
    if REPO in sys.path:
        sys.path.remove(REPO)
    sys.path.insert(0, REPO)
    import mindsdb_sql
    import sly
    here = os.path.realpath(os.path.dirname(os.path.dirname(mindsdb_sql.__file__)))
    if here != os.path.realpath(REPO):
        raise RuntimeError(f'mindsdb_sql imported from {here}, expected {REPO}')
    here = os.path.realpath(os.path.dirname(os.path.dirname(sly.__file__)))
    if here != os.path.realpath(REPO):
        raise RuntimeError(f'sly imported from {here}, expected {REPO}')
    return mindsdb_sql
