"""Failure records, known-findings file and matchers."""
import hashlib, json, os, re
from vf.lib import VERIF

KNOWN_DIR = os.path.join(VERIF, 'known')          # known/<ID>.json: source of truth, one file per property
KNOWN_FILE = os.path.join(VERIF, 'known_findings.json')  # merged index for readers (bin/mkmanifest regenerates it)


def record(kind, site='', features=(), config=None, detail='', text=''):
    return {'kind': kind, 'site': site, 'features': sorted(set(features)), 'config': dict(config or {}),
            'detail': str(detail)[:600], 'text': str(text)[:2000]}


def sig(rec):
    return (rec['kind'], rec['site'], tuple(rec['features']), tuple(sorted(rec['config'].items())))


def bucket(rec):
    """Coarser than sig: used to bucket triage output (ignores config)."""
    return (rec['kind'], rec['site'], tuple(rec['features']))


def load_all():
    data = []
    if os.path.isdir(KNOWN_DIR):
        for fn in sorted(os.listdir(KNOWN_DIR)):
            if fn.endswith('.json'):
                with open(os.path.join(KNOWN_DIR, fn)) as f:
                    data.extend(json.load(f))
    return data


def load(prop=None):
    data = load_all()
    out = []
    for e in data:
        if prop is None or prop in e.get('properties', [e.get('property')]):
            out.append(e)
    return out


def matches(entry, rec):
    m = entry.get('match') or {}
    k = m.get('kind')
    if k is not None and rec['kind'] not in ([k] if isinstance(k, str) else k):
        return False
    s = m.get('site')
    if s is not None and not re.search(s, rec['site']):
        return False
    fa = m.get('features_all')
    if fa and not set(fa) <= set(rec['features']):
        return False
    fany = m.get('features_any')
    if fany and not (set(fany) & set(rec['features'])):
        return False
    fn = m.get('features_none')
    if fn and (set(fn) & set(rec['features'])):
        return False
    cfg = m.get('config')
    if cfg:
        for key, allowed in cfg.items():
            v = rec['config'].get(key)
            if v not in (allowed if isinstance(allowed, list) else [allowed]):
                return False
    tr = m.get('text_re')
    if tr is not None and not re.search(tr, rec['text'], re.S):
        return False
    dr = m.get('detail_re')
    if dr is not None and not re.search(dr, rec['detail'], re.S):
        return False
    return True


def find(entries, rec, status='open'):
    for e in entries:
        if e.get('status') == status and matches(e, rec):
            return e
    return None


def case_hash(case):
    return hashlib.sha1(json.dumps(case, sort_keys=True, ensure_ascii=True, default=repr).encode()).hexdigest()[:16]
