"""C10 — every table and model of a query is routed to the place its name resolves to."""
import copy, re
from hypothesis import strategies as st

from vf import findings, hyp
from vf.gens import model, routing, c10_shapes
from vf.oracles import resolve as R
from vf.oracles.struct import struct, walk
from vf.oracles.walk import clone, sdiff
from vf.props.c02 import site_of

PROPERTY = 'C10'
RULE = ('cases = (statement, catalog, planning mode): statements from G-routing (own templates: tables of int1 / int2 / '
        'api1 / proj / mindsdb / the default namespace and models proj.pred, mindsdb.pred2, time-series proj.tsp, '
        'mindsdb.tsn with and without version suffix, in FROM, JOIN, sub-select in WHERE / select list / CASE operand '
        'and branches / function argument, CTE body, FROM (sub-select), set operations, INSERT..SELECT, UPDATE..FROM, '
        'DELETE, CREATE TABLE (select); every qualifier spelled lower / UPPER / Mixed at random, in half of the '
        'statements lower-case on direct JOIN operands so that join plans are also explored behind the known '
        'case-sensitive join resolver) and from the typed SQL model over three table->place maps; catalog = default '
        'namespace (mindsdb / int1 / proj / absent) x api integration x names|dicts x predictor metadata list|legacy '
        'dict x spelling of the catalog names; mode = plan_query | prepare_steps+execute_steps; plus the bounded-'
        'exhaustive list of vf/gens/c10_shapes.py (every statement x default namespace x catalog form x lower / UPPER '
        'qualifiers): baseline model / unqualified-name statements crossed with the catalog forms legacy dict with '
        '\'project.name\' keys and default_namespace argument spelled UPPER / Mixed; tables int1.<project>.<model>; '
        'one-part names spelled like a database (table of the default namespace, model mindsdb.int2); CTEs named like '
        'a model of the default namespace; sub-selects in WHERE / select list of a join with a time-series model; '
        'equally named un-aliased tables of two places with conditions on columns written database.table.column; the '
        'dbt shape below INSERT / CREATE TABLE / UPDATE with a target that names no database, and with a target that '
        'names a database around an inner table that names none; statements that touch one project only (a model of '
        'it alone, joined with its tables, nested in FROM / CTE / INSERT / CREATE / IN / select list / UNION) under '
        'catalogs that list that project ALSO among the data integrations (plain name | {type: data} dict in place of '
        'the project dict; the random catalogs do so in a fourth of the cases); sub-selects in WHERE / select list / '
        'CASE / function argument of a select whose FROM is or joins a native query `int1 (text)`; UPDATE with '
        'sub-selects in its own WHERE (with and without FROM) and columns written database.table.column. Judged: table '
        'references collected from the original tree by reflection and resolved by an own resolver == the '
        '(integration, table) pairs mentioned in fetch steps (and in the WHERE of delete steps and the WHERE / SET '
        'values of the command of update steps, which run on the integration of their table), the (namespace, '
        'predictor) pairs of apply steps and the tables of DML steps; no qualifier of the integration and no column '
        'of another database left in a fetch query; a column that the statement writes only as <database>.<table>.'
        '<column> of one database is mentioned in no fetch query for another place; no table reference left in a step '
        'that runs on dataframes; a '
        'table without any place is refused; the plan of the statement with all qualifiers lower-cased under the '
        'canonical catalog encoding (names / list, lower case) is identical after normalising qualifiers, and a '
        'refusal / crash must not depend on spelling or encoding. Non-trivial = >= 2 references resolving to >= 2 '
        'places, or a non-lower-case qualifier, or a table outside the top-level FROM; distinct = (statement text, '
        'catalog, mode)')
ASSUMPTIONS = ['the executor is another repository: a DML step is taken to address the table its identifier resolves to '
               'and a DELETE step to run its WHERE, an UPDATE step its command (WHERE, SET values), on the integration '
               'of its table',
               'outside the generated domain: aliases / columns named like a database (C11), correlated sub-selects, '
               'sub-selects in ON / HAVING / ORDER BY / SET values of UPDATE (positions the property does not list), '
               'names without a database inside the sub-select of a time-series join below INSERT / UPDATE / CREATE '
               'whose target names a database when there is NO default namespace (the property names no place for '
               'them; with a default namespace they are judged: listed finding, the dbt workaround), letter '
               'case of model names, common table expressions defined inside a sub-select (scope of their names), '
               'the text of a native query `integration (text)` (opaque; the clauses around it are judged), a planner '
               'object or catalog object reused for a second statement, a tree that an earlier planning has rewritten '
               '(the planner strips qualifiers in place: every case plans a freshly parsed tree)',
               'refusals (PlanningException / NotImplementedError) and internal errors (C09) are not failures unless '
               'the lower-case spelling of the same statement under the canonical catalog is planned correctly',
               'definitions of common table expressions that a step on dataframes still carries are dead text there; '
               'column look-ups of the prepared-statement planner for a CTE name are not routing']
_Q = {'__nontrivial__': 518, 'judged': 675, 'routes-ok': 515, 'nonlower': 390, 'multi-place': 449,
      'outside-from': 592, 'path:join-tables': 332, 'path:ts': 64, 'plan:model': 109, 'plan:dml': 194,
      'plan:single-fetch': 107, 'plan:container': 42, 'mode:prepared': 174, 'enc:names': 245, 'enc:dicts': 518,
      'pm:legacy': 343, 'pm:list': 421, 'dn:None': 125, 'dn:int1': 136, 'dn:proj': 122, 'api:True': 261,
      'catcase:upper': 187, 'unroutable': 22, 'tag:gmodel': 179, 'tag:model:version': 111,
      'tag:model:unqualified': 37, 'tag:ref:unqualified': 174, 'tag:ref:two-part-table': 75,
      'tag:ref:table-named-like-model': 132, 'tag:pos:case-operand': 18, 'tag:pos:case-when': 5,
      'tag:pos:case-then': 12, 'tag:pos:case-else': 4, 'tag:pos:func-arg': 10, 'tag:pos:func-from-arg': 7,
      'tag:pos:where-in': 42, 'tag:pos:where-scalar': 13, 'tag:pos:where-exists': 6, 'tag:pos:target': 41,
      'tag:pos:cte': 33, 'tag:pos:from-subselect': 48, 'tag:pos:union': 15, 'tag:pos:insert-select': 40,
      'tag:pos:update-from': 36, 'tag:pos:delete': 46, 'tag:pos:delete-where-sub': 22, 'tag:pos:create-select': 37,
      'tag:cat:also': 200}
# classes of the bounded-exhaustive list (vf/gens/c10_shapes.py): the same in both tiers
_QF = {'mech:cat:default-namespace-not-lower': 123, 'mech:cat:legacy-dotted-key': 147,
       'mech:cte:named-like-model': 72, 'mech:dbt:target-without-database': 95, 'mech:join:same-name-unaliased': 106,
       'mech:ref:one-part-like-database': 97, 'mech:ref:schema-table-like-model': 158,
       'mech:ts-join:target-subselect': 57, 'mech:ts-join:where-subselect': 163, 'tag:fixed': 2400,
       'tag:shape:catalog-form:model-join': 111, 'tag:shape:catalog-form:model-select': 88,
       'tag:shape:catalog-form:ts-join': 133, 'tag:shape:catalog-form:unqualified-model': 18,
       'tag:shape:catalog-form:unqualified-table': 117, 'tag:shape:cte-like-model:from': 16,
       'tag:shape:cte-like-model:join': 67, 'tag:shape:cte-like-model:sub': 16,
       'tag:shape:dbt-unqualified-target:create': 14, 'tag:shape:dbt-unqualified-target:insert': 57,
       'tag:shape:dbt-unqualified-target:update': 14, 'tag:shape:one-part-like-database:from': 10,
       'tag:shape:one-part-like-database:join': 64, 'tag:shape:one-part-like-database:sub': 21,
       'tag:shape:same-name-join:aliased': 9, 'tag:shape:same-name-join:limit': 9, 'tag:shape:same-name-join:on': 19,
       'tag:shape:same-name-join:where': 76, 'tag:shape:schema-table-like-model:cte': 21,
       'tag:shape:schema-table-like-model:from': 21, 'tag:shape:schema-table-like-model:in-sub': 21,
       'tag:shape:schema-table-like-model:insert': 21, 'tag:shape:schema-table-like-model:join': 43,
       'tag:shape:schema-table-like-model:ts': 7, 'tag:shape:schema-table-like-model:where-sub': 21,
       'tag:shape:ts-join:target-sub': 57, 'tag:shape:ts-join:where-sub': 163,
       # wave 6: about half of what the fixed list alone contributes (the list is the same in both tiers)
       'mech:cat:project-listed-as-integration': 480, 'also:proj': 160, 'also:mindsdb': 160, 'also:mindsdb+proj': 120,
       'mech:dbt:inner-without-database': 96, 'mech:native:outer-subselect': 220, 'mech:update:qualified-column': 13,
       'mech:update:where-subselect': 72, 'tag:shape:dbt-qualified-target:create': 24,
       'tag:shape:dbt-qualified-target:insert': 48, 'tag:shape:dbt-qualified-target:update': 24,
       'tag:shape:native-from:join': 40, 'tag:shape:native-from:nested': 40, 'tag:shape:native-from:plain': 9,
       'tag:shape:native-from:target-sub': 40, 'tag:shape:native-from:ts-join': 27, 'tag:shape:native-from:where-sub': 72,
       'tag:shape:project-as-integration:model-join': 85, 'tag:shape:project-as-integration:model-select': 45,
       'tag:shape:project-as-integration:nested': 128, 'tag:shape:project-as-integration:tables': 80,
       'tag:shape:project-as-integration:ts-join': 21, 'tag:shape:update-where:from-sub': 27,
       'tag:shape:update-where:plain': 10, 'tag:shape:update-where:qualified-column': 13, 'tag:shape:update-where:sub': 45,
       'judged:cat:project-listed-as-integration': 480, 'judged:dbt:inner-without-database': 96,
       'judged:native:outer-subselect': 220, 'judged:update:qualified-column': 13, 'judged:update:where-subselect': 72}
FLOORS = {'quick': dict(_Q, **_QF), 'thorough': dict({k: v * 12 for k, v in _Q.items()}, **_QF)}     # thorough runs 15 x the random cases
N = {'quick': 200, 'thorough': 3000}

# constellations for which the number of cases that reach the oracle with a plan is guarded as well
JUDGED_MECH = ('cat:project-listed-as-integration', 'native:outer-subselect', 'update:where-subselect',
               'update:qualified-column', 'dbt:inner-without-database')
PREPARED_COLUMNS = ['a', 'b', 'c', 'd', 'e', 's', 'p', 'c0', 'c1', 'c2', 'c3']
KNOWN_DB = ['int1', 'int2', 'api1', 'proj', 'mindsdb']
# the world of G-routing plus a plain model that is named like an integration (vf/gens/c10_shapes.py)
MODELS = list(routing.MODELS) + list(c10_shapes.EXTRA_MODELS)
TS_MODELS = {(p, m) for p, m, ts in MODELS if ts}
QUAL_RE = re.compile(r'\b(' + '|'.join(KNOWN_DB) + r')\.', re.I)


# ---------------------------------------------------------------------------------------------------------------
# catalogs
def semantic(spec):
    ints = ['int1', 'int2'] + (['api1'] if spec['api'] else [])
    return R.catalog(ints, ['proj', 'mindsdb'], spec['dn'], [(p, m) for p, m, _ in MODELS])


def canonical(spec):
    return {'dn': spec['dn'], 'api': spec['api'], 'enc': 'dicts' if spec['api'] else 'names', 'pm': 'list',
            'catcase': 'lower', 'dncase': 'lower'}


def build_catalog(spec):
    cc = {'lower': str.lower, 'upper': str.upper, 'mixed': str.capitalize}[spec['catcase']]
    also = [p for p in (spec.get('also') or '').split('+') if p]
    if spec['enc'] == 'names':
        assert not spec['api']
        ints = [cc('int1'), cc('int2')]
    else:
        ints = [{'name': cc('int1'), 'class_type': 'sql', 'type': 'data'},
                {'name': cc('int2'), 'class_type': 'sql', 'type': 'data'}]
        if spec['api']:
            ints.append({'name': cc('api1'), 'class_type': 'api', 'type': 'data'})
        if 'proj' not in also:
            ints.append({'name': cc('proj'), 'class_type': 'project', 'type': 'project'})
    # a project that the caller lists among the data integrations as well (the repository's own join tests do:
    # integrations=['int1', 'int2', 'proj'] with a model in proj): it stays the project of its models
    for p in also:
        ints.append(cc(p) if spec['enc'] == 'names' else {'name': cc(p), 'class_type': 'sql', 'type': 'data'})
    if spec['pm'] == 'list':
        pm = []
        for p, m, ts in MODELS:
            d = {'name': m, 'integration_name': cc(p)}
            if ts:
                d.update(timeseries=True, **copy.deepcopy(ts))
            pm.append(d)
    else:
        pm = {}
        dotted = spec['pm'] == 'legacy-dotted'      # legacy dict whose keys are 'project.name'
        for p, m, ts in MODELS:
            d = {} if (p == 'mindsdb' or dotted) else {'integration_name': cc(p)}   # legacy: namespace from predictor_namespace
            if ts:
                d.update(timeseries=True, **copy.deepcopy(ts))
            pm[f'{cc(p)}.{m}' if dotted else m] = d
    kw = dict(integrations=ints, predictor_metadata=pm)
    if spec['pm'] == 'legacy':
        kw['predictor_namespace'] = cc('mindsdb')
    if spec['dn'] is not None:
        # the default_namespace argument names a database of the catalog: its spelling is a spelling of a catalog name
        dc = {'lower': str.lower, 'upper': str.upper, 'mixed': str.capitalize}[spec.get('dncase', 'lower')]
        kw['default_namespace'] = dc(spec['dn'])
    return kw


# ---------------------------------------------------------------------------------------------------------------
def prepare(tier):
    import mindsdb_sql.planner  # noqa
    R.selftest()


def plan_with(tree, spec, mode):
    """('plan', steps, prepare_steps) | ('refused', exc) | ('error', exc)"""
    from mindsdb_sql.planner import plan_query
    from mindsdb_sql.planner.query_planner import QueryPlanner
    from mindsdb_sql.exceptions import PlanningException
    try:
        if mode == 'plan':
            return ('plan', list(plan_query(tree, **build_catalog(spec)).steps), [])
        planner = QueryPlanner(**build_catalog(spec))
        pre = []
        for s in planner.prepare_steps(tree):
            cn = type(s).__name__
            if cn == 'GetTableColumns':
                key = (str(s.namespace).lower(), s.table, s.table)     # the place, not its spelling in the catalog
            else:
                key = (str(s.namespace).lower(), str(s.predictor.parts[-1]), str(s.predictor.parts[-1]))
            s.set_result({'values': [], 'tables': [key],
                          'columns': {key: [{'name': c, 'type': 'int'} for c in PREPARED_COLUMNS]}})
            pre.append(s)
        steps = list(planner.execute_steps([]))
        if not steps:
            # statement kinds the prepared-statement planner does not execute (EXCEPT / INTERSECT ...): nothing to judge
            return ('refused', NotImplementedError('prepared statement yields no steps'), [])
        return ('plan', steps, pre)
    except (PlanningException, NotImplementedError) as e:
        return ('refused', e, [])
    except RecursionError as e:
        return ('error', e, [])
    except Exception as e:
        return ('error', e, [])


def qualifier_class(parts, cat):
    if len(parts) > 1 and str(parts[0]).lower() in (cat.integrations | cat.projects):
        q = str(parts[0])
        return 'q:lower' if q == q.lower() else 'q:not-lower'
    return 'q:none'


def original_refs(tree, cat):
    """[(written parts, resolve() result, slot, qualifier class, role, holder)] for the table references of the
    original tree; holder = 'holder:<class of the FROM of the select whose expression contains the sub-select the
    reference belongs to>/<field>' or 'holder:top'"""
    ctx = R.ref_contexts(tree)
    ctes = R.cte_names(tree)
    out = []
    for i, role, slot in R.table_refs(tree):
        c = ctx.get(id(i), [])
        holder = 'holder:top'
        if len(c) >= 2:
            ft = c[-2][0].from_table
            kind = type(ft).__name__
            if kind == 'Identifier' and len(ft.parts) == 1 and str(ft.parts[0]) in ctes:
                kind = 'CTE'
            holder = f'holder:{kind}/{c[-2][1]}'
        out.append((tuple(str(p) for p in i.parts), R.resolve(i.parts, cat), slot, qualifier_class(i.parts, cat), role,
                    holder, R.alias_of(i)))
    return out


def _model_like(parts, cat):
    body = [p.lower() for p in parts]
    if len(body) > 1 and body[-1].isdigit():
        body = body[:-1]
    return len(body) >= 2 and (body[-2], body[-1]) in cat.models


def mechanisms(orig, refs, cat, spec):
    """feature tags that name the constellation of names / catalog a case contains (derived from the case itself, so
    they survive shrinking and also mark cases of the random generators)"""
    known = cat.integrations | cat.projects
    f = set()
    if spec['pm'] == 'legacy-dotted':
        f.add('cat:legacy-dotted-key')
    if spec.get('dncase', 'lower') != 'lower' and spec['dn'] is not None:
        f.add('cat:default-namespace-not-lower')
    if spec.get('also'):
        f.add('cat:project-listed-as-integration')
    for w, r, slot, q, role, holder, al in refs:
        if r[0] == 'table' and len(w) >= 3 and w[0].lower() in known and _model_like(w[1:], cat):
            f.add('ref:schema-table-like-model')
        if len(w) == 1 and w[0].lower() in known:
            f.add('ref:one-part-like-database')
    if cat.default is not None:
        for n in R.cte_names(orig):
            if (cat.default, n.lower()) in cat.models:
                f.add('cte:named-like-model')
    joined = [(w, r, al) for w, r, slot, q, role, holder, al in refs if slot.startswith('Join.') and role == 'read']
    for i, (w1, r1, a1) in enumerate(joined):
        for w2, r2, a2 in joined[i + 1:]:
            if a1 is None and a2 is None and r1[0] == r2[0] == 'table' and r1[2] == r2[2] and r1[1] != r2[1]:
                f.add('join:same-name-unaliased')

    def is_ts(n):
        if type(n).__name__ != 'Identifier':
            return False
        r = R.resolve(n.parts, cat)
        return r[0] == 'model' and (r[1], r[2][0].lower()) in TS_MODELS

    def leaves(j):
        return leaves(j.left) + leaves(j.right) if type(j).__name__ == 'Join' else [j]

    ts_selects = {}
    for n in walk(orig):
        if type(n).__name__ == 'Select' and type(n.from_table).__name__ == 'Join':
            lv = leaves(n.from_table)
            if any(is_ts(x) for x in lv):
                ts_selects[id(n)] = any(type(x).__name__ == 'Select' for x in lv)
    if ts_selects:
        ctx = R.ref_contexts(orig)
        for i, role, slot in R.table_refs(orig):
            for sel, field in ctx.get(id(i), []):
                if id(sel) in ts_selects and field in ('where', 'targets'):
                    f.add('ts-join:where-subselect' if field == 'where' else 'ts-join:target-subselect')
        if any(ts_selects.values()) and any(role == 'target' and q == 'q:none' for w, r, slot, q, role, holder, al in refs):
            f.add('dbt:target-without-database')
        if any(ts_selects.values()) and any(role == 'target' and q != 'q:none' for w, r, slot, q, role, holder, al in refs):
            # the data side of the time-series join is a select from a name that carries no database
            for n in walk(orig):
                if type(n).__name__ == 'Select' and id(n) in ts_selects:
                    for x in leaves(n.from_table):
                        if type(x).__name__ == 'Select' and type(x.from_table).__name__ == 'Identifier' \
                                and qualifier_class(x.from_table.parts, cat) == 'q:none' and not is_ts(x.from_table):
                            f.add('dbt:inner-without-database')
    # sub-selects in the clauses of a select whose FROM is (or joins) a native query
    native = set()
    for n in walk(orig):
        if type(n).__name__ == 'Select' and n.from_table is not None \
                and any(type(x).__name__ == 'NativeQuery' for x in leaves(n.from_table)):
            native.add(id(n))
    if native:
        ctx = R.ref_contexts(orig)
        for i, role, slot in R.table_refs(orig):
            for sel, field in ctx.get(id(i), []):
                if id(sel) in native and field != 'from_table':
                    f.add('native:outer-subselect')
    # UPDATE: sub-selects of its WHERE, columns written with a database in front
    for n in walk(orig):
        if type(n).__name__ == 'Update' and n.where is not None:
            if any(type(x).__name__ == 'Select' for x in walk(n.where)):
                f.add('update:where-subselect')
            if any(type(x).__name__ == 'Identifier' and qualifier_class(x.parts, cat) != 'q:none' and len(x.parts) > 2
                   for x in walk(n.where)):
                f.add('update:qualified-column')
    return sorted(f)


def column_owners(orig, cat):
    """{column name: place} for the column names that the statement writes only with a full name
    database.table.column and only for one database: conditions on them belong to the tables of that place"""
    known = cat.integrations | cat.projects
    tabs = {id(i) for i, _, _ in R.table_refs(orig)}
    own = {}
    for i in R.identifiers(orig):
        if id(i) in tabs or not i.parts or not isinstance(i.parts[-1], str):
            continue
        parts = [str(p) for p in i.parts]
        place = parts[0].lower() if len(parts) >= 3 and parts[0].lower() in known else '?'
        own.setdefault(parts[-1], set()).add(place)
    return {c: next(iter(ps)) for c, ps in own.items() if len(ps) == 1 and '?' not in ps}


def route_failures(orig, steps, pre, cat):
    """the main oracle: list of (kind, site, features, detail), one per distinct (kind, site, features)"""
    refs = original_refs(orig, cat)
    exp_reads, exp_targets = R.expected_routes(orig, cat)
    exp_models = {r for r in exp_reads if r[0] == 'model'}
    exp_tables = {r for r in exp_reads if r[0] == 'table'}
    obs = R.observe(steps, cat)
    obs, upd_steps = observe_updates(obs, steps, cat)
    obs_reads = {('table', r.place, r.parts) for r in obs.reads}
    out, seen = [], set()

    def add(kind, site, f, detail):
        k = (kind, site, tuple(sorted(set(f))))
        if k not in seen:
            seen.add(k)
            out.append((kind, site, sorted(set(f)), detail))

    def origin(route=None, written=None):
        """slot and qualifier class of the original reference(s) with this route / written as these parts"""
        hit = [(s, q) for w, r, s, q, role, _, _ in refs
               if role == 'read' and ((route is not None and r == route) or (written is not None and w == written))]
        if not hit:
            return '?', []
        return sorted({s for s, _ in hit})[0], sorted({q for _, q in hit})

    extras = sorted(obs_reads - exp_tables)
    for m in sorted(exp_tables - obs_reads):
        site, f = origin(route=m)
        if any(R.resolve(list(p), cat) == m for _, p, _ in obs.strays):
            f.append('left-in:' + [c for c, p, _ in obs.strays if R.resolve(list(p), cat) == m][0])
            f += [h for w, r, _, _, _, h, al in refs if r == m and any((p, a) == (w, al) for _, p, a in obs.strays)]
        if any(e[2][-len(m[2]):] == m[2] for e in extras):
            f.append('fetched-elsewhere')
        if any(r.step in upd_steps and r.parts[-len(m[2]):] == m[2] for r in obs.reads):
            f.append('left-in:UpdateToTable')
        add('not-fetched', site, f, f'expected fetch {m} missing; unexpected fetches: {extras[:3]}; tables in '
                                    f'dataframe steps: {obs.strays[:3]}')
    for e in extras:
        rd = [r for r in obs.reads if (r.place, r.parts) == (e[1], e[2])]
        site, f = origin(written=e[2])
        if site == '?' and len(e[2]) == 1 and e[2][0] in R.cte_names(orig):
            site, f = 'cte-reference', ['cte-name-as-table']
        if site == '?':
            # the reference as written behind a prefix the planner put in front of it
            for w, r, sl, q, role, _, _ in sorted(refs, key=lambda x: -len(x[0])):
                if role == 'read' and len(w) < len(e[2]) and e[2][-len(w):] == w:
                    site, f = sl, [q, 'prefixed']
                    break
            if site != '?':
                f.append('sent-as-written-to-other-place')
            else:
                # a model reference, its project cut off, in table position of a fetch query
                mod = [r for w, r, s, q, role, _, _ in refs
                       if role == 'read' and r[0] == 'model' and len(w) > len(e[2]) and w[-len(e[2]):] == e[2]]
                if mod:
                    site, f = origin(route=mod[0])
                    f.append('model-sent-to-integration')
        elif site != '?':
            # the table name still is the reference as written (qualifier included) or an unqualified name
            if R.resolve(list(e[2]), cat)[0] == 'model':
                f.append('model-sent-to-integration')
            elif R.resolve(list(e[2]), cat)[1] != e[1]:
                f.append('sent-as-written-to-other-place')
        else:
            alt = [r for w, r, s, q, role, _, _ in refs if role == 'read' and r[0] == 'table' and r[2] == e[2]]
            if alt:
                site, f = origin(route=alt[0])
                f.append('wrong-place')
        if rd and all(r.under_cte for r in rd):
            f.append('in-cte-definition')
        if rd and all(r.step in upd_steps for r in rd):
            f.append('in-update-command')
        add('unexpected-fetch', site, f, f'fetch {e} (step {rd[0].step if rd else "?"}) has no counterpart in the '
                                         f'statement; expected {sorted(exp_tables)[:4]}')
    me = sorted(obs.models - exp_models)
    for m in sorted(exp_models - obs.models):
        site, f = origin(route=m)
        for e in me:
            if e[1] == m[1] and e[2] == m[2][:1] and len(m[2]) == 2:
                f.append('version-dropped')
            if e[1] != m[1]:
                f.append('other-namespace')
            if len(e[2]) > len(m[2]):
                f.append('qualifier-in-predictor')
        add('model-not-applied', site, f, f'expected apply {m} missing; unexpected applies: {me[:3]}; fetches: '
                                          f'{sorted(obs_reads)[:3]}')
    if not (exp_models - obs.models):
        for e in me:
            site, f = origin(written=e[2])
            add('unexpected-apply', site if site != '?' else 'apply', f + (['qualifier-in-predictor'] if site != '?' else []),
                f'apply {e} has no counterpart; expected {sorted(exp_models)[:4]}')
    if exp_targets != obs.targets:
        add('dml-target', 'dml', [], f'expected {sorted(exp_targets, key=repr)} observed {sorted(obs.targets, key=repr)}')
    for st_, parts, under in obs.kept:
        site, f = origin(written=parts)
        add('qualifier-kept', site if site != '?' else 'column',
            (f or [qualifier_class(parts, cat)]) + (['in-cte-definition'] if under else [])
            + (['in-update-command'] if st_ in upd_steps else []),
            f'identifier {parts} in the query of step {st_} still carries the integration')
    for st_, parts, under in obs.foreign:
        add('foreign-column', 'fetch-identifier', ['in-cte-definition'] if under else [], f'identifier {parts} in the query of step {st_} belongs to '
                                                      f'another database')
    owners = column_owners(orig, cat)
    # the planner of a time-series join writes the order / group columns of the model into the queries for the joined
    # table on its own: such a mention does not come from the statement's database.table.column
    for p_, m_, ts_ in MODELS:
        if ts_ and any(r[1] == p_ and r[2][0].lower() == m_ for r in exp_models):
            for c_ in [ts_['order_by_column']] + list(ts_['group_by_columns']):
                owners.pop(c_, None)
    if owners:
        tab_names = {str(i.parts[-1]) for i, _, _ in R.table_refs(orig)}
        for s in R.all_steps(steps):
            if type(s).__name__ not in R.FETCH or s.query is None:
                continue
            place = str(s.integration).lower()
            qtabs = {id(t) for t, _, _ in R.table_refs(s.query)}
            for i in R.identifiers(s.query):
                c = str(i.parts[-1]) if i.parts else None
                if id(i) not in qtabs and c in owners and owners[c] != place and c not in tab_names:
                    add('foreign-column', 'fetch-condition', ['column-of-table-elsewhere'],
                        f'column {c} is written only as {owners[c]}.<table>.{c}, but the query of step {s.step_num} for '
                        f'{place} mentions it: {str(s.query)[:120]}')
    for c, parts, al in obs.strays:
        add('table-in-dataframe-step', c, [h for w, _, _, _, _, h, a in refs if (w, a) == (parts, al)] or ['holder:?'],
            f'{obs.strays[:3]}: a table reference is left in a step that runs on dataframes')
    # prepared-statement column look-ups address first-level tables / models of the statement
    ctes = R.cte_names(orig)
    for s in pre:
        cn = type(s).__name__
        if cn == 'GetTableColumns':
            r = ('table', str(s.namespace).lower(), tuple(str(s.table).split('.')))
            if r not in exp_tables and not (len(r[2]) == 1 and r[2][0] in ctes):
                add('prepare-lookup', cn, [], f'{r} not among {sorted(exp_tables)[:4]}')
        elif cn == 'GetPredictorColumns':
            parts = [str(p) for p in s.predictor.parts]
            if len(parts) > 1 and parts[0].lower() == str(s.namespace).lower():
                parts = parts[1:]          # the prepared-statement planner keeps the namespace in front
            r = ('model', str(s.namespace).lower(), tuple(parts))
            if r not in exp_models:
                add('prepare-lookup', cn, [], f'{r} not among {sorted(exp_models)[:4]}')
    return out


def observe_updates(obs, steps, cat):
    """R.observe looks at the table of an UPDATE step only.  The command of the step (its WHERE and the values it
    sets) is what the executor sends to the integration of that table, exactly as the WHERE of a DELETE step: the
    tables it mentions are read there, and its identifiers are identifiers of a query sent there.
    -> (Observed with these reads / kept / foreign identifiers added, step numbers of the UPDATE steps)"""
    known = cat.integrations | cat.projects
    reads, kept, foreign, nums = list(obs.reads), list(obs.kept), list(obs.foreign), set()
    for s in R.all_steps(steps):
        if type(s).__name__ != 'UpdateToTable' or getattr(s, 'update_command', None) is None:
            continue
        nums.add(s.step_num)
        place = R.resolve(s.table.parts, cat)[1]
        cmd = s.update_command
        q = [cmd.where, list((cmd.update_columns or {}).values())]
        tabs = R.table_refs(q)
        tab_ids = {id(t) for t, _, _ in tabs}
        for t, _, _ in tabs:
            reads.append(R.Read(place, tuple(str(p) for p in t.parts), s.step_num, False))
        for i in R.identifiers(q):
            if len(i.parts) > 1 and isinstance(i.parts[0], str):
                if i.parts[0].lower() == place:
                    kept.append((s.step_num, tuple(str(p) for p in i.parts), False))
                elif i.parts[0].lower() in known and id(i) not in tab_ids:
                    foreign.append((s.step_num, tuple(str(p) for p in i.parts), False))
    return obs._replace(reads=reads, kept=kept, foreign=foreign), nums


def normalised(steps, cat):
    known = cat.integrations | cat.projects
    steps = clone(steps)
    for n in walk(steps):
        cn = type(n).__name__
        if cn == 'Identifier' and len(n.parts) > 1 and isinstance(n.parts[0], str) and n.parts[0].lower() in known:
            n.parts[0] = n.parts[0].lower()
        for a in ('integration', 'namespace'):
            if isinstance(getattr(n, a, None), str) and cn.endswith(('Step', 'Columns')):
                setattr(n, a, getattr(n, a).lower())
    return struct(steps)


def plan_tags(steps):
    names = [type(s).__name__ for s in R.all_steps(steps)]
    out = set()
    for st_ in R.all_steps(steps):
        if type(st_).__name__ == 'JoinStep' and [str(p) for p in getattr(st_.query.left, 'parts', [])] == ['tab1']:
            out.add('path:join-tables')
    if 'ApplyTimeseriesPredictorStep' in names:
        out.add('path:ts')
    if any(n in names for n in ('ApplyPredictorStep', 'ApplyPredictorRowStep')):
        out.add('plan:model')
    if names == ['FetchDataframeStep']:
        out.add('plan:single-fetch')
    if any(n in names for n in R.DML):
        out.add('plan:dml')
    if any(n in R.CONTAINERS for n in names):
        out.add('plan:container')
    return out


def path_tags(steps):
    return {t for t in plan_tags(steps) if t.startswith('path:')}


def judge(case, col):
    from mindsdb_sql import parse_sql
    sql, spec, mode = case['sql'], case['catalog'], case.get('mode', 'plan')
    meta = case.get('meta', {})
    tags = list(meta.get('tags', []))
    cat = semantic(spec)
    cfg = {'dn': str(spec['dn']), 'enc': spec['enc'] + '/' + spec['pm'], 'mode': mode, 'also': spec.get('also') or 'none'}
    classes = ['dn:' + str(spec['dn']), 'enc:' + spec['enc'], 'pm:' + spec['pm'], 'catcase:' + spec['catcase'],
               'mode:' + mode, 'api:' + str(spec['api']), 'dncase:' + spec.get('dncase', 'lower'), 'also:' + (spec.get('also') or 'none')] \
        + ['tag:' + t for t in tags]
    try:
        tree = parse_sql(sql, 'mindsdb')
    except Exception as e:
        col.excluded('not parsed: ' + site_of(e))
        return []
    orig = clone(tree)
    refs = original_refs(orig, cat)
    mech = mechanisms(orig, refs, cat, spec)
    classes += ['mech:' + m for m in mech]
    exp_reads, exp_targets = R.expected_routes(orig, cat)
    # harness self-check: the generator's own expectation agrees with walker + resolver
    if 'refs' in meta:
        g_reads = {(k, p, tuple(t)) for role, k, p, t in meta['refs'] if role == 'read'}
        g_targets = {(k, p, tuple(t)) for role, k, p, t in meta['refs'] if role == 'target'}
        unify = lambda s: {(k if k != 'unroutable' else 'table', p, t) for k, p, t in s}
        if unify(exp_reads) != g_reads or unify(exp_targets) != g_targets:
            raise AssertionError(f'generator and resolver disagree on {sql!r}: {sorted(exp_reads, key=repr)} vs '
                                 f'{sorted(g_reads, key=repr)}; {exp_targets} vs {g_targets}')
    routes = exp_reads | exp_targets
    unroutable = [r for r in exp_reads if r[0] == 'unroutable']
    places = {r[1] for r in routes}
    nonlower = any(r[3] == 'q:not-lower' for r in refs)
    outside_from = any(r[2] != 'Select.from_table' for r in refs) or \
        sum(1 for n in walk(orig) if type(n).__name__ == 'Select') > 1
    nontrivial = (len(routes) >= 2 and len(places) >= 2) or nonlower or outside_from
    key = (sql, sorted(spec.items(), key=str), mode)
    sample = {'sql': sql, 'catalog': spec, 'mode': mode}
    bsql = QUAL_RE.sub(lambda m: m.group(0).lower(), sql)
    cache = {}

    def run(which):
        """'base' = lower-case text under the canonical catalog; 'text' = lower-case text, given catalog;
        'catalog' = given text, canonical catalog.  -> (original tree, plan_with() result, failures)"""
        if which not in cache:
            t = parse_sql(bsql if which in ('base', 'text') else sql, 'mindsdb')
            o = clone(t)
            r = plan_with(t, canonical(spec) if which in ('base', 'catalog') else spec, mode)
            cache[which] = (o, r, route_failures(o, r[1], r[2], cat) if r[0] == 'plan' else None)
        return cache[which]

    def image(r):
        return normalised(r[1], cat) if r[0] == 'plan' else (r[0], type(r[1]).__name__)

    def causes():
        """which change alone already gives the base behaviour"""
        f = []
        b = image(run('base')[1])
        if image(run('text')[1]) == b:
            f.append('cause:spelling')
        if image(run('catalog')[1]) == b:
            f.append('cause:catalog-encoding')
        return f

    res = plan_with(tree, spec, mode)
    out = []
    if unroutable:
        classes.append('unroutable')
        if res[0] == 'plan':
            out.append(findings.record('unroutable-planned', 'plan', sorted(plan_tags(res[1]) | set(mech)), cfg,
                                       f'no default namespace and no database for {unroutable}, yet planned: '
                                       f'{[type(s).__name__ for s in res[1]]}', sql))
        col.case(key, nontrivial and res[0] == 'refused', classes, sample)
        return out

    if res[0] != 'plan':
        _, bres, bfails = run('base')
        if bres[0] == 'plan' and not bfails:
            site = site_of(res[1]) if res[0] == 'error' else type(res[1]).__name__
            f = set(causes()) | path_tags(bres[1]) | set(mech)
            if any(r[3] == 'q:not-lower' and r[2].startswith('Join.') for r in refs):
                f.add('join-operand:not-lower')
            if any(r[3] == 'q:not-lower' and r[2] == 'Select.from_table' for r in refs):
                f.add('from-table:not-lower')
            out.append(findings.record('spelling-changes-outcome', site, sorted(f), cfg,
                                       f'{type(res[1]).__name__}: {str(res[1])[:150]} -- but the lower-case spelling under '
                                       f'the canonical catalog is planned: {[type(s).__name__ for s in bres[1]]}', sql))
            col.case(key, nontrivial, classes + ['outcome-differs'], sample)
            return out
        col.excluded(('refused: ' + re.sub(r'[^A-Za-z ]+.*', '', str(res[1]))[:40]) if res[0] == 'refused'
                     else ('planner error (C09): ' + site_of(res[1])))
        col.case(key, False, classes + [res[0]])
        return []

    steps, pre = res[1], res[2]
    pt = plan_tags(steps)
    classes += sorted(pt) + ['judged'] + ['judged:' + m for m in mech if m in JUDGED_MECH]
    fails = route_failures(orig, steps, pre, cat)
    if fails:
        _, bres, bfails = run('base')
        noq = lambda f: frozenset(x for x in f if not x.startswith('q:'))
        bkinds = {(k, st_, noq(f)) for k, st_, f, _ in (bfails or [])} if bres[0] == 'plan' else None
        for kind, site, f, detail in fails:
            if bkinds is None:
                extra = ['lowercase:refused']
            elif (kind, site, noq(f)) in bkinds:
                extra = ['lowercase:fails']
            else:
                extra = ['lowercase:passes'] + causes()
            out.append(findings.record(kind, site, sorted(set(f) | set(extra) | path_tags(steps) | set(mech)), cfg,
                                       detail + f'; steps: {[type(s).__name__ for s in steps]}', sql))
    else:
        _, bres, bfails = run('base')
        if bres[0] != 'plan':
            out.append(findings.record('spelling-changes-outcome', 'base:' + type(bres[1]).__name__,
                                       sorted(path_tags(steps) | set(causes()) | set(mech)), cfg,
                                       f'planned, but the lower-case spelling under the canonical catalog gives '
                                       f'{type(bres[1]).__name__}: {str(bres[1])[:150]}', sql))
        else:
            d = sdiff(normalised(bres[1], cat), normalised(steps, cat))
            if d is None:
                d = sdiff(normalised(bres[2], cat), normalised(pre, cat))
            if d is not None:
                path = re.sub(r'\[\d+\]', '[]', d[0])[-60:]
                out.append(findings.record('spelling-changes-plan', path, sorted(path_tags(steps) | set(causes()) | set(mech)), cfg,
                                           f'at {d[0]}: lower-case/canonical {str(d[1])[:120]} vs given {str(d[2])[:120]}',
                                           sql))
    col.case(key, nontrivial, classes + (['nonlower'] if nonlower else []) + (['multi-place'] if len(places) >= 2 else [])
             + (['outside-from'] if outside_from else []) + ([] if out else ['routes-ok']), sample)
    return out


# ---------------------------------------------------------------------------------------------------------------
def spell(draw, q):
    return draw(st.sampled_from(routing.spellings(q)))


MODEL_CFGS = [
    ({'t1': 'int1', 't2': 'int1', 't3': 'int2', 't4': 'int2'}, None),
    ({'t1': 'int1', 't2': None, 't3': 'int2', 't4': 'proj'}, None),
    ({'t1': 'int1', 't2': 'api1', 't3': 'int2', 't4': 'mindsdb'}, True),
]
_CFGS = [(model.Cfg(places=p, always_alias=False, correlated=False, window=False, qualifier_spelling=sp,
                    qualified_columns=True, limit_needs_total_order=False), p, api)
         for p, api in MODEL_CFGS for sp in (spell, None)]


@st.composite
def cases(draw):
    mode = draw(st.sampled_from(['plan', 'plan', 'plan', 'prepared']))
    # projects that the catalog lists among the data integrations as well (a fourth of the cases)
    also = draw(st.sampled_from([None] * 9 + ['proj', 'mindsdb', 'mindsdb+proj']))
    if draw(st.integers(0, 3)) > 0:
        c = draw(routing.statements())
        c['mode'] = mode
        if also:
            c['catalog']['also'] = also
            c['meta']['tags'] = sorted(c['meta']['tags'] + ['cat:also'])
        return c
    i = draw(st.integers(0, len(_CFGS) - 1))
    cfg, places, api = _CFGS[i]
    c = draw(model.queries(cfg))
    spec = draw(routing.catalogs())
    if api:
        spec['api'], spec['enc'] = True, 'dicts'
    if None in places.values() and spec['dn'] is None:
        spec['dn'] = 'mindsdb'
    if also:
        spec['also'] = also
    return {'sql': c['sql'], 'catalog': spec, 'mode': mode,
            'meta': {'tags': ['gmodel'] + (['cat:also'] if also else [])
                     + [t for t in c['meta']['tags'] if t.startswith(('sub:', 'cte', 'setop', 'join:', 'case'))]}}


def run_shard(col, k, nshards, tier, seed):
    fixed = c10_shapes.fixed_cases()
    for i, c in enumerate(fixed):
        if i % nshards == k:
            for rec in judge(c, col):
                col.fail(rec, c)
    col.exhaustive_parts.append(f'{len(fixed)} statements of vf/gens/c10_shapes.py: shapes (catalog forms, schema.table '
                                f'named like a model, one-part name like a database, CTE named like a model, sub-selects of a '
                                f'time-series join, equally named tables of two places, dbt shape without a database in '
                                f'the target and with one around an inner table without; one-project statements x catalogs '
                                f'listing the project also as data integration; clauses around a native query; UPDATE with '
                                f'conditions of its own) x default namespace x catalog form x spelling')
    hyp.explore(col, cases(), judge, N[tier], seed, shrink_key=lambda r: (r['kind'], r['site'][:40]))
