"""C20 — calls are isolated: same input, same result, whatever ran before or alongside.

Three sub-checks over one finite corpus of calls  parse(sql, dialect) / plan(sql, catalog) / render(sql, dialect, target):

(a) schedule  T threads, each running a drawn sequence of calls, in three sharing modes (nothing shared / shared
              catalog objects / shared SqlalchemyRender instances), under two kinds of switching:
              free   - threads released on a barrier with sys.setswitchinterval(1e-6) (the interpreter decides);
              forced - a token-passing scheduler driven by sys.settrace: exactly one thread runs, and at drawn line
                       boundaries *inside the library's own files* it hands over to the thread the case names
                       (deterministic interleaving, fully determined by the case, hence replayable and shrinkable);
(b) history   one drawn sequence of calls in one process that re-uses the same catalog objects and renderer instances;
(c) hashseed  every call of the corpus evaluated in sub-processes with PYTHONHASHSEED in {0, 1, 2, 3, random}.

The oracle is the same everywhere: the result of a call (O-struct image of the tree / of the plan's step list, the
rendered text, or exception type + message) must equal the *baseline* = the result of the same call executed as the
very first call of a pristine process (forked from a process that has only imported the library).

Every schedule and every history runs in its own forked child of a process that never calls the library itself, so
that a case fully determines its verdict (up to the free-running thread schedule, which the harness does not own).
"""
import hashlib, json, os, pickle, re, select, shutil, signal, subprocess, sys, tempfile, threading, time, traceback
from hypothesis import strategies as st

from vf import findings, hyp, lib
from vf.gens import corpus
from vf.oracles.struct import struct, diff

PROPERTY = 'C20'
RULE = ('cases over a fixed corpus of calls (parse of harvested accepted / rejected statements and of truncated '
        'statements; plan of harvested mindsdb statements and of hand-written predictor / CTE / join / DML queries '
        'under 4 catalog shapes; parse of the production-pair sentences of the live grammars; printing (str) of the trees of harvested statements and of '
        'statements full of names that need back-quotes; render of harvested statements and of '
        'hand-written statements with target-specific literals to 7 target names and 6 dialect classes given instead of a name; quick = a fixed sub-sample, thorough = '
        'all): (a) schedule = 2/3/4/8 threads x drawn call sequences x sharing mode {none, catalog, render} x '
        'switching {free-running with 1 us switch interval, forced hand-over at drawn line boundaries inside the '
        'library}, (b) history = drawn sequence of 5..30 calls re-using catalog and renderer objects (incl. one predictor-metadata object planned under two predictor namespaces), (c) hashseed = '
        'every corpus call under PYTHONHASHSEED 0,1,2,3,random (each sub-process also runs the whole corpus as one '
        'long history); every result is compared with the result of the same call run first in a pristine forked '
        'process; non-trivial = (a) every thread saw another thread complete a call during one of its own calls, '
        '(b) a failing call is followed by a succeeding one, (c) the result is an error message with a suggestion '
        'list; distinct by the whole case')
ASSUMPTIONS = ['free-running schedules: the harness does not own the GIL; a 1 us switch interval and many schedules '
               'explore many interleavings, a race that needs one specific switch point may be missed',
               'forced schedules switch only at line boundaries of code in mindsdb_sql/ and sly/ (never inside '
               'SQLAlchemy or the standard library, never inside the two callbacks SQLAlchemy invokes); such a switch '
               'is a legal interleaving of Python threads even where CPython 3.12 happens not to check its eval '
               'breaker',
               'trees handed to plan_query / SqlalchemyRender are parsed freshly for each call (mutation of the input '
               'tree is not the subject of this property)',
               'the pristine baseline process has imported mindsdb_sql, its three parsers, the planner and the '
               'renderer but has never called them',
               'object addresses (0x...) in exception messages are masked before comparison',
               'a change of the caller\'s catalog / renderer objects is counted (classes *:changed:*) but is a failure '
               'only if some later result differs from the pristine baseline, as the property states']
FLOORS = {'quick': {'__nontrivial__': 500, 'schedule:call-overlapped': 2000, 'schedule:mode:catalog': 150,
                    'schedule:mode:render': 150, 'schedule:mode:none': 150, 'schedule:switching:free': 250,
                    'schedule:switching:forced': 200, 'schedule:forced-switches-x100': 1000,
                    'history:fail-then-ok': 150, 'history:step': 3000, 'history:twin-catalog-pair': 40,
                    'hashseed:suggestion-message': 300, 'hashseed:call': 2500},
          'thorough': {'__nontrivial__': 5000, 'schedule:call-overlapped': 20000, 'schedule:switching:free': 2500,
                       'schedule:switching:forced': 2000, 'history:fail-then-ok': 1500, 'history:step': 30000,
                       'hashseed:suggestion-message': 1000, 'hashseed:call': 6000}}
N = {'quick': 120, 'thorough': 2000}
TARGETS = ('mysql', 'postgres', 'sqlite', 'mssql', 'oracle', 'Snowflake', 'postgresql')
# the renderer also takes a dialect class instead of a name: the class objects are shared by the whole process
CLASS_TARGETS = ('class:mysql.dialect', 'class:mysql.pymysql', 'class:mssql.dialect', 'class:postgresql.dialect',
                 'class:sqlite.dialect', 'class:oracle.dialect')
HASHSEEDS = ('0', '1', '2', '3', 'random')


def _make_renderer(target):
    from mindsdb_sql.render.sqlalchemy_render import SqlalchemyRender
    if not target.startswith('class:'):
        return SqlalchemyRender(target)
    import importlib
    pkg, name = target[len('class:'):].split('.')
    if name == 'dialect':
        cls = importlib.import_module('sqlalchemy.dialects.' + pkg).dialect
    else:
        mod = importlib.import_module(f'sqlalchemy.dialects.{pkg}.{name}')
        cls = mod.dialect
    return SqlalchemyRender(cls)
MODES = ('none', 'catalog', 'render')
CHILD_TIMEOUT_S = 300          # safety net only (deadlocked child); hitting it is a harness error


# --------------------------------------------------------------------------------------------- catalogs

def _ts(name, ns=None):
    d = {'name': name, 'timeseries': True, 'order_by_column': 'pickup_hour', 'group_by_columns': ['day', 'type'],
         'window': 10}
    if ns:
        d['integration_name'] = ns
    return d


def _preds(with_ns=True):
    def p(name, ns, **kw):
        d = {'name': name}
        if with_ns:
            d['integration_name'] = ns
        d.update(kw)
        return d
    out = [p('pred', 'mindsdb'), _ts('tp3', 'mindsdb' if with_ns else None)]
    if with_ns:
        out += [p('pred', 'proj', to_predict=['y']), p('pred2', 'proj'), _ts('tsm', 'proj')]
    else:
        out += [p('pred2', 'mindsdb', to_predict=['y'])]
    return out


CATALOGS = {
    'names': lambda: dict(integrations=['int', 'int1', 'int2', 'mysql', 'pg', 'files'], default_namespace='mindsdb',
                          predictor_metadata=_preds()),
    'dicts': lambda: dict(integrations=[{'name': 'int1', 'class_type': 'sql', 'type': 'data'},
                                        {'name': 'int2', 'class_type': 'sql', 'type': 'data'},
                                        {'name': 'int', 'class_type': 'api', 'type': 'data'},
                                        {'name': 'proj', 'class_type': 'project', 'type': 'project'}],
                          default_namespace='mindsdb', predictor_metadata=_preds()),
    'legacy': lambda: dict(integrations=['int', 'int1', 'int2'], predictor_namespace='mindsdb',
                           default_namespace='mindsdb',
                           predictor_metadata={'pred': {}, 'pred2': {'to_predict': ['y']},
                                               'tp3': {k: v for k, v in _ts('tp3').items() if k != 'name'}}),
    'default-int1': lambda: dict(integrations=['int', 'int1', 'int2'], default_namespace='int1',
                                 predictor_metadata=_preds(with_ns=False)),
    # twins: the same metadata (entries without a project of their own) under another predictor namespace; a shared
    # Env hands the twin the very same metadata object as its base (a caller that keeps one model list and plans for two projects)
    'default-int1@proj': lambda: dict(integrations=['int', 'int1', 'int2'], default_namespace='int1', predictor_namespace='proj',
                                      predictor_metadata=_preds(with_ns=False)),
    'legacy@proj': lambda: dict(integrations=['int', 'int1', 'int2'], predictor_namespace='proj',
                                default_namespace='mindsdb',
                                predictor_metadata={'pred': {}, 'pred2': {'to_predict': ['y']},
                                                    'tp3': {k: v for k, v in _ts('tp3').items() if k != 'name'}}),
}
TWINS = {'default-int1@proj': 'default-int1', 'legacy@proj': 'legacy'}
GROUPS = {}
for _t, _b in TWINS.items():
    GROUPS[_t] = GROUPS[_b] = [_b, _t]

PLAN_SQL = [
    # plain fetches, default namespace, CTEs whose names are also table names elsewhere in the corpus
    'select * from int1.t1',
    'select a, b from int1.t1 where a = 1 limit 5',
    'select * from t1',
    'select * from t2 where a > 1',
    'select * from c',
    'with t2 as (select a from int1.t1) select * from t2',
    'with t1 as (select a from int1.t2 where a > 1) select a from t1 where a < 5',
    'with c as (select a from int1.t1) select * from c',
    'with c as (select a from int2.t3) select c.a from c join int1.t1 t on t.a = c.a',
    'select * from int1.t1 t join int2.t3 u on t.a = u.a',
    'select t.a, u.b from int1.t1 t left join int2.t3 u on t.a = u.a where t.c = 2 and u.d = 3 limit 4',
    'select * from int1.t1 where a in (select b from int2.t3)',
    'select * from int1.t1 union select * from int2.t3',
    'select * from (select a from int1.t1) s where s.a = 1',
    'select x from int.tab1 order by x',
    # predictors: versions, spellings, namespaces
    'select * from int1.t1 t join proj.pred m',
    'select * from int1.t1 t join proj.pred.3 m',
    'select * from int1.t1 t join proj.PRED m',
    'select * from int1.t1 t join proj.Pred.7 m where m.a = 1',
    'select * from int1.t1 t join proj.pred m join proj.pred2 n where m.a = 1 and n.b = 2',
    'select * from int1.t1 t join proj.pred m where t.b = 2 using partition_size=5',
    'select * from int1.t1 t join mindsdb.pred m',
    'select * from int1.t1 t join mindsdb.pred.5 m',
    'select * from int1.t1 t join mindsdb.PRED m where t.a = 1',
    'select * from int1.t1 t join pred m',
    'select * from int1.t1 t join pred.2 m',
    'select * from int1.t1 t join PRED2 m',
    'select * from int1.t1 t join pred2.9 m where m.y = 1',
    'select * from proj.pred where a = 1',
    'select * from proj.pred.3 where a = 1',
    'select * from proj.PRED.12 where a = 1 and b = 2',
    'select * from proj.pred.4 where a = 1',
    'select * from proj.Pred where a = 1',
    'select * from int1.t1 t join proj.pred.4 m',
    'select * from mindsdb.pred.5 where x = 1',
    'select * from mindsdb.pred where x = 1',
    'select * from mindsdb.pred.4 where x = 1',
    'select * from mindsdb.PRED where x = 1 and z = 2',
    'select * from pred where x = 1',
    'select * from pred.8 where x = 1',
    'select * from Pred2 where x in (1, 2)',
    'select * from pred where x in (select a from int1.t1)',
    # time series
    "select * from int1.t1 ta join mindsdb.tp3 tb where ta.pickup_hour > 10 and ta.day = 1 and ta.type = 'x'",
    "select * from int1.t1 ta join mindsdb.tp3.2 tb where ta.pickup_hour > latest and ta.day = 1",
    "select * from int1.t1 ta join mindsdb.TP3 tb where ta.pickup_hour between 1 and 5 and ta.day = 1",
    'select * from int1.t1 ta join proj.tsm tb where ta.pickup_hour > latest',
    'select * from int1.t1 ta join tp3 tb where ta.pickup_hour > 3',
    # DML
    'insert into int1.t2 select * from int2.t3',
    'insert into int1.t2 (a, b) values (1, 2)',
    'update int1.t1 set a = 1 where b = 2',
    'update int1.t1 set a = df.a from (select * from int2.t3) as df where t1.b = df.b',
    'delete from int1.t1 where a = 1',
    'delete from int1.t1 where a in (select a from int2.t3)',
    'create table int1.t9 (select * from int2.t3)',
    'create or replace table int1.t9 (select * from int1.t1 t join proj.pred m)',
    # refused / failing in the planner
    'select * from nosuch.t1',
    'select * from proj.pred m join int1.t1 t',
    'select * from int1.t1 ta join mindsdb.tp3 tb',
    'select * from int1.t1 ta join mindsdb.tp3 tb where ta.pickup_hour > 10 or ta.day = 1',
    'select * from proj.pred',
    'select * from proj.pred.3',
    'select * from int1.t1 t join nosuch.pred m',
    'select * from int1.t1 t full join proj.pred m on t.a = m.a',
]

RENDER_SQL = [
    'select 1',
    "select a, 'x''y' as s from t1 where b like '%z%' and c is not null order by a desc limit 3",
    'select cast(a as int), cast(b as float8), cast(c as varchar) from t1',
    'select cast(a as nosuchtype) from t1',
    'select cast(a as bool), cast(b as boolean), cast(c as text), cast(d as date) from t1',
    'select t1.a, count(*) c from t1 left join t2 on t1.a = t2.a group by t1.a having count(*) > 1',
    'select * from t1 where a in (select b from t2) union all select * from t3',
    'with c as (select a from t1) select * from c',
    'select case when a > 1 then 2 else 3 end x, a between 1 and 2, -a, not a from t1',
    "select interval '1 day', current_date, last from t1",
    "insert into t1 (a, b) values (1, 'x'), (2, null)",
    'update t1 set a = 1, b = b + 1 where c = 2',
    'delete from t1 where a = 1',
    'create table t9 (a int, b varchar, c serial)',
    'create table t9 (a nosuchtype)',
    'drop table if exists t9',
    'select a as `x y`.z from t1',
    'show tables',
    'create model m predict y',
    # literals whose spelling differs between targets (backslashes, quotes, percent signs)
    "select 'C:\\\\temp\\\\x' as p from t1 where b = 'it''s'",
    "insert into t1 (a, b) values ('a\\\\b', '100%')",
    "select * from t1 where a like 'x\\\\_%' and b in ('q\\\\', 'r')",
]
RENDER_SET = set(RENDER_SQL)
# names that have to be printed in back-quotes (reserved words, blanks): printing consults tables built on first use
PRINT_SQL = [
    'select `select`, `from`, t.`where` from `model` where `id` = 1',
    'select `a b`, `order`.`by` from `group` as `limit`',
    'insert into `table` (`values`, `into`) values (1, 2)',
    'update `set` set `update` = 1 where `where` = 2',
    'select * from `join` join `on` on `join`.`left` = `on`.`right`',
    'delete from `from` where `delete` = 1',
    'select `case`, `when`, `then`, `else`, `end` from `union`',
]
PRINT_SET = set(PRINT_SQL)


# --------------------------------------------------------------------------------------------- calls and results

def key_of(call):
    return json.dumps(call, sort_keys=True, ensure_ascii=True)


def _norm_msg(s):
    return re.sub(r'0x[0-9a-fA-F]+', '0x?', s)


class Env:
    """Where a call takes its catalog and renderer objects from: fresh per call, or one shared set."""

    def __init__(self, share_catalog=False, share_render=False):
        self.cat = {n: f() for n, f in CATALOGS.items()} if share_catalog else None
        if self.cat is not None:
            for t, b in TWINS.items():
                self.cat[t]['predictor_metadata'] = self.cat[b]['predictor_metadata']
                self.cat[t]['integrations'] = self.cat[b]['integrations']
        self.ren = None
        if share_render:
            self.ren = {t: _make_renderer(t) for t in TARGETS + CLASS_TARGETS}

    def catalog(self, name):
        return self.cat[name] if self.cat is not None else CATALOGS[name]()

    def renderer(self, target):
        if self.ren is not None:
            return self.ren[target]
        return _make_renderer(target)

    def catalog_image(self):
        return {n: struct(c) for n, c in self.cat.items()} if self.cat is not None else {}

    def renderer_image(self):
        if self.ren is None:
            return {}
        out = {}
        prim = (str, int, bool, float, type(None))
        for t, r in self.ren.items():
            dv = {k: v for k, v in sorted(vars(r.dialect).items())
                  if isinstance(v, prim) or (isinstance(v, tuple) and all(isinstance(x, prim) for x in v))}
            out[t] = struct({'types_map': {k: getattr(v, '__name__', repr(v)) for k, v in r.types_map.items()},
                             'dialect_class': type(r.dialect).__name__, 'dialect': dv,
                             'fields': sorted(vars(r))})
        return out


def run_call(call, env):
    """Execute one call; the result is a comparable value: ('tree'|'plan', image) | ('text', str) | ('exc', type, msg)."""
    from mindsdb_sql import parse_sql
    op = call['op']
    if op not in ('parse', 'plan', 'render', 'print'):
        raise ChildError('unknown op ' + str(op))
    try:
        if op == 'parse':
            return ('tree', struct(parse_sql(call['sql'], call['dialect'])))
        if op == 'print':
            # the tree's own rendering (what SqlalchemyRender falls back to, what planner messages quote)
            return ('text', str(parse_sql(call['sql'], call['dialect'])))
        if op == 'plan':
            from mindsdb_sql.planner import plan_query
            tree = parse_sql(call['sql'], 'mindsdb')
            plan = plan_query(tree, **env.catalog(call['catalog']))
            return ('plan', struct(plan.steps))
        tree = parse_sql(call['sql'], call['dialect'])
        r = env.renderer(call['target'])
        return ('text', r.get_string(tree, with_failback=bool(call.get('failback', True))))
    except Exception as e:
        # 4th element (not compared): was the exception raised while ErrorHandling was trying out suggestions?
        names = {fr.name for fr in traceback.extract_tb(e.__traceback__)}
        return ('exc', type(e).__name__, _norm_msg(str(e)), 'make_suggestion' if 'make_suggestion' in names else '')


def same(a, b):
    return tuple(a[:3]) == tuple(b[:3])


def digest(res):
    """Compact, process-independent form of a result (used between processes with different hash seeds)."""
    if res[0] in ('tree', 'plan'):
        return [res[0], hashlib.sha1(repr(res[1]).encode('utf-8', 'surrogatepass')).hexdigest()]
    return list(res)


def tag_of(res):
    return res[0] if res[0] != 'exc' else 'exc:' + res[1]


# --------------------------------------------------------------------------------------------- forked execution

class ChildError(RuntimeError):
    pass


def _in_child(fn, args):
    """fork; run fn(*args) in the child; return its (pickled) value.  The caller's process never runs fn itself."""
    r, w = os.pipe()
    sys.stdout.flush(); sys.stderr.flush()
    pid = os.fork()
    if pid == 0:
        code = 0
        try:
            os.close(r)
            try:
                payload = ('ok', fn(*args))
            except BaseException as e:
                payload = ('err', ''.join(traceback.format_exception(type(e), e, e.__traceback__))[-3000:])
            data = pickle.dumps(payload, protocol=pickle.HIGHEST_PROTOCOL)
            with os.fdopen(w, 'wb') as f:
                f.write(data)
        except BaseException:
            code = 3
        finally:
            os._exit(code)
    os.close(w)
    chunks = []
    try:
        while True:
            ready, _, _ = select.select([r], [], [], CHILD_TIMEOUT_S)
            if not ready:
                os.kill(pid, signal.SIGKILL)
                os.waitpid(pid, 0)
                raise ChildError(f'child did not finish within {CHILD_TIMEOUT_S}s (deadlock?)')
            b = os.read(r, 1 << 20)
            if not b:
                break
            chunks.append(b)
    finally:
        os.close(r)
    os.waitpid(pid, 0)
    if not chunks:
        raise ChildError('child died without a result')
    status, val = pickle.loads(b''.join(chunks))
    if status != 'ok':
        raise ChildError('child failed: ' + val)
    return val


def _first_call(call):
    return run_call(call, Env())


def _slice_baselines(calls):
    # runs in a dispatcher forked from the pristine parent; every call in its own grandchild
    return [_in_child(_first_call, (c,)) for c in calls]


_BASE = {}            # key -> baseline result
_PRISTINE_PID = None  # the process (and its forks that never call the library) that may fork pristine children


def _assert_pristine():
    # every process that forks baseline children descends from prepare()'s process without having called the library
    if _PRISTINE_PID is None:
        raise ChildError('prepare() has not run')


def baseline(call):
    k = key_of(call)
    if k not in _BASE:
        _assert_pristine()
        _BASE[k] = _in_child(_first_call, (call,))
    return _BASE[k]


def _precompute(calls, width):
    """Baselines of all corpus calls: `width` dispatchers forked from the pristine parent, each forks one child per call."""
    todo = [c for c in calls if key_of(c) not in _BASE]
    slices = [todo[i::width] for i in range(width)]
    procs = []
    for sl in slices:
        if not sl:
            continue
        r, w = os.pipe()
        pid = os.fork()
        if pid == 0:
            code = 0
            try:
                os.close(r)
                try:
                    payload = ('ok', _slice_baselines(sl))
                except BaseException as e:
                    payload = ('err', ''.join(traceback.format_exception(type(e), e, e.__traceback__))[-3000:])
                with os.fdopen(w, 'wb') as f:
                    f.write(pickle.dumps(payload, protocol=pickle.HIGHEST_PROTOCOL))
            except BaseException:
                code = 3
            finally:
                os._exit(code)
        os.close(w)
        procs.append((pid, r, sl))
    for pid, r, sl in procs:
        with os.fdopen(r, 'rb') as f:
            data = f.read()
        os.waitpid(pid, 0)
        status, val = pickle.loads(data) if data else ('err', 'dispatcher died')
        if status != 'ok':
            raise ChildError('baseline dispatcher failed: ' + str(val))
        for c, res in zip(sl, val):
            _BASE[key_of(c)] = res


# --------------------------------------------------------------------------------------------- the call corpus

_CALLS = []           # every call of the corpus, fixed order
_POOL = {}            # class -> list of calls (built from the baselines)
_HS = {}              # key -> {hashseed: digest}    (sub-check c)
_HS_FILE = None
_NOTES = []


def _truncations(sql):
    toks = sql.split()
    n = len(toks)
    cuts = sorted({1, 2, 3, n // 2, n - 1} - {0, n})
    return [' '.join(toks[:c]) for c in cuts if 0 < c < n]


ERR_HEADS = ['select * from t', 'create ml_engine e from h', 'create model m predict y', 'retrain m',
             'create database d with engine = "pg"', 'create agent a', 'select a from t join u', 'finetune m from d (select 1)',
             'create model m from d (select 1) predict y', 'evaluate acc from (select 1)']
ERR_TAILS = ['using a=1 b=2', 'using a=1, b=2 c', 'using a = {"x": 1} y', 'using a=1 select', 'using a=1 ( b']


def build_calls(tier):
    calls, seen = [], set()

    def add(c):
        k = key_of(c)
        if k not in seen:
            seen.add(k)
            calls.append(c)

    acc, rej = corpus.accepted(), corpus.rejected()
    full = tier == 'thorough'
    # quick: every rejected statement, every 2nd accepted one, truncations of every 4th; thorough: everything
    for x in rej:
        add({'op': 'parse', 'sql': x['sql'], 'dialect': x['dialect']})
    for i, x in enumerate(acc):
        if full or i % 2 == 0:
            add({'op': 'parse', 'sql': x['sql'], 'dialect': x['dialect']})
        if (full or i % 4 == 1) and len(x['sql']) < 400:
            for t in _truncations(x['sql']):
                add({'op': 'parse', 'sql': t, 'dialect': x['dialect']})
    for bad in ["select 'abc", 'select a from', 'select a b c d from', 'create model m predict', 'drop x', '',
                'select * from t where', 'select $$$', 'select a from t1 join', 'select * from t1 order', 'insert into']:
        for d in corpus.DIALECTS:
            add({'op': 'parse', 'sql': bad, 'dialect': d})
    # the same erroneous tail in different statement contexts: the LALR parser reaches one and the same state for all
    # of them, while what is acceptable next depends on the statement (sensitive to anything remembered per state)
    for head in ERR_HEADS:
        for tail in ERR_TAILS:
            add({'op': 'parse', 'sql': head + ' ' + tail, 'dialect': 'mindsdb', 'family': 'err-tail'})
    # production-pair sentences of the live grammars (every production, every alternative of its nonterminals, names
    # all different): messages of the grammar actions that refuse a statement are reached here
    from vf.gens import grammar
    for d in corpus.DIALECTS:
        for i, (_, toks) in enumerate(grammar.get(d).pair_sentences()):
            if full or i % 5 == 0:
                add({'op': 'parse', 'sql': ' '.join(toks), 'dialect': d, 'family': 'pairs'})
    names = sorted(CATALOGS)
    for i, x in enumerate(corpus.accepted('mindsdb')):
        if full:
            add({'op': 'plan', 'sql': x['sql'], 'catalog': 'names'})
        if full or i % 2 == 1:
            add({'op': 'plan', 'sql': x['sql'], 'catalog': names[(i // 2) % len(names)]})
    for q in PLAN_SQL:
        for n in names:
            add({'op': 'plan', 'sql': q, 'catalog': n})
    for i, x in enumerate(acc):
        if full or i % 3 == 0:
            add({'op': 'render', 'sql': x['sql'], 'dialect': x['dialect'], 'target': TARGETS[(i // 3) % len(TARGETS)]})
    for i, x in enumerate(acc):
        if full or i % 3 == 1:
            add({'op': 'print', 'sql': x['sql'], 'dialect': x['dialect']})
    for q in PRINT_SQL:
        for d in corpus.DIALECTS:
            add({'op': 'print', 'sql': q, 'dialect': d})
    for q in RENDER_SQL:
        for t in TARGETS:
            add({'op': 'render', 'sql': q, 'dialect': 'mindsdb', 'target': t})
            add({'op': 'render', 'sql': q, 'dialect': 'mindsdb', 'target': t, 'failback': False})
        for t in CLASS_TARGETS:
            add({'op': 'render', 'sql': q, 'dialect': 'mindsdb', 'target': t})
    return calls


def has_suggestions(res):
    return res[0] == 'exc' and ('Possible inputs: ' in res[2] or 'Expected symbol: ' in res[2])


def call_class(call, res):
    op = call['op']
    ok = res[0] != 'exc'
    if call.get('family') == 'err-tail':
        return 'parse-err-tail'
    if call.get('family') == 'pairs':
        return 'parse-pairs'          # only for the hash-seed sub-check and the baselines: kept out of the drawn pools
    if op == 'parse':
        return 'parse-ok' if ok else ('parse-fail-suggest' if has_suggestions(res) else 'parse-fail')
    if op == 'plan':
        if call['sql'] in _PLAN_SET:
            # conflict groups: calls that name the same CTE / table or the same predictor under other spellings
            if re.search(r'^with | from (t1|t2|c)\b', call['sql']):
                return 'plan-cte:' + call['catalog']
            if _PRED_RE.search(call['sql']):
                return 'plan-pred:' + call['catalog']
            return 'plan-hand:' + call['catalog']
        return 'plan-ok' if ok else 'plan-fail'
    if op == 'print':
        return 'print-hand' if call['sql'] in PRINT_SET else 'print-ok'
    if call['sql'] in RENDER_SET:
        return 'render-hand'         # one statement for every target: whatever is remembered per compiler class shows
    return 'render-ok' if ok else 'render-fail'


_PLAN_SET = set(PLAN_SQL)
_PRED_RE = re.compile(r'\bpred2?\b|\btp3\b|\btsm\b', re.I)


def prepare(tier):
    global _PRISTINE_PID, _HS_FILE
    # import everything a call needs -- and call nothing
    import mindsdb_sql.planner  # noqa
    import mindsdb_sql.render.sqlalchemy_render  # noqa
    import mindsdb_sql.parser.lexer, mindsdb_sql.parser.parser  # noqa
    import mindsdb_sql.parser.dialects.mysql.lexer, mindsdb_sql.parser.dialects.mysql.parser  # noqa
    import mindsdb_sql.parser.dialects.mindsdb.lexer, mindsdb_sql.parser.dialects.mindsdb.parser  # noqa
    _PRISTINE_PID = os.getpid()
    if not _CALLS:
        _CALLS.extend(build_calls(tier))
    width = max(1, min(16, int(os.environ.get('VERIF_SHARDS', '16') or 16)))
    t0 = time.monotonic()
    _precompute(_CALLS, width)
    _NOTES.append(f'baselines: {len(_CALLS)} calls, each first in its own pristine fork, {time.monotonic() - t0:.1f}s')
    _POOL.clear()
    for c in _CALLS:
        _POOL.setdefault(call_class(c, _BASE[key_of(c)]), []).append(c)
    d = tempfile.mkdtemp(prefix='vf-c20-')
    _HS_FILE = os.path.join(d, 'hashseed.json')
    import atexit
    atexit.register(_cleanup, os.getpid(), d)


def _cleanup(pid, d):
    if os.getpid() == pid:
        shutil.rmtree(d, ignore_errors=True)


# --------------------------------------------------------------------------------------------- (a) schedules

FINE_FILES = {
    'planner': ('/mindsdb_sql/planner/',),
    'render': ('/mindsdb_sql/render/',),
    'entry': ('/mindsdb_sql/__init__.py',),
    'ast': ('/mindsdb_sql/parser/ast/', '/mindsdb_sql/parser/utils.py'),
    'parser': ('/mindsdb_sql/__init__.py', '/mindsdb_sql/parser/', '/sly/'),
    'none': (),
}
# library functions that SQLAlchemy calls back while it may hold its own locks: never a switch point
NO_SWITCH_FUNCS = {'render_literal_value', '_compile_interval'}


class Forced:
    """Deterministic interleaving: exactly one worker thread holds the token; at chosen *line boundaries inside the
    library's own files* (sys.settrace) the holder hands the token to the thread the drawn `order` names and blocks.
    Switch points: every `fine_strides[i]`-th line in the files of the `fine` group, every `coarse_strides[i]`-th
    line in the other library files.  The interleaving is a function of the case alone."""

    def __init__(self, T, spec):
        self.T = T
        self.order = list(spec.get('order') or [1])
        self.oi = 0
        self.fine = tuple(os.path.realpath(lib.REPO) + x for x in FINE_FILES[spec.get('fine', 'none')])
        self.root = (os.path.join(os.path.realpath(lib.REPO), 'mindsdb_sql') + os.sep,
                     os.path.join(os.path.realpath(lib.REPO), 'sly') + os.sep)
        self.fs = list(spec.get('fine_strides') or [1])
        self.cs = list(spec.get('coarse_strides') or [500])
        self.sems = [threading.Semaphore(0) for _ in range(T)]
        self.alive = [True] * T
        self.fi = [0] * T
        self.ci = [0] * T
        self.fleft = [self.fs[0]] * T
        self.cleft = [self.cs[0]] * T
        self.switches = 0
        self.stuck = False
        self.tls = threading.local()
        self.kinds = {}
        self.fine_local = [self._local(k, True) for k in range(T)]
        self.coarse_local = [self._local(k, False) for k in range(T)]

    def _pick(self, me=0):
        # the next token holder: `order[i]` places after `me` among the threads still running (0 = keep running)
        alive = [k for k in range(self.T) if self.alive[k] or k == me]
        if not [k for k in alive if self.alive[k]]:
            return None
        d = self.order[self.oi % len(self.order)]
        self.oi += 1
        nxt = alive[(alive.index(me) + d) % len(alive)] if me in alive else alive[d % len(alive)]
        if not self.alive[nxt]:         # `me` has finished and was picked: take its successor
            nxt = alive[(alive.index(nxt) + 1) % len(alive)]
        return nxt

    def _yield(self, me):
        nxt = self._pick(me)
        if nxt is not None and nxt != me:
            self.switches += 1
            self.sems[nxt].release()
            if not self.sems[me].acquire(timeout=60):
                self.stuck = True       # the token holder blocks on something this thread owns: harness error

    def _local(self, k, fine):
        def local(frame, event, arg):
            if event == 'line':
                if fine:
                    self.fleft[k] -= 1
                    if self.fleft[k] <= 0:
                        self.fi[k] += 1
                        self.fleft[k] = self.fs[self.fi[k] % len(self.fs)]
                        self._yield(k)
                else:
                    self.cleft[k] -= 1
                    if self.cleft[k] <= 0:
                        self.ci[k] += 1
                        self.cleft[k] = self.cs[self.ci[k] % len(self.cs)]
                        self._yield(k)
            return local
        return local

    def trace(self, frame, event, arg):
        if event != 'call':
            return None
        code = frame.f_code
        kind = self.kinds.get(code)
        if kind is None:
            fn = code.co_filename
            if not fn.startswith(self.root) or code.co_name in NO_SWITCH_FUNCS:
                kind = 0
            else:
                fn = os.path.realpath(fn)
                kind = 2 if any(fn.startswith(x) for x in self.fine) else 1
            self.kinds[code] = kind
        if kind == 0:
            return None
        k = getattr(self.tls, 'k', None)
        if k is None:
            return None
        return self.fine_local[k] if kind == 2 else self.coarse_local[k]

    # worker protocol
    def enter(self, k):
        self.tls.k = k
        self.sems[k].acquire()

    def leave(self, k):
        self.tls.k = None
        self.alive[k] = False
        nxt = self._pick(k)
        if nxt is not None:
            self.sems[nxt].release()

    def go(self):
        self.sems[0].release()


def _run_schedule(case):
    """In a forked child: run the threads, return per call (thread, pos, result-equal?, overlapped?, got)."""
    mode = case['mode']
    threads = case['threads']
    env = Env(share_catalog=(mode == 'catalog'), share_render=(mode == 'render'))
    cat0, ren0 = env.catalog_image(), env.renderer_image()
    T = len(threads)
    forced = Forced(T, case['forced']) if case.get('forced') else None
    bar = threading.Barrier(T)
    done = [0] * T
    out = [None] * T

    def work(k):
        res = []
        if forced:
            forced.enter(k)
        else:
            bar.wait()
        try:
            for call in threads[k]:
                before = sum(done) - done[k]
                r = run_call(call, env)
                after = sum(done) - done[k]
                done[k] += 1
                res.append((r, after > before))
            out[k] = res
        finally:
            if forced:
                forced.leave(k)

    old = sys.getswitchinterval()
    if forced:
        threading.settrace(forced.trace)
    else:
        sys.setswitchinterval(1e-6)
    try:
        ths = [threading.Thread(target=work, args=(k,)) for k in range(T)]
        for t in ths:
            t.start()
        if forced:
            forced.go()
        for t in ths:
            t.join()
    finally:
        sys.setswitchinterval(old)
        threading.settrace(None)
    if forced and forced.stuck:
        raise RuntimeError('forced schedule: a thread waited 60 s for the token (lock held across a switch point?)')
    rows = []
    for k in range(T):
        if out[k] is None:
            raise RuntimeError(f'thread {k} died')
        for i, (r, ov) in enumerate(out[k]):
            b = _BASE[key_of(threads[k][i])]
            rows.append((k, i, same(r, b), ov, None if same(r, b) else r))
    cat1, ren1 = env.catalog_image(), env.renderer_image()
    changed = sorted('catalog:' + n for n in cat0 if cat0[n] != cat1[n]) + \
        sorted('renderer:' + n for n in ren0 if ren0[n] != ren1[n])
    return rows, changed, (forced.switches if forced else None)


def _where(call, base, got):
    """site + detail of a result mismatch."""
    op = call['op']
    if base[0] == 'exc' or got[0] == 'exc' or base[0] != got[0]:
        site = f'{op}:{tag_of(base)}->{tag_of(got)}'
        det = f'baseline {_short(base)}; got {_short(got)}'
    elif base[0] == 'text':
        site = f'{op}:text'
        det = f'baseline {base[1]!r}; got {got[1]!r}'
    else:
        d = diff(base[1], got[1])
        path = re.sub(r'\[\d+\]', '[]', d[0]) if d else '?'
        site = f'{op}:{base[0]}:{path}'
        det = f'at {d[0] if d else "?"}: baseline {d[1] if d else ""!r}; got {d[2] if d else ""!r}'
    return site, det


def _short(res, n=260):
    if res[0] in ('tree', 'plan'):
        return f'<{res[0]}>'
    s = repr(res)
    return s if len(s) <= n else s[:n] + '...'


def _call_feats(call):
    f = ['op:' + call['op']]
    if call['op'] == 'plan':
        f.append('catalog:' + call['catalog'])
        if _PRED_RE.search(call['sql']):
            f.append('plan:names-predictor')
    if call['op'] == 'render':
        f.append('target:' + call['target'])
    return f


def judge_schedule(case, col):
    threads = case['threads']
    for th in threads:
        for c in th:
            baseline(c)
    reps = int(case.get('reps', 1))
    out = []
    T = len(threads)
    ncalls = sum(len(t) for t in threads)
    all_overlap = True
    novl = nswitch = 0
    changed_all = set()
    sched = 'forced' if case.get('forced') else 'free'
    for _ in range(reps):
        rows, changed, switches = _in_child(_run_schedule, (case,))
        nswitch += switches or 0
        changed_all |= set(changed)
        per_thread = [False] * T
        for (k, i, eq, ov, got) in rows:
            if ov:
                per_thread[k] = True
                novl += 1
            if not eq and len(out) < 5:
                call = threads[k][i]
                site, det = _where(call, baseline(call), got)
                others = sorted({c2['op'] for k2, t2 in enumerate(threads) if k2 != k for c2 in t2})
                feats = ['mode:' + case['mode']] + _call_feats(call) + ['other-threads:' + '+'.join(others),
                                                                        'switching:' + sched]
                out.append(findings.record('schedule-result-differs', site, feats,
                                           {'mode': case['mode'], 'threads': T, 'switching': sched},
                                           f'thread {k} call {i} {key_of(call)[:200]}: {det}', key_of(call)))
        all_overlap = all_overlap and all(per_thread)
    classes = ['sub:schedule', 'schedule:mode:' + case['mode'], f'schedule:threads:{T}', 'schedule:switching:' + sched]
    if sched == 'forced':
        classes.append('schedule:forced:fine:' + case['forced'].get('fine', 'none'))
    classes += ['schedule:changed:' + c for c in sorted(changed_all)]
    if all_overlap:
        classes.append('schedule:every-thread-overlapped')
    col.case(('schedule', key_of(case)), all_overlap, classes,
             {'sub': 'schedule', 'mode': case['mode'], 'switching': sched, 'forced_switches': nswitch,
              'threads': T, 'calls': ncalls, 'overlapped_calls': novl,
              'first_thread': [c['op'] + ':' + c['sql'][:40] for c in threads[0]]})
    for _ in range(ncalls * reps):
        col.cls('schedule:call')
    for _ in range(novl):
        col.cls('schedule:call-overlapped')
    for _ in range(nswitch // 100):
        col.cls('schedule:forced-switches-x100')
    return out


# --------------------------------------------------------------------------------------------- (b) histories

def _run_history(case):
    env = Env(share_catalog=True, share_render=True)
    cat0, ren0 = env.catalog_image(), env.renderer_image()
    rows = []
    cat_changed_at = None
    for i, call in enumerate(case['calls']):
        r = run_call(call, env)
        b = _BASE[key_of(call)]
        rows.append((i, same(r, b), None if same(r, b) else r))
        if cat_changed_at is None and env.catalog_image() != cat0:
            cat_changed_at = i
    cat1, ren1 = env.catalog_image(), env.renderer_image()
    changed = sorted('catalog:' + n for n in cat0 if cat0[n] != cat1[n]) + \
        sorted('renderer:' + n for n in ren0 if ren0[n] != ren1[n])
    what = []
    for n in cat0:
        if cat0[n] != cat1[n]:
            d = diff(cat0[n], cat1[n])
            what.append(f'{n}: {d}')
    return rows, changed, cat_changed_at, what


def judge_history(case, col):
    calls = case['calls']
    for c in calls:
        baseline(c)
    rows, changed, cat_at, what = _in_child(_run_history, (case,))
    out = []
    oks = [baseline(c)[0] != 'exc' for c in calls]
    fail_then_ok = any((not oks[i]) and any(oks[i + 1:]) for i in range(len(calls)))
    for (i, same, got) in rows:
        if not same and len(out) < 5:
            call = calls[i]
            site, det = _where(call, baseline(call), got)
            feats = _call_feats(call) + ['after:' + '+'.join(sorted({c['op'] for c in calls[:i]}) or ['nothing'])]
            if cat_at is not None and cat_at < i:
                feats.append('after-catalog-change')
            out.append(findings.record('history-result-differs', site, feats, {'mode': 'history'},
                                       f'step {i} {key_of(call)[:200]}: {det}; catalog changes: {what[:2]}',
                                       key_of(call)))
    classes = ['sub:history'] + ['history:changed:' + c for c in changed]
    cats = {c.get('catalog') for c in calls if c['op'] == 'plan'}
    if any(t in cats and b in cats for t, b in TWINS.items()):
        classes.append('history:twin-catalog-pair')     # one metadata object planned under two predictor namespaces
    if fail_then_ok:
        classes.append('history:fail-then-ok')
    if cat_at is not None:
        classes.append('history:catalog-changed')
        if cat_at < len(calls) - 1:
            classes.append('history:calls-after-catalog-change')
    col.case(('history', key_of(case)), fail_then_ok, classes,
             {'sub': 'history', 'steps': len(calls), 'catalog_changed_at': cat_at, 'changes': what[:3],
              'calls': [c['op'] + ':' + c['sql'][:40] for c in calls[:8]]})
    for _ in calls:
        col.cls('history:step')
    return out


# --------------------------------------------------------------------------------------------- (c) hash seeds

def _spawn_hashseed_workers(calls, workdir):
    """One fresh interpreter per hash seed over `calls`; returns {seed: [digest, ...]}."""
    inp = os.path.join(workdir, 'calls.json')
    with open(inp, 'w') as f:
        json.dump(calls, f)
    procs = []
    for s in HASHSEEDS:
        env = dict(os.environ)
        env['PYTHONHASHSEED'] = s
        env['PYTHONPATH'] = lib.VERIF + (os.pathsep + env['PYTHONPATH'] if env.get('PYTHONPATH') else '')
        env['VERIF_REPO'] = lib.REPO
        env['PYTHONWARNINGS'] = 'ignore'
        env['PYTHONDONTWRITEBYTECODE'] = '1'
        outp = os.path.join(workdir, f'out-{s}.json')
        p = subprocess.Popen(['/venv/bin/python', '-m', 'vf.props.c20', 'hashseed-worker', inp, outp],
                             env=env, cwd=lib.VERIF, stdout=subprocess.PIPE, stderr=subprocess.STDOUT)
        procs.append((s, p, outp))
    res = {}
    for s, p, outp in procs:
        try:
            so, _ = p.communicate(timeout=1800)
        except subprocess.TimeoutExpired:
            p.kill()
            raise ChildError(f'hash-seed worker {s} timed out')
        if p.returncode != 0:
            raise ChildError(f'hash-seed worker {s} failed rc={p.returncode}: {so.decode(errors="replace")[-1500:]}')
        with open(outp) as f:
            data = json.load(f)
        if data['repo'] != os.path.realpath(lib.REPO):
            raise ChildError(f"hash-seed worker imported the library from {data['repo']}")
        res[s] = data['results']
    return res


def hashseed_results(call):
    k = key_of(call)
    if k not in _HS and _HS_FILE and os.path.exists(_HS_FILE):
        with open(_HS_FILE) as f:
            _HS.update(json.load(f))
    if k not in _HS:
        d = tempfile.mkdtemp(prefix='vf-c20-hs-')
        try:
            res = _spawn_hashseed_workers([call], d)
        finally:
            shutil.rmtree(d, ignore_errors=True)
        _HS[k] = {s: res[s][0] for s in HASHSEEDS}
    return _HS[k]


_SUGG_RE = re.compile(r'^(?P<head>.*\n)(?P<prefix>Possible inputs: |Expected symbol: )(?P<items>.*)$', re.S)


def _split_suggestions(msg):
    m = _SUGG_RE.match(msg)
    if not m:
        return msg, None
    return m.group('head'), sorted(m.group('items').split(', '))


def judge_hashseed(case, col):
    call = case['call']
    base = digest(baseline(call))
    per = hashseed_results(call)
    out = []
    bad = [s for s in HASHSEEDS if not same(per[s], base)]
    classes = ['sub:hashseed', 'hashseed:' + call['op']]
    sugg = has_suggestions(baseline(call))
    if sugg:
        classes.append('hashseed:suggestion-message')
    if bad:
        got = list(per[bad[0]])
        feats = _call_feats(call) + ['seeds-differing:' + ('some' if len(bad) < len(HASHSEEDS) else 'all')]
        if base[0] == 'exc' and got[0] == 'exc' and base[1] == got[1]:
            variants = {per[s][2] for s in HASHSEEDS} | {base[2]}
            norm = {json.dumps(_split_suggestions(m)) for m in variants}
            if len(norm) == 1 and _split_suggestions(base[2])[1] is not None:
                feats.append('only-suggestion-order')
                site = f"{call['op']}:exc:{base[1]}:suggestion-list"
            else:
                site = f"{call['op']}:exc:{base[1]}:message"
                if all(len(per[s]) > 3 and per[s][3] == 'make_suggestion' for s in HASHSEEDS) and base[3:] == ['make_suggestion']:
                    feats.append('raised-in:make_suggestion')
            det = f'baseline message {base[2]!r}; PYTHONHASHSEED={bad[0]} gives {got[2]!r}'
        else:
            site = f"{call['op']}:{tag_of(base)}->{tag_of(got)}"
            det = f'baseline {_short(tuple(base))}; PYTHONHASHSEED={bad[0]} gives {_short(tuple(got))}'
        out.append(findings.record('hashseed-result-differs', site, feats, {'mode': 'hashseed'},
                                   f'{key_of(call)[:200]}: seeds {bad} differ from the baseline: {det}', key_of(call)))
    col.case(('hashseed', key_of(call)), sugg, classes,
             {'sub': 'hashseed', 'call': call, 'result': tag_of(baseline(call)), 'differing_seeds': bad})
    col.cls('hashseed:call')
    return out


def judge(case, col):
    sub = case['sub']
    if sub == 'schedule':
        return judge_schedule(case, col)
    if sub == 'history':
        return judge_history(case, col)
    if sub == 'hashseed':
        return judge_hashseed(case, col)
    raise RuntimeError('unknown sub-check ' + str(sub))


# --------------------------------------------------------------------------------------------- generation

W_NONE = ['parse-ok'] * 4 + ['parse-fail'] * 3 + ['parse-fail-suggest'] * 3 + [
    'plan-ok', 'plan-fail', 'plan-hand', 'plan-cte', 'plan-pred', 'render-ok', 'render-hand', 'render-fail',
    'print-ok', 'print-hand', 'print-hand', 'print-hand']
W_CATALOG = ['plan-pred'] * 5 + ['plan-cte'] * 3 + ['plan-hand'] * 2 + ['plan-ok'] * 2 + [
    'plan-fail', 'parse-ok', 'parse-fail-suggest', 'render-ok']
W_RENDER = ['render-ok'] * 4 + ['render-hand'] * 4 + ['render-fail'] * 2 + ['parse-ok', 'parse-fail', 'plan-ok', 'plan-pred']
W_HISTORY = ['parse-ok'] * 2 + ['parse-fail', 'parse-fail-suggest', 'plan-pred', 'plan-pred', 'plan-cte', 'plan-cte',
                                'plan-hand', 'plan-ok', 'plan-fail', 'render-ok', 'render-hand', 'render-hand', 'render-fail',
                                'print-ok', 'print-hand']
PER_CATALOG = ('plan-hand', 'plan-cte', 'plan-pred')


@st.composite
def a_call(draw, weights, focus):
    cls = draw(st.sampled_from(weights))
    if cls in PER_CATALOG:
        cls = cls + ':' + (draw(st.sampled_from(GROUPS[focus])) if focus in GROUPS else focus)
    pool = _POOL.get(cls) or _POOL['parse-ok']
    return draw(st.sampled_from(pool))


FINE_FOR_MODE = {'none': ['entry', 'entry', 'parser', 'parser', 'ast', 'ast', 'planner', 'render', 'none'],
                 'catalog': ['planner', 'planner', 'planner', 'none'],
                 'render': ['render', 'render', 'ast', 'none']}


@st.composite
def cases(draw):
    sub = draw(st.sampled_from(['schedule', 'schedule', 'schedule', 'history']))
    focus = draw(st.sampled_from(sorted(CATALOGS)))
    if sub == 'schedule':
        mode = draw(st.sampled_from(MODES))
        w = {'none': W_NONE, 'catalog': W_CATALOG, 'render': W_RENDER}[mode]
        if draw(st.booleans()):
            # free-running threads, 1 us switch interval
            T = draw(st.sampled_from([2, 4, 8]))
            L = draw(st.integers(2, 8 if T <= 4 else 4))
            threads = [[draw(a_call(w, focus)) for _ in range(L)] for _ in range(T)]
            return {'sub': 'schedule', 'mode': mode, 'threads': threads}
        # forced switches at drawn line boundaries (deterministic interleaving)
        T = draw(st.sampled_from([2, 2, 3, 4]))
        L = draw(st.integers(1, 4 if T == 2 else 3))
        threads = [[draw(a_call(w, focus)) for _ in range(L)] for _ in range(T)]
        forced = {'fine': draw(st.sampled_from(FINE_FOR_MODE[mode])),
                  'order': draw(st.lists(st.sampled_from([0, 1, 1, 1, 2, 3]), min_size=1, max_size=12)),
                  'fine_strides': draw(st.lists(st.sampled_from([1, 1, 2, 3, 5, 8]), min_size=1, max_size=6)),
                  'coarse_strides': draw(st.lists(st.sampled_from([7, 30, 120, 500, 2000]), min_size=1, max_size=6))}
        return {'sub': 'schedule', 'mode': mode, 'threads': threads, 'forced': forced}
    n = draw(st.integers(5, 30))
    if draw(st.integers(0, 3)) == 0 and _POOL.get('parse-err-tail'):
        # a history dominated by rejected texts that share their erroneous tail (and so the parser state of the error)
        calls = [draw(st.sampled_from(_POOL['parse-err-tail'])) if draw(st.integers(0, 4)) else draw(a_call(W_HISTORY, focus))
                 for _ in range(n)]
        return {'sub': 'history', 'calls': calls, 'family': 'err-tail'}
    if draw(st.integers(0, 3)) == 0 and _POOL.get('render-hand'):
        # a history dominated by renderings of the same few statements for all targets
        calls = [draw(st.sampled_from(_POOL['render-hand'])) if draw(st.integers(0, 4)) else draw(a_call(W_HISTORY, focus))
                 for _ in range(n)]
        return {'sub': 'history', 'calls': calls, 'family': 'render-hand'}
    return {'sub': 'history', 'calls': [draw(a_call(W_HISTORY, focus)) for _ in range(n)]}


def run_hashseed_part(col):
    d = tempfile.mkdtemp(prefix='vf-c20-hs-')
    t0 = time.monotonic()
    try:
        res = _spawn_hashseed_workers(_CALLS, d)
    finally:
        shutil.rmtree(d, ignore_errors=True)
    col.notes.extend(_NOTES)
    col.notes.append(f'hashseed: {len(HASHSEEDS)} interpreters x {len(_CALLS)} calls in {time.monotonic() - t0:.1f}s')
    for i, c in enumerate(_CALLS):
        _HS[key_of(c)] = {s: res[s][i] for s in HASHSEEDS}
    if _HS_FILE:
        tmp = _HS_FILE + '.tmp'
        with open(tmp, 'w') as f:
            json.dump(_HS, f)
        os.replace(tmp, _HS_FILE)
    for c in _CALLS:
        case = {'sub': 'hashseed', 'call': c}
        for rec in judge(case, col):
            col.fail(rec, case)
    col.exhaustive_parts.append(f'hashseed: all {len(_CALLS)} corpus calls under PYTHONHASHSEED {list(HASHSEEDS)}')


def run_shard(col, k, nshards, tier, seed):
    if k == 0:
        run_hashseed_part(col)
        if nshards > 1:
            return
    hyp.explore(col, cases(), judge, N[tier], seed, shrink_key=lambda r: (r['kind'], r['site'][:40]))


# --------------------------------------------------------------------------------------------- hash-seed worker

def _worker_main(argv):
    inp, outp = argv
    lib.load()
    import mindsdb_sql
    with open(inp) as f:
        calls = json.load(f)
    env = Env()
    results = [digest(run_call(c, env)) for c in calls]
    with open(outp, 'w') as f:
        json.dump({'repo': os.path.realpath(os.path.dirname(os.path.dirname(mindsdb_sql.__file__))),
                   'hashseed': os.environ.get('PYTHONHASHSEED'), 'results': results}, f)
    return 0


if __name__ == '__main__':
    if len(sys.argv) == 4 and sys.argv[1] == 'hashseed-worker':
        sys.exit(_worker_main(sys.argv[2:]))
    sys.exit('usage: python -m vf.props.c20 hashseed-worker <calls.json> <out.json>')
