"""C07 — constants render as inert, exact literals in every output path.

A constant value is placed at one position of a small statement; the statement is printed by every output path
(the tree's own to_string(); SqlalchemyRender.get_string / get_exec_params for mysql, postgresql, postgres, sqlite,
mssql, oracle, Snowflake).  Oracle (independent of the code under test):

  * the output is cut into tokens by the *target's* lexical rules (vf/oracles/targetlex.py: hand-written models of
    the five engines; for to_string() the library's own token shapes from vf/oracles/reflex.py) and compared with the
    tokens of the same statement printed with a benign sentinel: equal everywhere except at the literal's position,
    where there is exactly one literal token whose denotation is the value (negative numbers: '-' + number);
  * the auto label of an un-aliased constant is one identifier token (content open);
  * sqlite target: the real sqlite3 engine evaluates `SELECT <literal>` and executes the whole statement against a
    table (row selected / stored value == the value, bound as a parameter on the reference side);
  * to_string(): the library's own parser re-reads the text; the tree must equal the re-read sentinel tree with the
    sentinel replaced by the value;
  * get_exec_params on a plain INSERT: placeholders only, the value travels unchanged in the parameter list.
"""
import datetime as dt
import itertools
import math
import sqlite3
import warnings

from hypothesis import strategies as st

from vf import findings, hyp
from vf.gens import c07_shapes
from vf.oracles import c07_mssql, targetlex, struct as ostruct
from vf.props.c02 import site_of

PROPERTY = 'C07'
RULE = ('cases = (constant value, position): values = all strings of length <= 3 (quick) / 4 (thorough) over the hostile '
        "alphabet ' \" \\ ` % : ; - newline n (exhaustive), a fixed list of hostile seeds (injection payloads, comment "
        'markers, NUL, placeholders), random Unicode text, hostile-alphabet text, injection-shaped text, integers, '
        'floats, booleans, NULL (NullConstant and Constant(None)), dates, datetimes; positions = select list without / '
        'with alias, WHERE c = v, IN list, INSERT VALUES (Constant node / raw python value with is_plain), UPDATE SET; '
        'every case is printed by to_string() and by get_string + get_exec_params of SqlalchemyRender for 7 dialect '
        "names; non-trivial = the value contains one of ' \" \\ ` % : ; -- /* # newline NUL, or is a float whose repr "
        'has an exponent, or is negative; distinct by (value, position). Statement shapes around the position (case '
        'field ctx): right_join (WHERE / IN inside a SELECT with a RIGHT JOIN: no SqlalchemyRender compiles it), '
        'limit_offset (WHERE / IN with LIMIT + OFFSET and no ORDER BY: mssql declines), two_rows (INSERT of two rows: '
        'oracle / Snowflake decline) - there the default output is the fallback text, judged by the rules of the '
        'requested target -, neg (numeric constant under a unary minus at every node position) and the value-preserving '
        'wrappers coalesce(NULL, v), substring(v FROM 1) (text values) and CASE WHEN 9 = 9 THEN v END at every node position; shapes are run over '
        'the fixed seeds + all hostile-alphabet strings of length <= 2 (quick) / 3 (thorough) and a quarter of the '
        'random cases; further statement forms around the position (vf/gens/c07_shapes.py, 44 contexts: the constant on '
        'the left of =, under AND / OR / NOT, with <> < >= LIKE / NOT LIKE / IS / IS NOT / || / + / - / ->, at each '
        'place of BETWEEN, in HAVING, in a JOIN condition, in the WHERE of UPDATE / DELETE / INSERT ... SELECT; IN '
        'list of one element, value first / last, NOT IN, row values (5, v) inside the list; INSERT with the value in '
        'the second row, in the first column, in the select list of INSERT ... SELECT (auto label / alias), without a '
        'column list (every name declines: fallback text), raw python values with is_plain=False; UPDATE with two SET '
        'items (value first / last) and without WHERE; select list with FROM, after a column, DISTINCT, inside a '
        'sub-select in FROM, inside a scalar sub-select, in a UNION branch, under CAST) are run over the fixed seeds + '
        'all hostile-alphabet strings of length <= 1 (quick) / 2 (thorough) and an eighth of the random cases; raw '
        'dates / datetimes in Insert.values (insert_raw) are judged too (get_exec_params hands them on as parameters, '
        'get_string declines them and prints the fallback text); distinct by (value, position, ctx)')
ASSUMPTIONS = [
    'the lexical rules of MySQL, PostgreSQL, SQLite, MSSQL and Oracle are small hand-written models of the default '
    'modes (vf/oracles/targetlex.py); only the SQLite model is cross-checked against a real engine',
    "the name 'postgres' is judged by the rules of postgresql; the name 'Snowflake' (rendered with the oracle compiler) "
    "is judged by Snowflake's documented rules: '' and backslash escapes inside '...'",
    'values no literal of the target can denote are outside the domain and counted as excluded: non-finite floats '
    '(all targets), text with a NUL character for postgresql and sqlite',
    'labels of un-aliased constants: one identifier token is required, its content is open',
    'when SqlalchemyRender declines a statement (SQLAlchemyError / NotImplementedError) the default fallback output '
    '(with_failback=True) is what is judged, by the rules of the requested target',
    'a negative number is the two tokens "-" number; a float literal denotes the nearest double; a number literal '
    'inside parentheses, (-1), is still the one literal',
    'ctx neg: the statement denotes minus the value at the position (checked by sqlite3), the literal itself must still '
    'denote the value; the re-parse clause is not applied there (the parser folds "- 7" into one constant)',
    'sqlite3 also executes the fallback text of the statement shapes (tables t1, t2; RIGHT JOIN needs SQLite >= 3.39)',
    'mssql, two rules on top of the shared reader (vf/oracles/c07_mssql.py, from the Transact-SQL reference, not '
    'cross-checked against an engine): inside a string constant a backslash directly followed by LF / CR LF is a line '
    'continuation and both are dropped; a constant without the N prefix is varchar - converted to the code page of '
    "the database's default collation - so it denotes its value for certain only when the value is ASCII (databases "
    'with a UTF-8 default collation keep every character: not the default mode)',
    'further statement forms (vf/gens/c07_shapes.py): sqlite3 judges the selected / stored value only where the form '
    "keeps the plain position's meaning (engine 'pos'); for the others the literal is evaluated and the statement must "
    'execute; row values inside an IN list and the operator -> are not SQLite syntax and are judged by tokens only',
]
def _floors(nontrivial, by_type, by_tag, out_own, out_sa, engine, placeholders, fallback, per_pos):
    f = {'__nontrivial__': nontrivial, 'out:to_string': out_own, 'engine:statement': engine,
         'exec-params:placeholders': placeholders, 'fallback': fallback}
    f.update({'type:' + k: v for k, v in by_type.items()})
    f.update(by_tag)
    f.update({'out:' + n: out_sa for n in ('mysql', 'postgresql', 'postgres', 'sqlite', 'mssql', 'oracle', 'Snowflake')})
    f.update({'pos:' + p: per_pos for p in ('sel', 'sel_alias', 'where', 'in', 'insert', 'insert_raw', 'update')})
    return f


# 'fallback': since fix 12ca32a no plain position is declined by a renderer; the class is fed by the statement shapes
# (ctx right_join: every name declines; limit_offset: mssql; two_rows: oracle, Snowflake)
# <= 1/3 of what a run produces (bool / null are small finite sets: 2 values x 7 positions per shard + seeds)
FLOORS = {
    'quick': _floors(6000, {'str': 7000, 'int': 300, 'float': 300, 'bool': 70, 'null': 90, 'date': 280, 'datetime': 280},
                     {'v:quote': 1800, 'v:backslash': 1800, 'v:percent': 1300, 'v:colon': 1300, 'v:semicolon': 1300,
                      'v:dashdash': 450, 'v:slashstar': 80, 'v:newline': 1200, 'v:nul': 500, 'v:non-ascii': 1500,
                      'float:exponent': 150, 'num:negative': 250},
                     9000, 17000, 8500, 5000, 4000, 1000),
    'thorough': _floors(60000, {'str': 75000, 'int': 3000, 'float': 3000, 'bool': 70, 'null': 90, 'date': 3000,
                                'datetime': 3000},
                        {'v:quote': 20000, 'v:backslash': 20000, 'v:percent': 16000, 'v:colon': 16000,
                         'v:semicolon': 15000, 'v:dashdash': 5000, 'v:slashstar': 900, 'v:newline': 15000, 'v:nul': 6000,
                         'v:non-ascii': 18000, 'float:exponent': 1700, 'num:negative': 3000},
                        90000, 165000, 80000, 54000, 50000, 11000),
}
FLOORS['quick'].update({'ctx:coalesce': 400, 'ctx:fn_from': 400, 'ctx:case': 400, 'ctx:right_join': 250, 'ctx:limit_offset': 250, 'ctx:two_rows': 250, 'ctx:neg': 250,
                        'fallback:sqlite': 400, 'fallback:postgresql': 400, 'fallback:mysql': 400, 'fallback:mssql': 800,
                        'fallback:oracle': 700})
FLOORS['thorough'].update({'ctx:coalesce': 4000, 'ctx:fn_from': 4000, 'ctx:case': 4000, 'ctx:right_join': 3000, 'ctx:limit_offset': 3000, 'ctx:two_rows': 3000, 'ctx:neg': 3000,
                           'fallback:sqlite': 5000, 'fallback:postgresql': 5000, 'fallback:mysql': 5000,
                           'fallback:mssql': 10000, 'fallback:oracle': 9000})
FLOORS['quick'].update({'ctx:' + c: 45 for c in c07_shapes.NAMES})         # deterministic part: >= 150 values per context
FLOORS['thorough'].update({'ctx:' + c: 80 for c in c07_shapes.NAMES})
FLOORS['quick']['v:backslash-newline'] = 150
FLOORS['thorough']['v:backslash-newline'] = 700
N = {'quick': 1200, 'thorough': 12000}
EXH_LEN = {'quick': 3, 'thorough': 4}

ALPHABET = ["'", '"', '\\', '`', '%', ':', ';', '-', '\n', 'n']        # the 10-character hostile alphabet
POSITIONS = ('sel', 'sel_alias', 'where', 'in', 'insert', 'insert_raw', 'update')
SA_NAMES = ('mysql', 'postgresql', 'postgres', 'sqlite', 'mssql', 'oracle', 'Snowflake')
BOOL_WORD_TARGETS = ('mysql', 'postgresql', 'sqlite', 'snowflake', targetlex.LIBRARY)   # TRUE / FALSE are literals there
BOOL_NUM_TARGETS = ('mysql', 'sqlite', 'mssql', 'oracle', 'snowflake')                   # 1 / 0 is the spelling there

SEEDS = [
    "\\' OR 1=1 -- ", "' OR 1=1 -- ", "\\", "a\\", "\\'", "\\\\'", "''", "'", '"', '`', ']', '[x]', ']]', '""', '``',
    "'; DROP TABLE t1; --", "\\'; DROP TABLE t1; -- ", "x' /* ", "*/", "/* c */", "--", "-- ", "#", "x'#", "\\'#\n",
    '%', '%%', '%s', '%(c1)s', '%(param_1)s', ':c1', ':param_1', '::', '?', '$1', '$$', "$$'$$", '@x', '{x}',
    'a\nb', '\n', '\r\n', '\t', 'a\x00b', '\x00', "\x00'", '\\0', '\\n', '\\%', '\\_', '\\Z', '\\x', "\\\\", '\\"', '"\\',
    "E'x'", "N'x'", "q'[x]'", "x'00'", '\x1a', '\x08', '\x7f', '\u2028', '\ufeff', 'é中', '\U0001f600', "\u02bc", "\uff07",
    '', ' ', 'NULL', 'null', 'true', '0', '1e5', '2020-01-02', 'zq', 'w', 'c1', 'select', "' || (SELECT 1) || '",
    "\\' || (SELECT 1) -- \n", 'a\\\nb', 'a\\\r\nb', '\\\\\n', 'C:\\dir\\\nnext', "a'b", "a''b", "a\\'b", "a\\\\'b", "a\\''b", "'a", "a'", 'a' * 300, "'" * 40, '\\' * 41,
]
INT_SEEDS = [0, 1, -1, 5, 7, -7, 2 ** 31, -2 ** 31, 2 ** 63 - 1, -2 ** 63, 2 ** 63, 10 ** 30, -10 ** 30, 2 ** 53 + 1]
FLOAT_SEEDS = ['0.0', '-0.0', '1.5', '-2.5', '7.25', '1e-07', '1e+22', '-1e-05', '1e+16', '0.1', '123456789.123456789',
               '5e-324', '1.7976931348623157e+308', '2.2250738585072014e-308', 'inf', '-inf', 'nan']
DATE_SEEDS = ['2020-01-02', '0001-01-01', '9999-12-31', '1969-12-31']
DATETIME_SEEDS = ['2020-01-02T03:04:05', '2020-01-02T03:04:05.000678', '0001-01-01T00:00:00',
                  '9999-12-31T23:59:59.999999', '2020-01-02T03:04:05+00:00', '2020-01-02T03:04:05.5-03:30']

_R = {}        # SqlalchemyRender per name
_S0 = {}       # (out key, pos, type) -> sentinel rendering
_DB = {}


# ------------------------------------------------------------------------------------------------- values

def val_str(s):
    return {'t': 'str', 'v': s}


def py_value(val):
    t = val['t']
    if t == 'str':
        return val['v']
    if t == 'int':
        return int(val['v'])
    if t == 'float':
        return float(val['v'])
    if t == 'bool':
        return bool(val['v'])
    if t == 'null':
        return None
    if t == 'date':
        return dt.date.fromisoformat(val['v'])
    if t == 'datetime':
        return dt.datetime.fromisoformat(val['v'])
    raise ValueError(t)


SENTINEL = {'str': {'t': 'str', 'v': 'zq'}, 'int': {'t': 'int', 'v': 7}, 'float': {'t': 'float', 'v': '7.25'},
            'bool': {'t': 'bool', 'v': True}, 'null': {'t': 'null', 'node': 'NullConstant'},
            'date': {'t': 'date', 'v': '2001-02-03'}, 'datetime': {'t': 'datetime', 'v': '2001-02-03T04:05:06'}}


def sentinel_for(val):
    return dict(SENTINEL[val['t']])


def value_classes(val):
    t = val['t']
    out = ['type:' + t]
    hostile = False
    if t == 'str':
        v = val['v']
        for tag, needle in (('v:quote', "'"), ('v:dquote', '"'), ('v:backslash', '\\'), ('v:backtick', '`'),
                            ('v:percent', '%'), ('v:colon', ':'), ('v:semicolon', ';'), ('v:dashdash', '--'),
                            ('v:slashstar', '/*'), ('v:hash', '#'), ('v:newline', '\n'), ('v:nul', '\x00'),
                            ('v:bracket', ']')):
            if needle in v:
                out.append(tag)
                if tag != 'v:bracket':
                    hostile = True
        if any(ord(c) > 127 for c in v):
            out.append('v:non-ascii')
        if v == '':
            out.append('v:empty')
        if c07_mssql.has_continuation(v):
            out.append('v:backslash-newline')
    elif t == 'float':
        f = float(val['v'])
        if not math.isfinite(f):
            out.append('float:non-finite')
        elif 'e' in repr(f):
            out.append('float:exponent')
            hostile = True
        if f < 0 or (f == 0 and math.copysign(1, f) < 0):
            out.append('num:negative')
            hostile = True
    elif t == 'int':
        v = int(val['v'])
        if v < 0:
            out.append('num:negative')
            hostile = True
        if not -2 ** 63 <= v < 2 ** 63:
            out.append('int:beyond-int64')
    elif t == 'null':
        out.append('null:' + val.get('node', 'NullConstant'))
    elif t == 'datetime':
        d = py_value(val)
        if d.tzinfo is not None:
            out.append('datetime:tz')
        if d.microsecond:
            out.append('datetime:us')
    return out, hostile


def record_features(val):
    """Tags of the value that separate root causes (kept few)."""
    cl, _ = value_classes(val)
    keep = {'v:quote', 'v:dquote', 'v:backslash', 'v:backtick', 'v:nul', 'v:percent', 'v:colon', 'v:bracket',
            'float:exponent', 'num:negative', 'int:beyond-int64', 'null:Constant', 'null:NullConstant', 'datetime:tz'}
    f = ['type:' + val['t']] + [c for c in cl if c in keep]
    if val['t'] == 'str':
        v = val['v']
        for i, c in enumerate(v):
            if c == '\\' and (i + 1 == len(v) or v[i + 1] in '\'"\\'):
                f.append('v:backslash-unsafe')          # same notion as C04: a bare backslash changes the reading here
                break
        if v[:1] == "'" or v[-1:] == "'":
            f.append('v:edge-quote')
        if "''" in v:
            f.append('v:adjacent-quotes')
        if c07_mssql.has_continuation(v):
            f.append('v:backslash-newline')
        if not v.isascii():
            f.append('v:non-ascii')
    return f


# ------------------------------------------------------------------------------------------------- statements

def make_node(val, alias=None):
    from mindsdb_sql.parser import ast
    kw = {'alias': ast.Identifier(alias)} if alias else {}
    if val['t'] == 'null' and val.get('node', 'NullConstant') == 'NullConstant':
        return ast.NullConstant(**kw)
    return ast.Constant(py_value(val), **kw)


def make_statement(val, pos, ctx='plain'):
    from mindsdb_sql.parser import ast
    I, C = ast.Identifier, ast.Constant
    if ctx == 'neg':
        # the constant under a unary minus (alias, if any, on the operation)
        def neg(alias=None):
            kw = {'alias': I(alias)} if alias else {}
            return ast.UnaryOperation('-', [make_node(val)], **kw)
        if pos == 'sel':
            return ast.Select(targets=[neg()])
        if pos == 'sel_alias':
            return ast.Select(targets=[neg('x1')])
        if pos == 'where':
            return ast.Select(targets=[I('c1')], from_table=I('t1'), where=ast.BinaryOperation('=', args=[I('c1'), neg()]))
        if pos == 'in':
            return ast.Select(targets=[I('c1')], from_table=I('t1'),
                              where=ast.BinaryOperation('in', args=[I('c1'), ast.Tuple([C(5), neg(), C('w')])]))
        if pos == 'insert':
            return ast.Insert(table=I('t1'), columns=[I('c1'), I('c2')], values=[[C(5), neg()]])
        if pos == 'update':
            return ast.Update(table=I('t1'), update_columns={'c2': neg()},
                              where=ast.BinaryOperation('=', args=[I('c1'), C(5)]))
        raise ValueError((pos, ctx))
    if ctx in c07_shapes.CONTEXTS:
        # the positions of the property in further statement forms (vf/gens/c07_shapes.py)
        return c07_shapes.build(ctx, pos, lambda alias=None: make_node(val, alias),
                                py_value(val) if pos == 'insert_raw' else None)
    if ctx in WRAPS:
        # the constant one level down inside an expression that hands its value on unchanged (so that the engine clause
        # still knows what the position denotes): function argument, function argument in front of FROM, CASE result
        def wrap(alias=None):
            kw = {'alias': I(alias)} if alias else {}
            if ctx == 'coalesce':
                return ast.Function('coalesce', args=[ast.NullConstant(), make_node(val)], **kw)
            if ctx == 'fn_from':
                return ast.Function('substring', args=[make_node(val)], from_arg=C(1), **kw)
            return ast.Case(rules=[[ast.BinaryOperation('=', args=[C(9), C(9)]), make_node(val)]], **kw)
        if pos == 'sel':
            return ast.Select(targets=[wrap()])
        if pos == 'sel_alias':
            return ast.Select(targets=[wrap('x1')])
        if pos == 'where':
            return ast.Select(targets=[I('c1')], from_table=I('t1'), where=ast.BinaryOperation('=', args=[I('c1'), wrap()]))
        if pos == 'in':
            return ast.Select(targets=[I('c1')], from_table=I('t1'),
                              where=ast.BinaryOperation('in', args=[I('c1'), ast.Tuple([C(5), wrap(), C('w')])]))
        if pos == 'insert':
            return ast.Insert(table=I('t1'), columns=[I('c1'), I('c2')], values=[[C(5), wrap()]])
        if pos == 'update':
            return ast.Update(table=I('t1'), update_columns={'c2': wrap()},
                              where=ast.BinaryOperation('=', args=[I('c1'), C(5)]))
        raise ValueError((pos, ctx))
    if ctx == 'right_join':
        # a statement shape no SqlalchemyRender compiles (NotImplementedError: Join type): every name falls back
        col = I('t1.c1')
        cond = ast.BinaryOperation('=', args=[col, make_node(val)]) if pos == 'where' else \
            ast.BinaryOperation('in', args=[col, ast.Tuple([C(5), make_node(val), C('w')])])
        return ast.Select(targets=[I('t1.c1')],
                          from_table=ast.Join(left=I('t1'), right=I('t2'), join_type='RIGHT JOIN',
                                              condition=ast.BinaryOperation('=', args=[I('t1.c1'), I('t2.c1')])),
                          where=cond)
    if ctx == 'limit_offset':
        # LIMIT + OFFSET without ORDER BY: the mssql compiler declines it (CompileError)
        q = make_statement(val, pos)
        q.limit, q.offset = C(5), C(3)
        return q
    if ctx == 'two_rows':
        # multi-row VALUES: the oracle compiler (names oracle, Snowflake) declines it
        q = make_statement(val, pos)
        q.values = q.values + [[C(6), C('w')] if pos == 'insert' else [6, 'w']]
        return q
    if pos == 'sel':
        return ast.Select(targets=[make_node(val)])
    if pos == 'sel_alias':
        return ast.Select(targets=[make_node(val, 'x1')])
    if pos == 'where':
        return ast.Select(targets=[I('c1')], from_table=I('t1'),
                          where=ast.BinaryOperation('=', args=[I('c1'), make_node(val)]))
    if pos == 'in':
        return ast.Select(targets=[I('c1')], from_table=I('t1'),
                          where=ast.BinaryOperation('in', args=[I('c1'), ast.Tuple([C(5), make_node(val), C('w')])]))
    if pos == 'insert':
        return ast.Insert(table=I('t1'), columns=[I('c1'), I('c2')], values=[[C(5), make_node(val)]])
    if pos == 'insert_raw':
        return ast.Insert(table=I('t1'), columns=[I('c1'), I('c2')], values=[[5, py_value(val)]], is_plain=True)
    if pos == 'update':
        return ast.Update(table=I('t1'), update_columns={'c2': make_node(val)},
                          where=ast.BinaryOperation('=', args=[I('c1'), C(5)]))
    raise ValueError(pos)


WRAPS = ('coalesce', 'fn_from', 'case')
_WRAP_POS = ('sel', 'sel_alias', 'where', 'in', 'insert', 'update')
CTX_POS = {'plain': POSITIONS,
           'right_join': ('where', 'in'), 'limit_offset': ('where', 'in'), 'two_rows': ('insert', 'insert_raw'),
           'neg': ('sel', 'sel_alias', 'where', 'in', 'insert', 'update'),
           'coalesce': _WRAP_POS, 'fn_from': _WRAP_POS, 'case': _WRAP_POS}
SHAPES = [(c, p) for c in ('right_join', 'limit_offset', 'two_rows', 'neg') + WRAPS for p in CTX_POS[c]]
CTX_POS.update({c: c07_shapes.CONTEXTS[c][0] for c in c07_shapes.NAMES})
SHAPES2 = list(c07_shapes.SHAPES)          # further statement forms around the position


def in_domain(val, pos, ctx='plain'):
    if pos not in CTX_POS[ctx]:
        return f'context {ctx} has no position {pos}'
    if ctx == 'neg' and val['t'] not in ('int', 'float'):
        return 'unary minus is judged over numeric constants only'
    if ctx == 'fn_from' and val['t'] != 'str':
        return 'substring(x FROM 1) hands on text values only'
    if val['t'] == 'float' and not math.isfinite(float(val['v'])):
        return 'non-finite float: no SQL literal denotes it'
    if pos == 'insert_raw' and val['t'] == 'null' and val.get('node') == 'NullConstant':
        return 'insert_raw has no node form'
    return None


# ------------------------------------------------------------------------------------------------- rendering

def prepare(tier):
    from mindsdb_sql.render.sqlalchemy_render import SqlalchemyRender
    targetlex.selftest()
    c07_mssql.selftest()
    for name in SA_NAMES:
        _R[name] = SqlalchemyRender(name)
    _S0.clear()


def _render(out, stmt):
    """out = ('to_string',) | (name, method).  -> dict(text, params, path) | dict(exc=...)"""
    from sqlalchemy.exc import SQLAlchemyError
    with warnings.catch_warnings():
        warnings.simplefilter('ignore')
        if out[0] == 'to_string':
            return {'text': stmt.to_string(), 'params': None, 'path': 'own'}
        r = _R[out[0]]
        fn = getattr(r, out[1])
        try:
            if out[1] == 'get_string':
                return {'text': fn(stmt, with_failback=False), 'params': None, 'path': 'sa'}
            text, params = fn(stmt, with_failback=False)
            return {'text': text, 'params': params, 'path': 'sa'}
        except (SQLAlchemyError, NotImplementedError) as e:
            declined = f'{type(e).__name__}'
        if out[1] == 'get_string':
            return {'text': fn(stmt), 'params': None, 'path': 'fallback', 'declined': declined}
        text, params = fn(stmt)
        return {'text': text, 'params': params, 'path': 'fallback', 'declined': declined}


def render(out, val, pos, ctx='plain'):
    try:
        return _render(out, make_statement(val, pos, ctx))
    except RecursionError:
        raise
    except Exception as e:
        return {'exc': e}


def sentinel_render(out, val, pos, ctx='plain'):
    s = sentinel_for(val)
    key = (out, pos, s['t'], ctx)
    if key not in _S0:
        _S0[key] = render(out, s, pos, ctx)
    return _S0[key]


# ------------------------------------------------------------------------------------------------- the token oracle

def _is_sentinel(tok, t, lib):
    if t in ('str', 'date', 'datetime'):
        want = {'str': 'zq', 'date': '2001-02-03', 'datetime': '2001-02-03 04:05:06'}[t]
        if tok.kind != 'str' or tok.extra:
            return False
        return (tok.value.exact == want) if lib else (tok.value == want)
    if t == 'int':
        return tok.kind == 'num' and tok.src == '7'
    if t == 'float':
        return tok.kind == 'num' and tok.src == '7.25'
    if t == 'bool':
        return (tok.kind == 'word' and tok.src.lower() == 'true') or (tok.kind == 'num' and tok.src == '1')
    if t == 'null':
        return tok.kind == 'word' and tok.src.upper() == 'NULL'
    return False


def _short(x, n=100):
    s = x if isinstance(x, str) else repr(x)
    s = s.encode('unicode_escape').decode('ascii') if isinstance(x, str) else s
    return s if len(s) <= n else s[:n] + '…'


def literal_verdict(X, val, target):
    """X = the tokens found at the literal's position.  -> None | (kind, feature, detail)"""
    t = val['t']
    lib = targetlex.canonical(target) == targetlex.LIBRARY
    v = py_value(val)
    shape = ' '.join(k.kind for k in X) or 'nothing'
    if t in ('str', 'date', 'datetime'):
        if len(X) != 1 or X[0].kind != 'str':
            return 'structure', 'literal:' + ('split' if len(X) > 1 else 'missing'), f'at the literal position: {shape}'
        tok = X[0]
        if tok.extra not in ('', 'n', 'dq'):        # "..." is a string for the targets that lex it as 'str'
            return 'structure', 'literal:other-form', f'literal form {tok.extra!r}: {_short(tok.src)}'
        mssql = t == 'str' and targetlex.canonical(target) == 'mssql'
        if mssql:
            # two rules of T-SQL constants the shared reader does not model (vf/oracles/c07_mssql.py)
            got, national = c07_mssql.denoted(tok)
            ok = got == v
            if not ok and tok.value == v:
                return 'value', 'literal:line-continuation', \
                    f'literal {_short(tok.src)}: backslash + line break continue the constant, it denotes {_short(got)!r}, value is {_short(v)!r}'
        elif t == 'str':
            ok = tok.value.admits(v) if lib else tok.value == v
            got = tok.value.canonical if lib else tok.value
        else:
            got = tok.value.exact if lib else tok.value
            try:
                back = (dt.date if t == 'date' else dt.datetime).fromisoformat(got)
                ok = back == v and (t == 'date' or (back.tzinfo is None) == (v.tzinfo is None))
            except (TypeError, ValueError):
                ok = False
        if not ok:
            return 'value', 'literal:other-value', f'literal {_short(tok.src)} denotes {_short(got)!r}, value is {_short(v)!r}'
        if mssql and not national and not v.isascii():
            return 'value', 'literal:code-page', \
                f'literal {_short(tok.src)} has no N prefix: a varchar constant, converted to the code page of the database (characters outside it are lost)'
        return None
    if t in ('int', 'float'):
        neg = v < 0 or (t == 'float' and v == 0 and math.copysign(1, v) < 0)
        toks = list(X)
        while len(toks) >= 3 and toks[0].kind != 'str' and toks[0].src == '(' and toks[-1].kind != 'str' and toks[-1].src == ')':
            toks = toks[1:-1]                   # a parenthesised literal, (-1), is still one literal
        if toks and toks[0].kind == 'op' and toks[0].src == '-' and len(toks) == 2:
            sign, toks = -1, toks[1:]
        else:
            sign = 1
        if len(toks) != 1 or toks[0].kind != 'num':
            return 'structure', 'literal:not-a-number', f'at the literal position: {shape} ({_short(" ".join(k.src for k in X))})'
        src = toks[0].src
        if t == 'int':
            if not src.isdigit():
                return 'value', 'literal:other-value', f'integer {v} printed as {src}'
            ok = sign * int(src) == v
        else:
            got = sign * float(src)
            ok = got == v and (math.copysign(1, got) == math.copysign(1, v) or not neg)
        if not ok:
            return 'value', 'literal:other-value', f'number literal {"-" if sign < 0 else ""}{src} does not denote {v!r}'
        return None
    if t == 'bool':
        c = targetlex.canonical(target)
        if len(X) == 1 and X[0].kind == 'word' and X[0].src.lower() in ('true', 'false') and c in BOOL_WORD_TARGETS:
            ok = (X[0].src.lower() == 'true') == v
        elif len(X) == 1 and X[0].kind == 'num' and X[0].src in ('0', '1') and c in BOOL_NUM_TARGETS:
            ok = (X[0].src == '1') == v
        else:
            return 'structure', 'literal:not-a-boolean', f'at the literal position: {shape} ({_short(" ".join(k.src for k in X))})'
        if not ok:
            return 'value', 'literal:other-value', f'boolean {v} printed as {X[0].src}'
        return None
    if t == 'null':
        if len(X) == 1 and X[0].kind == 'word' and X[0].src.upper() == 'NULL':
            return None
        return 'structure', 'literal:not-null', f'at the literal position: {shape} ({_short(" ".join(k.src for k in X))})'
    raise ValueError(t)


def token_oracle(text, text0, val, pos, target, auto_label=None):
    """-> (problems, X) ; problems = list of (kind, feature, detail); X = tokens at the literal position (or None)."""
    lib = targetlex.canonical(target) == targetlex.LIBRARY
    toks = targetlex.tokens(text, target)
    toks0 = targetlex.tokens(text0, target)
    t = val['t']
    i0 = next((i for i, k in enumerate(toks0) if _is_sentinel(k, t, lib)), None)
    if i0 is None or any(k.kind in ('error', 'comment') for k in toks0):
        return [('structure', 'sentinel-not-a-literal', f'benign value prints as {_short(text0, 160)}')], None
    after0 = toks0[i0 + 1:]
    label_at = None
    if (pos == 'sel' if auto_label is None else auto_label) and len(after0) >= 2 and after0[0].kind == 'word' and after0[0].src.upper() == 'AS' \
            and after0[1].kind in ('word', 'qident'):
        label_at = 1
    probs = []
    if any(k.kind == 'error' for k in toks):
        return [('structure', 'unterminated', f'not a token of the target: {_short(toks[-1].src, 60)}')], None
    if any(k.kind == 'comment' for k in toks):
        c = next(k for k in toks if k.kind == 'comment')
        return [('structure', 'comment', f'part of the statement is read as a comment: {_short(c.src, 60)}')], None
    for a, b in zip(toks[:i0], toks0[:i0]):
        if not targetlex.same_token(a, b):
            probs.append(('structure', 'prefix-differs', f'token {_short(a.src, 40)} instead of {_short(b.src, 40)}'))
            return probs, None
    if len(toks) < len(toks0):
        probs.append(('structure', 'tokens-missing', f'{len(toks)} tokens, the same statement with a benign value has {len(toks0)}'))
        return probs, None
    cut = len(toks) - len(after0)
    X = toks[i0:cut]
    for j, (a, b) in enumerate(zip(toks[cut:], after0)):
        if j == label_at:
            if a.kind not in ('word', 'qident'):
                probs.append(('label', 'label-not-identifier', f'label position holds {a.kind} {_short(a.src, 40)}'))
            continue
        if not targetlex.same_token(a, b):
            probs.append(('structure', 'suffix-differs',
                          f'after the literal: token {_short(a.src, 40)} instead of {_short(b.src, 40)}'))
            return probs, None
    if probs:
        return probs, None
    lv = literal_verdict(X, val, target)
    if lv is not None:
        if lv[0] == 'structure' and len(X) > 1:
            lv = (lv[0], lv[1], lv[2] + f'; tokens: {_short(" | ".join(k.src for k in X[:8]), 160)}')
        probs.append(lv)
    return probs, X


def emit_diagnosis(text, text0, val, out):
    """How the literal was spelled (mechanism attribution, used only as a feature for narrow known-finding matchers)."""
    if val['t'] != 'str':
        return []
    v = val['v']
    p = text0.find("'zq'")
    if p < 0:
        return []
    def emitted(sp):
        return text.startswith(text0[:p] + sp)
    doubled = emitted("'" + v.replace("'", "''") + "'")
    slashed = emitted("'" + v.replace("'", "\\'") + "'")
    if doubled and slashed:
        return ['emit:verbatim']                     # the value copied between quotes, nothing to escape for either style
    if doubled:
        return ['emit:quote-doubled-only']
    if slashed:
        return ['emit:quote-backslashed-only']
    if emitted(repr(v)):
        return ['emit:python-repr']
    return []


# ------------------------------------------------------------------------------------------------- sqlite engine

def _db():
    c = _DB.get('c')
    if c is None:
        c = sqlite3.connect(':memory:')
        c.execute('CREATE TABLE t1 (c1, c2)')
        c.execute('CREATE TABLE t2 (c1, c2)')
        _DB['c'] = c
    return c


def engine_value(val):
    t = val['t']
    v = py_value(val)
    if t == 'bool':
        return int(v)
    if t in ('date', 'datetime'):
        return str(v)
    return v


def _eq_engine(got, want, t):
    if t == 'float':
        return isinstance(got, (int, float)) and (got == want or abs(got - want) <= 1e-12 * abs(want))
    if t == 'int' and not -2 ** 63 <= want < 2 ** 63:
        return isinstance(got, float) and got == float(want)        # SQLite reads an oversized integer literal as REAL
    return type(got) is type(want) and got == want


def engine_check(text, X, val, pos, ctx='plain', mode='pos'):
    """Ask sqlite3.  -> list of (kind, feature, detail)"""
    t = val['t']
    lit_want = engine_value(val)
    want = -lit_want if ctx == 'neg' else lit_want          # what the statement as a whole denotes at the position
    copies = 4 if ctx == 'limit_offset' else 1              # OFFSET 3 skips three of the selected rows
    c = _db()
    probs = []
    blob = b'\x00\x01'
    try:
        if X:
            lit = ' '.join(k.src for k in X) if len(X) > 1 else X[0].src
            got = c.execute('SELECT ' + lit).fetchall()
            if len(got) != 1 or len(got[0]) != 1 or not _eq_engine(got[0][0], lit_want, t):
                probs.append(('engine', 'engine:literal', f'sqlite3 evaluates the literal {_short(lit)} to {_short(repr(got))}'))
        exact = t != 'float' and not (t == 'int' and not -2 ** 63 <= want < 2 ** 63)
        c.execute('DELETE FROM t1')
        c.execute('DELETE FROM t2')
        if mode == 'run':
            # the statement must be one sqlite3 executes; what it selects / stores is not judged for this form
            cur = c.execute(text)
            if cur.description is not None:
                cur.fetchall()
        elif pos in ('sel', 'sel_alias'):
            rows = c.execute(text).fetchall()
            if len(rows) != 1 or len(rows[0]) != 1 or not _eq_engine(rows[0][0], want, t):
                probs.append(('engine', 'engine:statement', f'sqlite3 returns {_short(repr(rows))}'))
        elif pos in ('where', 'in'):
            if exact:
                c.executemany('INSERT INTO t1 VALUES (?, 1)', [(want,)] * copies)
                c.execute('INSERT INTO t1 VALUES (?, 2)', (blob,))
                c.execute('INSERT INTO t2 SELECT DISTINCT c1, c2 FROM t1')
                rows = c.execute(text).fetchall()
                exp = [] if want is None else [(want,)]
                if len(rows) != len(exp) or any(len(r) != 1 or not _eq_engine(r[0], want, t) for r in rows):
                    probs.append(('engine', 'engine:statement', f'sqlite3 selects {_short(repr(rows))}, expected {_short(repr(exp))}'))
            else:
                c.execute(text).fetchall()
        elif pos in ('insert', 'insert_raw'):
            c.execute(text)
            rows = c.execute('SELECT c1, c2 FROM t1 ORDER BY c1').fetchall()
            second_ok = rows[1:] == ([(6, 'w')] if ctx in ('two_rows', 'row2') else [])
            if not second_ok or rows[0][0] != 5 or not _eq_engine(rows[0][1], want, t):
                probs.append(('engine', 'engine:statement', f'sqlite3 stored {_short(repr(rows))}'))
        elif pos == 'update':
            c.execute('INSERT INTO t1 VALUES (5, ?), (6, ?)', (blob, blob))
            c.execute(text)
            rows = c.execute('SELECT c1, c2 FROM t1 ORDER BY c1').fetchall()
            if len(rows) != 2 or rows[0][0] != 5 or not _eq_engine(rows[0][1], want, t) or rows[1] != (6, blob):
                probs.append(('engine', 'engine:statement', f'sqlite3 table after the update: {_short(repr(rows))}'))
    except (sqlite3.Error, sqlite3.Warning, ValueError, OverflowError) as e:
        probs.append(('engine', 'engine:rejects', f'sqlite3: {type(e).__name__}: {_short(str(e), 120)}'))
    finally:
        try:
            c.rollback()
        except sqlite3.Error:
            pass
    return probs


# ------------------------------------------------------------------------------------------------- re-parse (to_string)

def _subst(s, old, new):
    """Replace the image of the sentinel in the `value` field of Constant nodes."""
    if isinstance(s, tuple):
        if len(s) == 2 and s[0] == 'value' and s[1] == old:
            return ('value', new)
        return tuple(_subst(x, old, new) for x in s)
    return s


def parsed_image(val):
    t = val['t']
    v = py_value(val)
    if t in ('date', 'datetime'):
        return ostruct.struct(str(v))
    return ostruct.struct(v)


def reparse_check(text, text0, val):
    from mindsdb_sql import parse_sql
    from mindsdb_sql.exceptions import ParsingException
    from sly.lex import LexError
    try:
        t0 = parse_sql(text0, 'mindsdb')
    except Exception as e:
        return [('reparse', 'reparse:sentinel-rejected', f'{type(e).__name__} on {_short(text0)}')]
    try:
        t1 = parse_sql(text, 'mindsdb')
    except (ParsingException, LexError) as e:
        return [('reparse', 'reparse:rejected', f'the library rejects its own print: {_short(str(e), 120)}')]
    except RecursionError:
        raise
    except Exception as e:
        return [('reparse', 'reparse:crash', f'{site_of(e)}')]
    if val['t'] == 'null':
        exp = ostruct.struct(t0)
    else:
        exp = _subst(ostruct.struct(t0), parsed_image(sentinel_for(val)), parsed_image(val))
    got = ostruct.struct(t1)
    d = ostruct.diff(exp, got)
    if d is not None:
        tag = 'reparse:other-value' if d[0].endswith('<Constant>.value') else 'reparse:other-tree'
        return [('reparse', tag, f're-read tree differs at {d[0]}: expected {_short(repr(d[1]), 80)}, got {_short(repr(d[2]), 80)}')]
    return []


# ------------------------------------------------------------------------------------------------- judge

def outputs_for(pos):
    outs = [('to_string',)]
    for name in SA_NAMES:
        outs.append((name, 'get_string'))
        outs.append((name, 'get_exec_params'))
    return outs


def judge_output(out, val, pos, col, cache, ctx='plain'):
    """-> list of records for one output path."""
    target = targetlex.LIBRARY if out[0] == 'to_string' else out[0]
    ctarget = targetlex.canonical(target)
    method = 'to_string' if out[0] == 'to_string' else out[1]
    cfg = {'target': out[0], 'pos': pos}
    feats = record_features(val)
    if ctx != 'plain':
        cfg['ctx'] = ctx
        feats = feats + ['ctx:' + ctx]
    if ctx == 'neg':
        feats.append('unary-minus-over-constant')
    recs = []

    def rec(kind, site, extra, detail, text=''):
        recs.append(findings.record(kind, site, feats + list(extra), cfg, detail, text))

    if val['t'] == 'str' and not targetlex.representable(val['v'], ctarget):
        col.excluded(f'text with NUL: no literal of {ctarget} denotes it')
        return recs
    r = render(out, val, pos, ctx)
    if 'exc' in r:
        e = r['exc']
        rec('raises', method, ['exc:' + site_of(e)], f'{type(e).__name__}: {_short(str(e), 160)}')
        return recs
    r0 = sentinel_render(out, val, pos, ctx)
    if 'exc' in r0:
        rec('raises', method, ['exc:' + site_of(r0['exc']), 'on-sentinel'], f'benign value: {type(r0["exc"]).__name__}')
        return recs
    site = method if r['path'] != 'fallback' else method + ':fallback'
    col.cls('out:' + out[0])
    if r['path'] == 'fallback':
        col.cls('fallback')
        col.cls('fallback:' + out[0])
        # the renderer declined the statement and handed out the tree's own (mindsdb dialect) text for the target
        feats = feats + ['fallback:own-dialect-text', 'declined:' + r.get('declined', '?')]
    if r['path'] != r0['path']:
        rec('path', site, ['declined-by-value:' + r.get('declined', r0.get('declined', '?'))],
            f'the value makes the renderer take the {r["path"]} path, a benign value the {r0["path"]} path', r['text'])
        return recs
    text, text0 = r['text'], r0['text']
    cache.setdefault(('text', out[0]), text)
    if not isinstance(text, str):
        rec('structure', site, ['not-text'], f'output is {type(text).__name__}')
        return recs

    # get_exec_params on a plain insert through SQLAlchemy: placeholders + parameter list
    if method == 'get_exec_params' and pos == 'insert_raw' and r['path'] == 'sa' and ctx != 'raw_not_plain':
        col.cls('exec-params:placeholders')
        if text != text0:
            rec('structure', site, ['placeholders-differ'], f'statement text depends on the value: {_short(text, 200)}', text)
        toks = targetlex.tokens(text, target)
        if any(k.kind in ('str', 'num', 'error', 'comment') for k in toks):
            rec('structure', site, ['placeholders-with-literal'], f'parameterised text holds a literal: {_short(text, 200)}', text)
        p = r['params']
        v = py_value(val)
        rows = make_statement(val, pos, ctx).values          # the rows as they were handed in
        ok = isinstance(p, list) and len(p) == len(rows) and all(
            isinstance(a, list) and len(a) == len(b) and all(
                type(x) is type(y) and (x == y or (x != x and y != y)) for x, y in zip(a, b))
            for a, b in zip(p, rows)) and any(type(x) is type(v) and (x == v or v != v) for a in p for x in a)
        if not ok:
            rec('params', site, [], f'parameter list {_short(repr(p), 200)} does not carry the value {_short(repr(v))}', text)
        return recs
    if method == 'get_exec_params':
        if r['params'] is not None:
            rec('params', site, ['unexpected-params'], f'params {_short(repr(r["params"]), 120)} for a statement with literals', text)
        prev = cache.get((out[0], 'get_string'))
        if prev is not None and prev[0] == text and prev[1] == text0:
            for x in prev[2]:                   # same text as get_string: same verdict, reported under this method
                y = dict(x)
                y['site'] = site
                recs.append(y)
            return recs

    probs, X = token_oracle(text, text0, val, pos, target, auto_label=(pos == 'sel' or ctx == 'ins_select'))
    diag = emit_diagnosis(text, text0, val, out) if probs else []
    for kind, feature, detail in probs:
        rec(kind, site, [feature] + diag, f'{detail}; output: {_short(text, 200)}', text)
    emode = c07_shapes.engine_mode(ctx) if ctx in c07_shapes.CONTEXTS else 'pos'
    if ctarget == 'sqlite' and (r['path'] == 'sa' or ctx != 'plain') and emode is not None:
        col.cls('engine:statement')
        eprobs = engine_check(text, X if not probs else None, val, pos, ctx, emode)
        for kind, feature, detail in eprobs:
            rec(kind, site, [feature] + (['model-agrees'] if probs else ['model-passes']), f'{detail}; output: {_short(text, 200)}', text)
        if probs and not eprobs and emode == 'pos' and val['t'] == 'str' and not all(p[0] == 'label' for p in probs) and \
                not (pos == 'in' and val['v'] == 'w'):          # the IN list holds 'w' itself: the engine clause is blind there
            # the hand-written sqlite reader sees a problem the engine does not: the reader is wrong (harness error)
            raise AssertionError(f'sqlite model disagrees with the engine on {text!r}: {probs}')
    if out[0] == 'to_string' and ctx != 'neg':       # the parser folds "- 7" into Constant(-7): no tree to compare with
        for kind, feature, detail in reparse_check(text, text0, val):
            rec(kind, site, [feature] + (['ref-agrees'] if probs else ['ref-passes']) + emit_diagnosis(text, text0, val, out),
                f'{detail}; output: {_short(text, 200)}', text)
    if method == 'get_string':
        cache[(out[0], 'get_string')] = (text, text0, list(recs))
    return recs


def twin_of(val):
    """a constant that compares equal to val in Python but has another type (None if there is none)"""
    t = val['t']
    try:
        if t == 'int' and abs(int(val['v'])) < 2 ** 53:
            return {'t': 'float', 'v': repr(float(int(val['v'])))} if int(val['v']) not in (0, 1) or True else None
        if t == 'bool':
            return {'t': 'int', 'v': int(bool(val['v']))}
        if t == 'float':
            f = float(val['v'])
            if math.isfinite(f) and f == int(f) and abs(f) < 2 ** 53:
                return {'t': 'int', 'v': int(f)}
    except (ValueError, OverflowError):
        return None
    return None


def twin_check(val, tw):
    from mindsdb_sql.parser import ast
    I = ast.Identifier
    out_recs = []
    for out in [('to_string',)] + [(n, 'get_string') for n in SA_NAMES]:
        a = render(out, val, 'where')
        b = render(out, tw, 'where')
        stmt = ast.Select(targets=[I('c1')], from_table=I('t1'),
                          where=ast.BinaryOperation('and', args=[
                              ast.BinaryOperation('=', args=[I('c2'), make_node(tw)]),
                              ast.BinaryOperation('=', args=[I('c1'), make_node(val)])]))
        try:
            c = _render(out, stmt)
        except RecursionError:
            raise
        except Exception as e:
            c = {'exc': e}
        if any('exc' in x or not isinstance(x.get('text'), str) for x in (a, b, c)):
            continue
        if a['path'] != c['path'] or 'c1 = ' not in a['text'] or 'c1 = ' not in b['text']:
            continue
        lit_val = a['text'].split('c1 = ', 1)[1]
        lit_twin = b['text'].split('c1 = ', 1)[1]
        want = a['text'].split('c1 = ', 1)[0] + 'c2 = ' + lit_twin + ' AND c1 = ' + lit_val
        norm = lambda t: ' '.join(t.split())
        if norm(c['text']) != norm(want):
            out_recs.append(findings.record('literal-depends-on-other-constants', out[0], ['type:' + val['t']],
                                            {'target': out[0]}, f'alone: {a["text"]!r}; twin alone: {b["text"]!r}; '
                                            f'together: {c["text"]!r}; expected {want!r}', c['text']))
    return out_recs


def judge(case, col):
    val, pos, ctx = case['val'], case['pos'], case.get('ctx', 'plain')
    why = in_domain(val, pos, ctx)
    if why:
        col.excluded(why)
        return []
    classes, hostile = value_classes(val)
    classes = classes + ['pos:' + pos, 'ctx:' + ctx]
    recs = []
    cache = {}
    for out in outputs_for(pos):
        recs.extend(judge_output(out, val, pos, col, cache, ctx))
    # metamorphic clause: the spelling of a literal must not depend on the other constants of the statement
    # (a value-equal constant of another type earlier in the statement: 1 / 1.0 / TRUE)
    if pos == 'where' and ctx == 'plain':
        tw = twin_of(val)
        if tw is not None:
            classes.append('twin-judged')
            recs.extend(twin_check(val, tw))
    if hostile:
        classes.append('nontrivial')
    key = (val['t'], val.get('v'), val.get('node'), pos) + ((ctx,) if ctx != 'plain' else ())
    col.case(key, hostile, classes, {'value': val, 'position': pos, 'context': ctx, 'to_string': cache.get(('text', 'to_string')),
                                     'mysql': cache.get(('text', 'mysql')), 'oracle': cache.get(('text', 'oracle'))})
    return recs


# ------------------------------------------------------------------------------------------------- generators

def exhaustive_values(tier):
    for n in range(EXH_LEN[tier] + 1):
        for combo in itertools.product(ALPHABET, repeat=n):
            yield val_str(''.join(combo))


SHAPE_EXH_LEN = {'quick': 2, 'thorough': 3}


def shape_exhaustive_values(tier):
    for n in range(1, SHAPE_EXH_LEN[tier] + 1):
        for combo in itertools.product(ALPHABET, repeat=n):
            yield val_str(''.join(combo))


SHAPE2_EXH_LEN = {'quick': 1, 'thorough': 2}


def shape2_exhaustive_values(tier):
    for n in range(1, SHAPE2_EXH_LEN[tier] + 1):
        for combo in itertools.product(ALPHABET, repeat=n):
            yield val_str(''.join(combo))


def seed_values():
    for s in SEEDS:
        yield val_str(s)
    for i in INT_SEEDS:
        yield {'t': 'int', 'v': i}
    for f in FLOAT_SEEDS:
        yield {'t': 'float', 'v': f}
    for b in (True, False):
        yield {'t': 'bool', 'v': b}
    for n in ('NullConstant', 'Constant'):
        yield {'t': 'null', 'node': n}
    for d in DATE_SEEDS:
        yield {'t': 'date', 'v': d}
    for d in DATETIME_SEEDS:
        yield {'t': 'datetime', 'v': d}


_BREAKERS = ["'", "\\'", "\\\\'", "''", "\\", '"', '`', ']', "\\\"", "'\\", '\x00', '\n', '%', ':', ';', '']
_PAYLOADS = [' OR 1=1 -- ', '; DROP TABLE t1; --', ' /* ', ' */ ', ' # ', ' -- \n', ' || c1 || ', ') OR (1=1', ', 1) -- ',
             " WHERE 1=1 OR c1='", ' AS x1, c2 AS ', ' UNION SELECT 1 -- ', '%s', ':c1', '%(c1)s', '']
_HOSTILE_CH = list('\'"\\`%:;-/*#\n\r\t\x00 ]$@?n0_Z') + ['é', '\u2028', '\U0001f600']


_KINDS = ['text', 'text', 'hostile', 'hostile', 'hostile', 'inject', 'inject', 'int', 'float', 'bool', 'null', 'date',
          'datetime']


@st.composite
def values(draw, kinds=None):
    k = draw(st.sampled_from(kinds or _KINDS))
    if k == 'text':
        return val_str(draw(st.text(max_size=24)))
    if k == 'hostile':
        return val_str(''.join(draw(st.lists(st.sampled_from(_HOSTILE_CH), min_size=1, max_size=10))))
    if k == 'inject':
        parts = [draw(st.sampled_from(['', 'a', 'zq', "x'", '\\'])), draw(st.sampled_from(_BREAKERS)),
                 draw(st.sampled_from(_PAYLOADS)), draw(st.sampled_from(_BREAKERS))]
        return val_str(''.join(parts))
    if k == 'int':
        return {'t': 'int', 'v': draw(st.one_of(st.integers(-10, 10), st.integers(-2 ** 70, 2 ** 70), st.integers()))}
    if k == 'float':
        f = draw(st.one_of(st.floats(), st.floats(allow_nan=False, allow_infinity=False, width=32),
                           st.floats(min_value=-1e6, max_value=1e6, allow_nan=False)))
        return {'t': 'float', 'v': repr(f)}
    if k == 'bool':
        return {'t': 'bool', 'v': draw(st.booleans())}
    if k == 'null':
        return {'t': 'null', 'node': draw(st.sampled_from(['NullConstant', 'Constant']))}
    if k == 'date':
        return {'t': 'date', 'v': draw(st.dates()).isoformat()}
    d = draw(st.datetimes(timezones=st.one_of(st.none(), st.timezones()) if draw(st.integers(0, 3)) == 0 else st.none()))
    try:
        s = d.isoformat()
        dt.datetime.fromisoformat(s)
        str(d)
    except (ValueError, OverflowError):
        s = d.replace(tzinfo=None).isoformat()
    return {'t': 'datetime', 'v': s}


@st.composite
def cases(draw):
    r = draw(st.integers(0, 7))
    if r <= 2:
        # a statement shape around the position: one the renderers decline (fallback text) / a unary minus over the
        # constant / a value-preserving wrapper (r = 0, 1); a further statement form of vf/gens/c07_shapes.py (r = 2)
        ctx, pos = draw(st.sampled_from(SHAPES2 if r == 2 else SHAPES))
        val = draw(values(['int', 'float'] if ctx == 'neg' else None))
        if in_domain(val, pos, ctx):
            pos = CTX_POS[ctx][0]
        return {'val': val, 'pos': pos, 'ctx': ctx}
    val = draw(values())
    pos = draw(st.sampled_from(POSITIONS))
    if pos == 'insert_raw' and in_domain(val, pos):
        pos = draw(st.sampled_from(('sel', 'where', 'in', 'insert', 'update')))
    return {'val': val, 'pos': pos}


def run_shard(col, k, nshards, tier, seed):
    i = 0
    for val in itertools.chain(seed_values(), exhaustive_values(tier)):
        for pos in POSITIONS:
            i += 1
            if i % nshards != k:
                continue
            c = {'val': val, 'pos': pos}
            for rec in judge(c, col):
                col.fail(rec, c)
    shape_vals = [v for v in itertools.chain(seed_values(), shape_exhaustive_values(tier))]
    for val in shape_vals:
        for ctx, pos in SHAPES:
            if ctx == 'neg' and val['t'] not in ('int', 'float'):
                continue
            i += 1
            if i % nshards != k:
                continue
            c = {'val': val, 'pos': pos, 'ctx': ctx}
            for rec in judge(c, col):
                col.fail(rec, c)
    shape2_vals = [v for v in itertools.chain(seed_values(), shape2_exhaustive_values(tier))]
    for val in shape2_vals:
        for ctx, pos in SHAPES2:
            i += 1
            if i % nshards != k:
                continue
            c = {'val': val, 'pos': pos, 'ctx': ctx}
            for rec in judge(c, col):
                col.fail(rec, c)
    if k == 0:
        col.exhaustive_parts.append(
            f'further statement forms around the position (vf/gens/c07_shapes.py): {len(shape2_vals)} values (the fixed '
            f'seeds + all strings of length <= {SHAPE2_EXH_LEN[tier]} over the hostile alphabet) x '
            f'{[c + "/" + p for c, p in SHAPES2]}')
        col.exhaustive_parts.append(
            f'statement shapes around the position: {len(shape_vals)} values (the fixed seeds + all strings of length <= '
            f'{SHAPE_EXH_LEN[tier]} over the hostile alphabet) x {[c + "/" + p for c, p in SHAPES if c != "neg"]} (shapes '
            f'that SqlalchemyRender declines for some or all names: the fallback text is judged by the target\'s rules) '
            f'and the numeric seeds x unary minus over the constant at {list(CTX_POS["neg"])}')
        n = sum(len(ALPHABET) ** j for j in range(EXH_LEN[tier] + 1))
        col.exhaustive_parts.append(
            f'all {n} strings of length <= {EXH_LEN[tier]} over the hostile alphabet {ALPHABET!r} x {len(POSITIONS)} '
            f'positions x (to_string + {len(SA_NAMES)} SqlalchemyRender names x get_string/get_exec_params)')
        col.exhaustive_parts.append(f'{len(list(seed_values()))} fixed seed values (hostile strings, numbers, booleans, '
                                    f'NULL, dates) x {len(POSITIONS)} positions x all outputs')
    hyp.explore(col, cases(), judge, N[tier], seed,
                shrink_key=lambda r: (r['kind'], r['site'], r['config'].get('target')))
