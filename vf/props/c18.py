"""C18 — tree copies are independent; equality of trees, plan steps and whole plans is lawful.

Four case kinds (case['kind']):
  tree   : parse a statement, copy it (copy() or copy.deepcopy), require equal / same print / same structural image /
           no shared mutable object (identity graph), then apply a drawn sequence of single in-place mutations to the
           COPY (set scalar field, replace child, append/remove/replace list item, alias, parts, parentheses, nested
           dict, object reached through a container such as the Star inside Identifier.parts) and require after every
           step that str() and the structural image (O-struct) of the ORIGINAL are what they were.
  pair   : two statements (identical text / single-token variant / unrelated): for the trees, a few of their sub-nodes,
           their TableColumns and foreign objects: x == x is True, (x == y) is (y == x) and both are bool,
           x == y  =>  str(x) == str(y); when the two trees have the same shape every node is also compared with its counterpart.
  plan   : plan a statement over a fixed catalog (twice, and optionally a single-token variant): the same laws over
           steps and plans, QueryPlan(steps) == QueryPlan(deep-copied steps) is True, equality ignores set_result(),
           every reachable Result hashes and equal Results hash equal.
  result : Result placeholders over ints / sub-step strings: hash works, a == b => hash(a) == hash(b), laws above.
  twin   : ONE statement planned under several catalogs that differ only in what the models are (plain / time series without or
           with group-by columns / other window, horizon, order column): the plans, every step of one plan with every step of
           the other (nested steps included) and one-step plans of them go through the laws, so steps of different classes --
           also a class and its subclass -- whose common attributes agree meet under == (equal => same class and same print).

"prints the same" for steps, plans and TableColumns is judged on sql_image(): the str() of every tree they hold and the repr() of
every plain value and dict key, in order; a failure is tagged with the owner attribute of the first difference (at:Class.attr) and
the mechanism (differs:whitespace-only | numeric-type | dict-order | other).
"""
import copy, re
from hypothesis import strategies as st

from vf import findings, hyp
from vf.gens import corpus, grammar, mutate, c18_shapes
from vf.oracles.struct import struct, diff, walk, _is_node
from vf.props.c02 import site_of

PROPERTY = 'C18'
RULE = ('tree cases = (dialect, accepted text, copy()|deepcopy, <= 10 drawn in-place mutations of the copy); pair cases = '
        'two accepted texts (same / one-token variant / unrelated) whose trees, sub-nodes and TableColumns are compared '
        'pairwise; plan cases = corpus statements (and one-token variants) that plan over a fixed catalog; result cases = '
        'Result placeholders.  Texts: corpus, grammar derivations of all three dialects, qualified-star shapes.  Bounded-exhaustive '
        'law shapes (law_cases): pairs of texts that differ only in the white space inside one quoted name / string (templates per '
        'node class + one quoted position of every corpus statement), all pairs of CREATE TABLE column definitions, all pairs of '
        'spellings of a plain value kept by predictor steps (1 / 1.0 / TRUE ...) and reordered conditions / parameters, names '
        'written as quoted strings of dots at every string position, 300-400 operator chains, odd name parts (a quoted part whose '
        'text is special somewhere: * . ` keyword digits blank ...) at every position of 1..3-part names x places of a statement '
        'and at the names after a dot of the corpus statements, twin plans (one statement of a join/read-a-model family or of the '
        'corpus x catalogs that differ in what the models are, steps compared across the plans), e vs (e) for 22 expressions in 17 '
        'places and quoted vs plain values (state that to_tree() does not show).  Pair cases of two trees of the same shape also '
        'compare every node with its counterpart.  '
        'non-trivial = tree case whose copy has >= 3 mutable objects and >= 1 mutation hit a nested (non-root) object; pair '
        'case with >= 4 compared objects; plan case that planned with >= 1 step; distinct by the whole case')
ASSUMPTIONS = ['"no shared mutable" = the id() sets of library objects, lists, dicts and sets reachable from the original and from '
               'the copy are disjoint (str/int/bool/None/tuples of those are immutable and may be shared)',
               '"prints the same SQL" is compared on str() exactly',
               'plans are judged only for statements that plan_query accepts over the fixed catalog; planner exceptions are C09']
FLOORS = {'quick': {'__nontrivial__': 3000, 'kind:tree': 2000, 'kind:pair': 350, 'kind:plan': 550, 'planned': 550,
                    'mutation-steps': 12000, 'reached-nested': 2000, 'has:star-part': 500, 'pair:equal': 2000, 'pair:unequal': 14000,
                    'plan:steps>=2': 110, 'results-hashed': 1200, 'step-pairs': 1600, 'variant-planned': 90, 'mut:dict-set-new': 60,
                    'mut:parts-item': 500, 'mut:alias': 1200, 'mut:flip-parentheses': 1500, 'mut:list-pop': 500, 'mut:set-field': 4000,
                    'relation:ws-variant': 400, 'relation:column-def': 70, 'origin:dotname': 350, 'origin:oddpart': 900, 'has:str-star-last': 80,
                    'kind:twin': 220, 'twin:sub-vs-base': 300, 'twin:sub-vs-base-agree': 160, 'twin:same-class-equal': 750,
                    'twin:shapes>=2': 110, 'result-pairs': 2000, 'relation:paren-variant': 250, 'relation:quotes-variant': 3,
                    'pair:counterparts': 5000},
          'thorough': {'__nontrivial__': 9000, 'kind:tree': 6000, 'kind:pair': 1000, 'kind:plan': 1600, 'planned': 1600,
                       'mutation-steps': 36000, 'reached-nested': 6000, 'has:star-part': 1500, 'pair:equal': 6000, 'pair:unequal': 42000,
                       'plan:steps>=2': 330, 'results-hashed': 3600, 'step-pairs': 4800, 'variant-planned': 270, 'mut:dict-set-new': 180,
                       'mut:parts-item': 1500, 'mut:alias': 3600, 'mut:flip-parentheses': 4500, 'mut:list-pop': 1500,
                       'mut:set-field': 12000, 'relation:ws-variant': 1200, 'relation:column-def': 70, 'origin:dotname': 350,
                       'origin:oddpart': 9000, 'has:str-star-last': 350, 'kind:twin': 900, 'twin:sub-vs-base': 600,
                       'twin:sub-vs-base-agree': 320, 'twin:same-class-equal': 2400, 'twin:shapes>=2': 300, 'result-pairs': 9000,
                       'relation:paren-variant': 250, 'relation:quotes-variant': 3, 'pair:counterparts': 15000}}
N = {'quick': 740, 'thorough': 8400}

_LEX = {}
_SPANS = {}
_QSPANS = {}            # the statements of _SPANS that have a name or a quoted string
_PLANNABLE = []          # [(dialect, sql, catalog)]
_PLAN_SPANS = {}         # (dialect, sql) -> [(type, src)]
_CSPANS = {}             # the statements of _SPANS that have a constant
_DOTSPANS = {}           # dialect -> [(spans, [positions of a name token that follows a dot])]
_MODEL_PLANNABLE = []    # the (dialect, sql, catalog) of _PLANNABLE whose plan applies a model

STAR_SHAPES = ['select t.* from t', 'select a.b.* from a.b', 'select t.*, u.* from t join u on t.a = u.a', 'select count(t.*) from t',
               'select * from t', 'select t.* from t as t where t.a = 1', 'select x.* from (select t.* from t) as x',
               'insert into t (a) select u.* from u', 'select t.* from t union select u.* from u', 'select `t`.* from t',
               'select t.*, 1 as one from t order by t.a', 'select distinct t.* from int1.t as t limit 1',
               'with c as (select t.* from t) select c.* from c', 'delete from t where a in (select u.* from u)',
               'select t.* from t using a = 1', 'create table n (select t.* from t)', 'select case when a then 1 end, t.* from t',
               'update t set a = 1 where b in (select u.* from u)', 'select pred.* from int1.t join mindsdb.pred']

# every node kind carrying the parentheses flag / an alias (custom copy code has to keep both)
STAR_SHAPES += ['select (a) from t', 'select (t.a) + 1 as x from t', 'select (a) as x, (t.b) y, (1), (\'s\') from t', 'select (a + b) * (c) from t',
                'select (f(a)), (select 1), (a between 1 and 2), (not a), (cast(a as int)) from t', 'select (case when (a) then (b) end) from t',
                'select * from t where ((a) = (b)) and ((t.c) in ((1), (2)))', 'select * from t order by (a), (t.b) desc',
                'select * from t group by (a) having (count(*)) > (1)', 'select (t.a) from (select (a) from t) as t',
                'select * from t1 join t2 on (t1.a) = (t2.a)', 'insert into t (a) values ((1)), ((b))', 'update t set a = (b) where (c) = 1',
                'delete from t where (a) = (1)', 'select (a) from t union select (b) from u', 'select -(a), (-a), ((a)) from t',
                'select (a) from int1.t join mindsdb.pred', 'select (@v), (latest), (?) from t', 'select sum((a)) over (partition by (b)) from t',
                'select (t.*) from t', 'select count((t.*)) from t']

# ---- shapes for the equality law "equal => prints the same" --------------------------------------------------------
# white space inside a quoted name {q} / string {s}: one slot per node class that carries an alias, a name or a string
WS_TEMPLATES = ['select a + 1 as {q} from t', 'select null as {q}', 'select cast(a as int) as {q} from t', 'select {q}.f(a) from t',
                'select case when a then 1 end as {q} from t', 'select * from int1 (raw query) as {q}', 'select * from int1 ({q})',
                'create table t (a int default {q})', 'evaluate m from (select 1) using k = {s}', 'select (1, 2) as {q}',
                'select ? as {q}', 'select a as {q} from t', 'select {q} from t', 'select * from {q}', 'select * from t as {q}',
                'select {s} from t', 'select * from t where a = {s}', 'select f(a) as {q} from t', 'select * from (select 1) as {q}',
                'select a from t order by {q}', 'select sum(a) over (partition by {q}) from t', 'select @v as {q}',
                'select sum(a) over (order by b rows between {q} preceding and current row) from t', 'select latest as {q} from t',
                'select not a as {q} from t', 'select a between 1 and 2 as {q} from t', 'select * from t1 join t2 as {q} on 1 = 1',
                'insert into t (a) values ({s})', 'update t set a = {s}', 'create model m predict a using k = {s}',
                'select * from t using k = {s}', 'select a in (1, 2) as {q} from t', 'select (select 1) as {q}', 'select t.* as {q} from t',
                'select exists (select 1) as {q}', 'with {q} as (select 1) select 2', 'select -a as {q} from t', 'select f(a) from t as {q}',
                'create database d with engine = {s}', 'create ml_engine e from h using k = {s}', 'select * from t where a like {s}',
                'select interval {s} as {q}', 'show tables like {s}', 'set names {q}', 'drop table {q}', 'describe {q}', 'use {q}',
                'create view v from int1 (select {s})', 'select a from t group by {q} having {q} = {s}', 'delete from t where a = {s}']
WS_PLAN_TEMPLATES = ['select a + 1 as {q} from int1.t', 'select * from int1.{q}', 'select {q} from int1.t where a = {s}',
                     'select * from int1.t join mindsdb.pred as {q}', 'select * from mindsdb.pred where a = {s}',
                     'select * from int1.t join mindsdb.pred using k = {s}', 'select null as {q} from int1.t join int2.u',
                     'insert into int1.t (a) select {s} as {q} from int2.u', 'select * from int1 (raw {q} query)',
                     'create table int1.t (select a as {q} from int2.u)', 'update int1.t set a = {s} where b = 1',
                     'delete from int1.t where a = {s}', 'select cast(a as int) as {q} from int1.t union select 1 from int2.u']
WS_FILLS = ['x  y', 'x\ty', 'x    y']
# column definitions of CREATE TABLE: every pair of definitions is compared as tree, TableColumn, plan step and plan
COLUMN_DEFS = [b + n for b in ('a int', 'a int default x', 'a int primary key', 'a int (10)', 'a int (10) default x', 'a varchar', 'b int')
               for n in ('', ' NULL', ' NOT NULL')]
# plain values a plan step keeps outside of trees (row_dict, params): the same number as integer, float and boolean
STEP_VALUES = ['1', '1.0', 'TRUE', "'1'", '0', '0.0', 'FALSE', "'0'", '2', 'NULL']
STEP_VALUE_TEMPLATES = ['select * from mindsdb.pred where a = {v}', 'select * from int1.t join mindsdb.pred using a = {v}',
                        'select * from mindsdb.pred where a = {v} and b = 2', 'select * from int1.t join mindsdb.pred using a = {v}, b = 1',
                        'select * from mindsdb.pred where a = 3 using k = {v}']
STEP_ORDER_PAIRS = [('select * from mindsdb.pred where a = 1 and b = 2', 'select * from mindsdb.pred where b = 2 and a = 1'),
                    ('select * from mindsdb.pred where a = 1 and b = 1', 'select * from mindsdb.pred where b = 1 and a = 1'),
                    ('select * from mindsdb.pred where a = 1 and b = 2 and c = 3', 'select * from mindsdb.pred where c = 3 and a = 1 and b = 2'),
                    ('select * from int1.t join mindsdb.pred using a = 1, b = 2', 'select * from int1.t join mindsdb.pred using b = 2, a = 1'),
                    ('select * from mindsdb.pred where a = 1 using x = 1, y = 2', 'select * from mindsdb.pred where a = 1 using y = 2, x = 1'),
                    ("select * from mindsdb.pred where a = 'p' and b = 'q'", "select * from mindsdb.pred where b = 'q' and a = 'p'")]
# ---- shapes for "every parser-produced tree can be copied": names written as quoted strings made of dots -----------------
DOT_TEMPLATES = ['select a as {n} from t', 'select a {n} from t', 'select * from t1 join t2 {n} on 1 = 1', 'select * from t {n}',
                 'select * from t as {n}', 'create knowledge_base k using storage = {n}', 'create knowledge_base k using model = {n}, storage = s',
                 'create chatbot c using database = {n}, model = m', 'create chatbot c using database = d, model = {n}',
                 'select f(a) as {n} from t', 'select * from (select 1) as {n}', 'select 1 as {n}', 'select {n} from t', 'select * from {n}',
                 'select a from t order by {n}', 'create table {n} (a int)', 'insert into {n} (a) values (1)', 'drop table {n}',
                 'create model {n} predict a', 'create database {n}', 'select {n}.a from t', 'select * from a.{n}', 'use {n}',
                 'create skill s using type = {n}', 'create agent a using model = {n}', 'create job j (select 1) if ({n})',
                 'create view {n} from int1 (select 1)', 'create ml_engine e from {n}', 'update t set a = 1 from (select 1) as {n}']
DOT_NAMES = ['"."', "'.'", '`.`', '".."', "'..'", '"a."', '".a"', "'. '"]
DEEP_CHAINS = [(300, ' and '), (300, ' + '), (400, ' or ')]

CATALOGS = ('none', 'int', 'mindsdb')
INTEGRATIONS = ['int', 'int1', 'int2', 'integration1', 'proj', 'files', 'pg', 'mysql', 'snowflake', 'chromadb', 'dummy_data', 'mariadb',
                'postgres', 'ds', 'db', 'src', 'integration_name', 'int3', 'my_db', 'datasource', 'test', 'some_integration',
                'clickhouse', 'a', 'b', 'kb']


def predictors():
    """Fresh predictor metadata (the planner writes into these dicts)."""
    return [{'name': 'pred', 'integration_name': 'mindsdb'}, {'name': 'pred1', 'integration_name': 'mindsdb'},
            {'name': 'pred2', 'integration_name': 'mindsdb'},
            {'name': 'tp3', 'integration_name': 'mindsdb', 'timeseries': True, 'order_by_column': 'pickup_hour',
             'group_by_columns': ['vendor_id'], 'window': 10},
            {'name': 'ts', 'integration_name': 'mindsdb', 'timeseries': True, 'order_by_column': 't', 'group_by_columns': [],
             'window': 3},
            {'name': 'embedding_model', 'integration_name': 'mindsdb'}, {'name': 'model', 'integration_name': 'proj'},
            {'name': 'pred', 'integration_name': 'proj'}, {'name': 'predictor', 'integration_name': 'mindsdb'}]


def plan(tree, catalog):
    from mindsdb_sql.planner import plan_query
    kw = {}
    if catalog != 'none':
        kw['default_namespace'] = catalog
    return plan_query(tree, integrations=list(INTEGRATIONS), predictor_metadata=predictors(), **kw)


VARIANT_TOKENS = ('INTEGER', 'FLOAT', 'QUOTE_STRING', 'DQUOTE_STRING', 'ID')
CONSTANT_TOKENS = ('INTEGER', 'FLOAT', 'QUOTE_STRING')
# state of a node that to_tree() does not show: a pair of parentheses around {e}, quotes around a value
PAREN_TEMPLATES = ['select {e} from t', 'select a from t where a = {e}', 'select f({e}) from t', 'select a from t order by {e}',
                   'select {e} as x, 2 from t', 'select a from t where b in ({e}, 2)', 'select a from t where b between {e} and 9',
                   'select case when a then {e} end from t', 'insert into t (a) values ({e})', 'update t set a = {e}',
                   'select a from t group by {e}', 'select -{e} from t', 'select {e} + 1 from t', 'select a from t limit 1 offset 2 using k = {e}',
                   'select cast({e} as int) from t', 'select a from t where {e} is null', 'select * from t1 join t2 on {e} = 1']
PAREN_VALUES = ['1', '1.5', "'s'", 'a', 't.a', 'null', 'true', '@v', '?', 'f(1)', 'a + 1', 'not a', '(select 1)', 'cast(a as int)', 't.*', '*',
                'case when a then 1 end', 'a between 1 and 2', 'a in (1)', 'latest', 'count(*)', 'a is null']
QUOTES_PAIRS = [('set names utf8', "set names 'utf8'"), ('set character set utf8', "set character set 'utf8'"), ('set charset utf8', "set charset 'utf8'"),
                ('set names utf8 collate utf8_bin', "set names utf8 collate 'utf8_bin'"), ('select interval 1 day', "select interval '1' day"),
                ('set names default', "set names 'default'"), ('show tables like a', "show tables like 'a'"), ('select a from t limit 1', "select a from t limit '1'")]


def prepare(tier):
    from mindsdb_sql import get_lexer_parser, parse_sql
    import mindsdb_sql.planner  # noqa
    for d in corpus.DIALECTS:
        lexer, parser = get_lexer_parser(d)
        _LEX[d] = type(lexer)
        grammar.get(d)
        sp = []
        for x in corpus.accepted(d):
            spans = mutate.lex_spans(_LEX[d], re.sub(r'[\s;]+$', '', x['sql']))
            if spans and len(spans) <= 80 and any(y[0] in VARIANT_TOKENS for y in spans):
                sp.append([(y[0], y[1]) for y in spans])
        _SPANS[d] = sp
        _QSPANS[d] = [x for x in sp if any(ty in QUOTED for ty, _ in x)]
        _CSPANS[d] = [x for x in sp if any(ty in CONSTANT_TOKENS for ty, _ in x)]
        _DOTSPANS[d] = [(x, ps) for x in sp for ps in [after_dot_positions(x)] if ps]
    # statements of the corpus that plan over the fixed catalog
    seen = set()
    for x in corpus.accepted():
        key = (x['dialect'], ' '.join(x['sql'].split()))
        if key in seen:
            continue
        seen.add(key)
        for cat in CATALOGS:
            try:
                p = plan(parse_sql(x['sql'], x['dialect']), cat)
            except Exception:
                continue
            if p.steps:
                _PLANNABLE.append((x['dialect'], x['sql'], cat))
                if cat != 'int' and any(clsname(n).startswith('Apply') for n in all_steps(p)):
                    _MODEL_PLANNABLE.append((x['dialect'], x['sql'], cat))
                if (x['dialect'], x['sql']) not in _PLAN_SPANS:
                    spans = mutate.lex_spans(_LEX[x['dialect']], re.sub(r'[\s;]+$', '', x['sql']))
                    _PLAN_SPANS[(x['dialect'], x['sql'])] = [(y[0], y[1]) for y in spans] if spans else None


def after_dot_positions(spans):
    return [i for i, (ty, _) in enumerate(spans) if ty == 'ID' and i > 0 and spans[i - 1][0] == 'DOT']


def all_steps(o):
    """The steps of a plan (or below a step), nested ones (MapReduceStep.step, MultipleSteps.steps) included, in walk order."""
    from mindsdb_sql.planner.steps import PlanStep
    return [n for n in walk(o) if isinstance(n, PlanStep)]


# ---- identity graph -------------------------------------------------------------------------------------------------
def mutables(o, label='$', acc=None):
    """id -> (object, label) for every mutable object reachable from o, in traversal order.  label = owner.field>Class."""
    if acc is None:
        acc = {}
    if id(o) in acc:
        return acc
    if isinstance(o, (list, set)):
        acc[id(o)] = (o, label + '>' + type(o).__name__)
        for x in o:
            mutables(x, label + '[]', acc)
    elif isinstance(o, (tuple, frozenset)):
        for x in o:
            mutables(x, label + '()', acc)
    elif isinstance(o, dict):
        acc[id(o)] = (o, label + '>dict')
        for k, v in o.items():
            mutables(k, label + '{key}', acc)
            mutables(v, label + '{}', acc)
    elif _is_node(o):
        acc[id(o)] = (o, label + '>' + type(o).__name__)
        for k, v in vars(o).items():
            mutables(v, type(o).__name__ + '.' + k, acc)
    return acc


def norm_path(p):
    p = re.sub(r'\[\d+\]', '', p).replace('$', '')
    hops = re.findall(r'<(\w+)>\.(\w+)', p)
    return '.'.join(f'{c}.{f}' for c, f in hops[-2:]) or p


# ---- in-place mutations of the copy ---------------------------------------------------------------------------------
def fresh_node(vi):
    from mindsdb_sql.parser.ast import Identifier, Constant, Star
    return [lambda: Identifier(parts=['zz']), lambda: Constant(99), lambda: Star(), lambda: Constant('zz')][vi % 4]()


def mutate_object(o, pi, vi):
    """Apply one in-place mutation to the mutable object o.  Returns a short description of what was done."""
    from mindsdb_sql.parser.ast import Identifier
    if isinstance(o, list):
        if o and isinstance(o[0], str):
            item = 'zz'
        elif o and isinstance(o[0], (list, tuple)):
            item = [fresh_node(vi)]
        else:
            item = fresh_node(vi)
        op = ('append', 'pop', 'replace', 'insert0', 'clear', 'reverse')[pi % 6]
        if not o and op in ('pop', 'replace', 'clear', 'reverse'):
            op = 'append'
        if op == 'reverse' and len(o) < 2:
            op = 'append'
        if op == 'append':
            o.append(item)
        elif op == 'pop':
            o.pop(vi % len(o))
        elif op == 'replace':
            o[vi % len(o)] = item
        elif op == 'insert0':
            o.insert(0, item)
        elif op == 'clear':
            del o[:]
        else:
            o.reverse()
        return 'list-' + op
    if isinstance(o, set):
        o.add('zz')
        return 'set-add'
    if isinstance(o, dict):
        op = ('set-new', 'del', 'replace-value', 'clear')[pi % 4]
        keys = sorted(o, key=repr)
        if not keys and op != 'set-new':
            op = 'set-new'
        if op == 'set-new':
            o['zz'] = fresh_node(vi)
        elif op == 'del':
            del o[keys[vi % len(keys)]]
        elif op == 'replace-value':
            o[keys[vi % len(keys)]] = fresh_node(vi)
        else:
            o.clear()
        return 'dict-' + op
    # library object
    fields = sorted(vars(o))
    op = ('set-field', 'set-field', 'flip-parentheses', 'alias', 'parts')[pi % 5]
    if op == 'flip-parentheses' and not isinstance(getattr(o, 'parentheses', None), bool):
        op = 'set-field'
    if op == 'alias' and 'alias' not in fields:
        op = 'set-field'
    if op == 'parts' and not (isinstance(getattr(o, 'parts', None), list) and o.parts):
        op = 'set-field'
    if op == 'flip-parentheses':
        o.parentheses = not o.parentheses
        return 'flip-parentheses'
    if op == 'alias':
        o.alias = Identifier(parts=['zz']) if o.alias is None else None
        return 'alias'
    if op == 'parts':
        o.parts[vi % len(o.parts)] = 'zz'
        return 'parts-item'
    if not fields:
        o.zz = 1
        return 'add-attribute'
    f = fields[vi % len(fields)]
    old = getattr(o, f)
    if isinstance(old, bool):
        new = not old
    elif isinstance(old, int):
        new = old + 1
    elif isinstance(old, float):
        new = old + 1.0
    elif isinstance(old, str):
        new = old + '_zz'
    elif old is None:
        new = Identifier(parts=['zz']) if f == 'alias' else 'zz'
    elif isinstance(old, list):
        new = old[:-1] if old else [fresh_node(vi)]
    elif isinstance(old, dict):
        new = {}
    else:
        new = fresh_node(vi)
    setattr(o, f, new)
    return 'set-field:' + ('scalar' if isinstance(old, (bool, int, float, str)) or old is None else
                           'list' if isinstance(old, list) else 'dict' if isinstance(old, dict) else 'child')


# ---- equality laws --------------------------------------------------------------------------------------------------
def clsname(x):
    return type(x).__name__


def safe_str(x):
    try:
        return str(x), None
    except RecursionError:
        raise
    except Exception as e:
        return None, e


def sql_image(x, raws=None):
    """What an object 'prints': str() of a tree; for a plan step / plan / TableColumn the str() of every tree it holds and the
    repr() of every plain value (dict keys included), in order.  Items are (owner Class.attribute, tag, text); `raws`
    (optional list) receives the plain values next to their items, None for the others."""
    from mindsdb_sql.parser.ast.base import ASTNode
    out = []
    if raws is None:
        raws = []

    def put(path, tag, text, raw=None):
        out.append((path, tag, text))
        raws.append(raw)

    def rec(v, path):
        if isinstance(v, ASTNode):
            put(path, 'sql', str(v))
        elif isinstance(v, (list, tuple)):
            for i in v:
                rec(i, path)
        elif isinstance(v, dict):
            for k in v:
                put(path, 'key', repr(k))
                rec(v[k], path)
        elif _is_node(v):
            put(path, 'obj', clsname(v))
            for k, val in sorted(vars(v).items()):
                if k != 'result_data':
                    rec(val, clsname(v) + '.' + k)
        else:
            put(path, 'val', repr(v), v)
    rec(x, 'tree')
    return tuple(out)


def image_diff_features(ix, rx, iy, ry):
    """Tags that name how two printed images differ: where (owner attribute of the first difference) and the mechanism."""
    n = min(len(ix), len(iy))
    i = next((j for j in range(n) if ix[j] != iy[j]), n)
    if i >= n:
        return ['differs:length']
    (pa, ta, xa), (pb, tb, xb) = ix[i], iy[i]
    feats = [] if pa == 'tree' else ['at:' + pa]
    if ta == tb == 'obj' and xa != xb:
        feats.append('differs:class')
    elif ta == tb == 'sql' and ' '.join(xa.split()) == ' '.join(xb.split()):
        feats.append('differs:whitespace-only')
    elif ta == tb == 'key' and sorted(ix) == sorted(iy):
        feats.append('differs:dict-order')
    elif ta == tb == 'val' and type(rx[i]) is not type(ry[i]) and isinstance(rx[i], (bool, int, float)) \
            and isinstance(ry[i], (bool, int, float)) and rx[i] == ry[i]:
        feats.append('differs:numeric-type')
    else:
        feats.append('differs:other')
    return feats


def no_parts_identifier(o):
    """True when an Identifier without parts is reachable from o (a name written as a string of dots only)."""
    return any(clsname(n) == 'Identifier' and getattr(n, 'parts', None) == [] for n, _ in mutables(o).values())


class Laws:
    def __init__(self, cfg, text):
        self.cfg, self.text, self.out = cfg, text, []
        self.n_equal = self.n_unequal = 0

    def rec(self, kind, site, detail, feats=()):
        self.out.append(findings.record(kind, site, feats, self.cfg, detail, self.text))

    def eq(self, x, y):
        """x == y as ('ok', value) or ('crash', exc)."""
        try:
            return 'ok', (x == y)
        except RecursionError:
            raise
        except Exception as e:
            return 'crash', e

    def reflexive(self, x, what=''):
        k, v = self.eq(x, x)
        if k == 'crash':
            self.rec('eq-crash', site_of(v), f'{what}x == x on {clsname(x)}: {type(v).__name__}: {v}')
        elif v is not True:
            self.rec('eq-not-reflexive', clsname(x), f'{what}x == x is {v!r} for {clsname(x)} {short(x)}', ['returned:' + clsname(v)])

    def must_equal(self, x, y, kind, what):
        """x and y are equal by construction (copy / deep-copied steps): both directions must be True."""
        ok = True
        for a, b, d in ((x, y, 'x == y'), (y, x, 'y == x')):
            k, v = self.eq(a, b)
            if k == 'crash':
                self.rec('eq-crash', site_of(v), f'{what}: {d} on {clsname(x)}: {type(v).__name__}: {v}')
                ok = False
            elif v is not True:
                self.rec(kind, clsname(x), f'{what}: {d} is {v!r} for {clsname(x)} {short(x)}', ['returned:' + clsname(v)])
                ok = False
        return ok

    def pair(self, x, y, what=''):
        """symmetric, bool, equal => same print."""
        k1, v1 = self.eq(x, y)
        k2, v2 = self.eq(y, x)
        names = f'{clsname(x)} vs {clsname(y)}'
        if k1 == 'crash' or k2 == 'crash':
            e = v1 if k1 == 'crash' else v2
            if k1 != k2:
                self.rec('eq-asymmetric', pairsite(x, y), f'{what}{names}: one direction raises {type(e).__name__}: {e}, the other '
                         f'returns {(v2 if k1 == "crash" else v1)!r}; {short(x)} / {short(y)}', ['one-side-raises'])
            else:
                self.rec('eq-crash', site_of(e), f'{what}{names}: {type(e).__name__}: {e}')
            return None
        for v in (v1, v2):
            if not isinstance(v, bool):
                self.rec('eq-not-bool', pairsite(x, y), f'{what}{names}: == returned {v!r}; {short(x)} / {short(y)}', ['returned:' + clsname(v)])
                return None
        if v1 is not v2:
            self.rec('eq-asymmetric', pairsite(x, y), f'{what}{names}: x == y is {v1}, y == x is {v2}; {short(x)} / {short(y)}')
            return None
        if v1:
            self.n_equal += 1
            rx, ry = [], []
            try:
                ix, iy = sql_image(x, rx), sql_image(y, ry)
            except RecursionError:
                raise
            except Exception:
                return v1
            if ix != iy:
                i = next((j for j in range(min(len(ix), len(iy))) if ix[j] != iy[j]), 0)
                self.rec('eq-print-diff', pairsite(x, y), f'{what}{names} compare equal but print {str(ix[i:i + 2])[:220]!r} vs '
                         f'{str(iy[i:i + 2])[:220]!r}', image_diff_features(ix, rx, iy, ry))
        else:
            self.n_unequal += 1
        return v1


def pairsite(x, y):
    a, b = sorted([clsname(x), clsname(y)])
    return a if a == b else f'{a}~{b}'


def short(x):
    try:
        s = repr(x)
    except Exception:
        s = '<' + clsname(x) + '>'
    return ' '.join(re.sub(r' at 0x[0-9a-f]+', '', s).split())[:120]


# ---- judge ----------------------------------------------------------------------------------------------------------
def parse_or_none(col, d, sql, tag, count=True):
    from mindsdb_sql import parse_sql
    from mindsdb_sql.exceptions import ParsingException
    from sly.lex import LexError
    try:
        return parse_sql(sql, d)
    except (ParsingException, LexError):
        if count:
            col.case((tag, 'rej', d, sql), False, ['rejected', 'rejected:' + tag])
    except RecursionError:
        col.excluded('recursion')
    except Exception:
        col.excluded('internal-error on parse (C02)')
    return None


def judge(case, col):
    k = case['kind']
    try:
        if k == 'tree':
            return judge_tree(case, col)
        if k == 'pair':
            return judge_pair(case, col)
        if k == 'plan':
            return judge_plan(case, col)
        if k == 'result':
            return judge_result(case, col)
        if k == 'twin':
            return judge_twin(case, col)
    except RecursionError:
        col.excluded('recursion')
        return []
    raise ValueError('unknown case kind ' + str(k))


def judge_tree(case, col):
    d, sql, how, muts = case['dialect'], case['sql'], case.get('how', 'copy'), case.get('muts', [])
    origin = case.get('origin', '?').split(':')[0]
    T = parse_or_none(col, d, sql, 'tree')
    if T is None:
        return []
    stmt = clsname(T)
    cfg = {'how': how}
    st0 = struct(T)
    s0, err = safe_str(T)
    if err is not None:
        col.excluded("tree's own str() raises (C01)")
        return []
    if struct(T) != st0:
        col.excluded('printing rewrites the tree (C01)')
        return []
    L = Laws(cfg, sql)
    try:
        C = T.copy() if how == 'copy' else copy.deepcopy(T)
    except RecursionError:
        # the tree was parsed and printed within the recursion limit (and compares, next line, else the case is dropped):
        # only the copy needs more frames per tree level
        T == T
        L.rec('copy-crash', 'RecursionError@copy', f'{how} of {stmt} raises RecursionError; the tree parses, prints ({len(s0)} '
              f'characters) and compares within the same recursion limit', ['deep-tree'])
        col.case(('tree', d, sql, how), True, ['kind:tree', 'stmt:' + stmt, 'deep-tree-copy'])
        return L.out
    except Exception as e:
        L.rec('copy-crash', site_of(e), f'{how} of {stmt}: {type(e).__name__}: {e}',
              ['identifier:no-parts'] if no_parts_identifier(T) else [])
        col.case(('tree', d, sql, how), True, ['kind:tree', 'stmt:' + stmt, 'origin:' + origin])
        return L.out
    if struct(T) != st0:
        L.rec('original-changed', stmt, f'copying changed the original: {diff(st0, struct(T))}', ['by:copy'])
    L.reflexive(T)
    L.must_equal(C, T, 'copy-not-equal', f'{how}() vs original')
    sc, cerr = safe_str(C)
    if cerr is not None:
        L.rec('copy-print-diff', site_of(cerr), f'str(copy) raises {type(cerr).__name__}: {cerr}')
    elif sc != s0:
        L.rec('copy-print-diff', stmt, f'{sc!r} vs original {s0!r}')
    stc = struct(C)
    if stc != st0:
        dd = diff(st0, stc)
        L.rec('copy-struct-diff', norm_path(dd[0]), str(dd))
    mt, mc = mutables(T), mutables(C)
    shared = [i for i in mt if i in mc]
    seen_sites = set()
    for i in shared:
        site = re.sub(r'\[\]|\(\)|\{\}', '', mt[i][1])
        if site not in seen_sites:
            seen_sites.add(site)
            L.rec('shared-mutable', site, f'{clsname(mt[i][0])} object reachable from the original at {mt[i][1]} and from the copy at '
                  f'{mc[i][1]} is the same object')
    # drawn sequence of in-place mutations of the copy
    classes = ['kind:tree', 'stmt:' + stmt, 'dialect:' + d, 'origin:' + origin, 'how:' + how]
    has_star_part = any(clsname(o) == 'Star' and lab.startswith('Identifier.parts') for o, lab in mt.values())
    if has_star_part:
        classes.append('has:star-part')
    # a name of several parts whose LAST part is the string '*' (a quoted name, not the star)
    if any(clsname(o) == 'Identifier' and len(o.parts) > 1 and isinstance(o.parts[-1], str) and o.parts[-1] == '*' for o, _ in mt.values()):
        classes.append('has:str-star-last')
    if case.get('form'):
        classes.append('oddpart-form:' + case['form'])
    nested = 0
    steps = 0
    for (oi, pi, vi) in muts:
        objs = list(mutables(C).values())
        if not objs:
            break
        idx = oi % len(objs)
        o, lab = objs[idx]
        try:
            what = mutate_object(o, pi, vi)
        except RecursionError:
            raise
        except Exception as e:      # the harness could not apply this edit (e.g. read-only attribute): skip the step
            col.excluded('mutation not applicable: ' + type(e).__name__)
            continue
        steps += 1
        classes.append('mut:' + what.split(':')[0])
        if idx > 0:
            nested += 1
        s1, e1 = safe_str(T)
        st1 = struct(T)
        if e1 is not None or s1 != s0 or st1 != st0:
            site = re.sub(r'\[\]|\(\)|\{\}', '', lab)
            how_seen = (f'str(original) now raises {type(e1).__name__}: {e1}' if e1 is not None else
                        f'original prints {s1!r}, was {s0!r}' if s1 != s0 else f'structure of the original changed: {diff(st0, st1)}')
            L.rec('original-changed', site, f'step {steps}: {what} on {clsname(o)} at {lab} of the copy; {how_seen}',
                  ['printing-changed' if (e1 is not None or s1 != s0) else 'structure-only'])
            break
    col.cls(*['mutation-steps'] * steps)
    if nested:
        classes.append('reached-nested')
    nontrivial = len(mc) >= 3 and nested >= 1
    col.case(('tree', d, ' '.join(sql.split()), how, muts), nontrivial, classes,
             {'kind': 'tree', 'dialect': d, 'sql': sql, 'how': how, 'mutations': steps, 'mutable_objects': len(mc)})
    return L.out


def sample_nodes(T, limit=7):
    """The tree, then sub-objects in walk order, at most one per class beyond the first few."""
    out, seen_cls = [], set()
    for i, n in enumerate(walk(T)):
        c = clsname(n)
        if i < 3 or c not in seen_cls:
            out.append(n)
            seen_cls.add(c)
        if len(out) >= limit:
            break
    return out


FOREIGN = [None, 'x', 1, ('a',), []]


def judge_pair(case, col):
    a, b = case['a'], case['b']
    Ta = parse_or_none(col, a['dialect'], a['sql'], 'pair')
    if Ta is None:
        return []
    Tb = parse_or_none(col, b['dialect'], b['sql'], 'pair')
    if Tb is None:
        return []
    text = a['sql'] + '  <->  ' + b['sql']
    for T in (Ta, Tb):
        s, err = safe_str(T)
        if err is not None:
            col.excluded("tree's own str() raises (C01)")
            return []
        try:
            T.to_tree()
        except RecursionError:
            raise
        except Exception:
            col.excluded("tree's own to_tree() raises (C01)")
            return []
    L = Laws({'relation': case.get('relation', '?')}, text)
    A, B = sample_nodes(Ta), sample_nodes(Tb)
    for x in A + B:
        L.reflexive(x)
    for x in A:
        for y in B:
            L.pair(x, y)
    # two trees of the same shape (a variant in one token / in a pair of parentheses): every node with its counterpart
    wa, wb = list(walk(Ta)), list(walk(Tb))
    aligned = 0
    if Ta is not Tb and len(wa) == len(wb) and all(type(x) is type(y) for x, y in zip(wa, wb)):
        for x, y in list(zip(wa, wb))[:40]:
            L.pair(x, y, 'counterparts: ')
            aligned += 1
    for x in A[:3]:
        for y in FOREIGN:
            L.pair(x, y, 'foreign: ')
    # TableColumn objects
    for x in A:
        if clsname(x) == 'TableColumn':
            L.pair(x, copy.deepcopy(x), 'TableColumn copy: ')
    classes = ['kind:pair', 'relation:' + case.get('relation', '?'), 'stmt:' + clsname(Ta)]
    col.cls(*['pair:equal'] * L.n_equal)
    col.cls(*['pair:unequal'] * L.n_unequal)
    col.cls(*['pair:counterparts'] * aligned)
    col.case(('pair', a['dialect'], a['sql'], b['dialect'], b['sql']), len(A) + len(B) >= 4, classes,
             {'kind': 'pair', 'a': a, 'b': b, 'compared': len(A) * len(B), 'equal_pairs': L.n_equal})
    return L.out


def results_in(o):
    return [n for n in walk(o) if clsname(n) == 'Result']


def judge_plan(case, col):
    from mindsdb_sql.planner.query_plan import QueryPlan
    from mindsdb_sql.planner.step_result import Result
    d, sql, cat = case['dialect'], case['sql'], case['catalog']
    cfg = {'catalog': cat}

    def build(text, count=False):
        T = parse_or_none(col, d, text, 'plan', count)
        if T is None:
            return None
        try:
            return plan(T, cat)
        except RecursionError:
            raise
        except Exception:
            return False

    P1 = build(sql, True)
    if P1 is None:
        return []
    if P1 is False or not P1.steps:
        col.case(('plan', d, sql, cat, 'unplannable'), False, ['kind:plan', 'unplannable'])
        return []
    P2 = build(sql)
    L = Laws(cfg, sql)
    classes = ['kind:plan', 'planned', 'catalog:' + cat, 'steps:' + str(min(len(P1.steps), 6))]
    if len(P1.steps) >= 2:
        classes.append('plan:steps>=2')
    for s in P1.steps:
        classes.append('step:' + clsname(s))
    # plans
    L.reflexive(P1, 'plan: ')
    for y in FOREIGN[:3]:
        L.pair(P1, y, 'plan vs foreign: ')
    # steps: reflexive, deep copy equal, equality ignores set_result()
    copies = []
    all_equal = True
    for s in P1.steps:
        L.reflexive(s, 'step: ')
        try:
            c = copy.deepcopy(s)
        except Exception as e:
            L.rec('copy-crash', site_of(e), f'deepcopy of {clsname(s)}: {type(e).__name__}: {e}',
                  ['identifier:no-parts'] if no_parts_identifier(s) else [])
            all_equal = False
            continue
        copies.append(c)
        if not L.must_equal(s, c, 'copy-not-equal', 'step vs its deep copy'):
            all_equal = False
        c2 = copy.deepcopy(s)
        c2.set_result('data')
        L.must_equal(s, c2, 'copy-not-equal', 'step vs its deep copy after set_result()')
        for y in FOREIGN[:2]:
            L.pair(s, y, 'step vs foreign: ')
    n_pairs = 0
    for i, x in enumerate(P1.steps):
        for y in P1.steps[i + 1:]:
            L.pair(x, y, 'steps of one plan: ')
            n_pairs += 1
    # two plans built from equal steps compare equal
    if all_equal and len(copies) == len(P1.steps):
        Q1 = QueryPlan(steps=[copy.deepcopy(s) for s in P1.steps])
        Q2 = QueryPlan(steps=copies)
        L.must_equal(Q1, Q2, 'equal-steps-unequal-plans', 'QueryPlan(steps) vs QueryPlan(deep-copied steps)')
    # the same statement planned twice
    if isinstance(P2, QueryPlan) and len(P2.steps) == len(P1.steps):
        same = True
        for x, y in zip(P1.steps, P2.steps):
            r = L.pair(x, y, 'same statement planned twice: ')
            n_pairs += 1
            same = same and r is True
        if same:
            L.must_equal(P1, P2, 'equal-steps-unequal-plans', 'the same statement planned twice, all steps pairwise equal')
    # a one-token variant of the statement
    if case.get('sql2'):
        P3 = build(case['sql2'])
        if isinstance(P3, QueryPlan) and P3.steps:
            classes.append('variant-planned')
            L.text = sql + '  <->  ' + case['sql2']
            r = L.pair(P1, P3, 'plan vs plan of variant: ')
            for x, y in zip(P1.steps, P3.steps):
                L.pair(x, y, 'step vs step of variant: ')
                n_pairs += 1
            if r and len(P1.steps) == len(P3.steps):
                pass   # equal => same print is judged inside pair()
    # Result placeholders
    rs = results_in(P1) + [s.result for s in P1.steps]
    for r in rs:
        judge_one_result(L, r)
    # the placeholders of one plan pairwise (equal => same print: Result(1) / Result(True) / Result(1.0) would be a violation)
    n_rpairs = 0
    for i, x in enumerate(rs[:8]):
        for y in rs[i + 1:8]:
            L.pair(x, y, 'Results of one plan: ')
            n_rpairs += 1
    col.cls(*['result-pairs'] * n_rpairs)
    col.cls(*['results-hashed'] * len(rs))
    col.cls(*['step-pairs'] * n_pairs)
    col.cls(*['pair:equal'] * L.n_equal)
    col.cls(*['pair:unequal'] * L.n_unequal)
    col.case(('plan', d, ' '.join(sql.split()), cat, case.get('sql2')), True, classes,
             {'kind': 'plan', 'dialect': d, 'sql': sql, 'catalog': cat, 'steps': [clsname(s) for s in P1.steps]})
    return L.out


def world_plan(tree, world, catalog):
    from mindsdb_sql.planner import plan_query
    kw = {}
    if catalog != 'none':
        kw['default_namespace'] = catalog
    preds = predictors() if world == 'base' else c18_shapes.world_predictors(world)
    return plan_query(tree, integrations=list(INTEGRATIONS), predictor_metadata=preds, **kw)


def attr_images(step):
    """attribute -> printed image, for one step (result_data is not part of a step's value)."""
    return {k: sql_image(v) for k, v in vars(step).items() if k != 'result_data'}


def judge_twin(case, col):
    """One statement, several catalogs: equality laws between the plans and between all steps of different plans."""
    from mindsdb_sql.planner.query_plan import QueryPlan
    d, sql, cat, worlds = case['dialect'], case['sql'], case['catalog'], case['worlds']
    plans = []
    for w in worlds:
        T = parse_or_none(col, d, sql, 'twin', count=not plans)
        if T is None:
            return []
        try:
            P = world_plan(T, w, cat)
        except RecursionError:
            raise
        except Exception:
            continue
        if P.steps:
            plans.append((w, P))
    if len(plans) < 2:
        col.case(('twin', d, sql, cat, tuple(worlds), 'unplannable'), False, ['kind:twin', 'twin:fewer-than-2-plans'])
        return []
    classes = ['kind:twin', 'catalog:' + cat, 'twin:plans=' + str(len(plans)), 'origin:' + case.get('origin', '?')]
    shapes = {tuple(clsname(s) for s in all_steps(P)) for _, P in plans}
    if len(shapes) >= 2:
        classes.append('twin:shapes>=2')
    out = []
    n_pairs = n_equal = n_unequal = 0
    for i, (wa, Pa) in enumerate(plans):
        for wb, Pb in plans[i + 1:]:
            L = Laws({'catalog': cat, 'worlds': wa + '~' + wb}, sql)
            L.pair(Pa, Pb, 'plans of one statement under two catalogs: ')
            sa, sb = all_steps(Pa), all_steps(Pb)
            for x in sa:
                for y in sb:
                    n_pairs += 1
                    r = L.pair(x, y, 'steps of one statement under two catalogs: ')
                    tx, ty = type(x), type(y)
                    if tx is ty:
                        if r:
                            classes.append('twin:same-class-equal')
                        continue
                    if not (issubclass(tx, ty) or issubclass(ty, tx)):
                        continue
                    # a class and its subclass: do the attributes of the base agree?  (independent of the library's ==)
                    base, sub = (x, y) if issubclass(ty, tx) else (y, x)
                    classes.append('twin:sub-vs-base')
                    ib, isub = attr_images(base), attr_images(sub)
                    if all(k in isub and isub[k] == v for k, v in ib.items()):
                        classes.append('twin:sub-vs-base-agree')
                        classes.append(f'twin:agree:{clsname(base)}~{clsname(sub)}')
                    # the same two steps as one-step plans and inside lists
                    try:
                        qa, qb = QueryPlan(steps=[copy.deepcopy(x)]), QueryPlan(steps=[copy.deepcopy(y)])
                    except Exception:
                        continue
                    L.pair(qa, qb, 'one-step plans of steps of two catalogs: ')
            n_equal += L.n_equal
            n_unequal += L.n_unequal
            out.extend(L.out)
    col.cls(*['step-pairs'] * n_pairs)
    col.cls(*['pair:equal'] * n_equal)
    col.cls(*['pair:unequal'] * n_unequal)
    col.case(('twin', d, ' '.join(sql.split()), cat, tuple(worlds)), True, classes,
             {'kind': 'twin', 'dialect': d, 'sql': sql, 'catalog': cat, 'worlds': [w for w, _ in plans],
              'steps': [[clsname(s) for s in P.steps] for _, P in plans]})
    return out


def judge_one_result(L, r):
    from mindsdb_sql.planner.step_result import Result
    L.reflexive(r, 'Result: ')
    r2 = Result(copy.deepcopy(r.step_num))
    eq = L.must_equal(r, r2, 'copy-not-equal', 'Result(n) vs Result(n)')
    hs = []
    for x in (r, r2):
        try:
            hs.append(hash(x))
        except RecursionError:
            raise
        except Exception as e:
            L.rec('hash-crash', site_of(e), f'hash(Result({x.step_num!r})): {type(e).__name__}: {e}')
            return
    if eq and hs[0] != hs[1]:
        L.rec('hash-inconsistent', 'Result', f'Result({r.step_num!r}) == Result({r2.step_num!r}) but hashes differ')
    for y in (r.step_num, None, 'Result'):
        L.pair(r, y, 'Result vs foreign: ')


def judge_result(case, col):
    from mindsdb_sql.planner.step_result import Result
    vals = case['values']
    L = Laws({}, repr(vals))
    rs = [Result(v) for v in vals]
    for r in rs:
        judge_one_result(L, r)
    for i, x in enumerate(rs):
        for y in rs[i + 1:]:
            v = L.pair(x, y, 'Results: ')
            if v:
                try:
                    if hash(x) != hash(y):
                        L.rec('hash-inconsistent', 'Result', f'Result({x.step_num!r}) == Result({y.step_num!r}) but hashes differ')
                except Exception:
                    pass
    col.cls(*['results-hashed'] * len(rs))
    col.case(('result', vals), len(vals) >= 2, ['kind:result'], {'kind': 'result', 'values': vals})
    return L.out


# ---- generators -----------------------------------------------------------------------------------------------------
MUT = st.lists(st.tuples(st.integers(0, 60), st.integers(0, 29), st.integers(0, 11)).map(list), min_size=1, max_size=10)


@st.composite
def text_case(draw, pool='lite'):
    d = draw(st.sampled_from(corpus.DIALECTS))
    src = draw(st.sampled_from(['corpus', 'corpus', 'grammar', 'grammar', 'star']))
    if src == 'corpus':
        sql = draw(st.sampled_from(corpus.accepted(d)))['sql']
    elif src == 'grammar':
        sql = ' '.join(draw(grammar.get(d).sentence(pool=pool)))
    else:
        sql = draw(st.sampled_from(STAR_SHAPES))
    return d, sql, src


def variant_of(draw, spans):
    """One-token variant of a lexed statement: a constant / identifier replaced, or the same text."""
    pos = [i for i, (ty, _) in enumerate(spans) if ty in VARIANT_TOKENS]
    toks = [src for _, src in spans]
    if not pos:
        return ' '.join(toks)
    i = draw(st.sampled_from(pos))
    ty = spans[i][0]
    if ty == 'ID':
        toks[i] = draw(st.sampled_from(['zz', '`zz`', toks[i].upper(), '`' + toks[i].strip('`') + '`']))
    elif ty in ('INTEGER', 'FLOAT'):
        toks[i] = draw(st.sampled_from(['7', '1.5', toks[i] + '0', "'" + toks[i] + "'", toks[i] + '.0' if ty == 'INTEGER' else toks[i],
                                        {'1': 'TRUE', '0': 'FALSE', '1.0': '1', '0.0': '0'}.get(toks[i], toks[i] + '.0')]))
    else:
        toks[i] = draw(st.sampled_from(["'zz'", "'a  b'", "'a b'", toks[i].replace(' ', '  '), '"zz"']))
    return ' '.join(toks)


QUOTED = {'ID': '`', 'QUOTE_STRING': "'", 'DQUOTE_STRING': '"'}


def quoted_positions(spans, types=('ID', 'QUOTE_STRING', 'DQUOTE_STRING')):
    return [i for i, (ty, _) in enumerate(spans) if ty in types]


def ws_pair_of(spans, i, fill):
    """Two texts that differ only in the white space inside the quoted name / string put at token i."""
    q = QUOTED[spans[i][0]]
    toks = [src for _, src in spans]
    a, b = list(toks), list(toks)
    a[i], b[i] = q + 'x y' + q, q + fill + q
    return ' '.join(a), ' '.join(b)


def dot_name_of(spans, i, name='.'):
    toks = [src for _, src in spans]
    q = QUOTED[spans[i][0]]
    toks[i] = q + name + q
    return ' '.join(toks)


def fill_ws(t, fill):
    return t.replace('{q}', '`' + fill + '`').replace('{s}', "'" + fill + "'")


@st.composite
def cases(draw):
    kind = draw(st.sampled_from(['tree', 'tree', 'tree', 'pair', 'pair', 'plan', 'plan'] * 3 + ['oddpart', 'twin']))
    if kind == 'oddpart':
        # a name that follows a dot in a corpus statement replaced by a quoted odd part (`*`, `.`, a keyword ...)
        d = draw(st.sampled_from(corpus.DIALECTS))
        spans, pos = draw(st.sampled_from(_DOTSPANS[d]))
        toks = [src for _, src in spans]
        for i in draw(st.lists(st.sampled_from(pos), min_size=1, max_size=2, unique=True)):
            toks[i] = c18_shapes.quote_part(draw(st.sampled_from(c18_shapes.ODD_PARTS)))
        return {'kind': 'tree', 'dialect': d, 'sql': ' '.join(toks), 'how': draw(st.sampled_from(['copy', 'deepcopy'])), 'muts': draw(MUT),
                'origin': 'oddpart'}
    if kind == 'twin':
        # a corpus statement (more often one that applies a model) planned under two or three catalogs
        d, sql, cat = draw(st.sampled_from(_MODEL_PLANNABLE if draw(st.integers(0, 3)) else _PLANNABLE))
        worlds = draw(st.lists(st.sampled_from(('base',) + c18_shapes.WORLDS), min_size=2, max_size=3, unique=True))
        return {'kind': 'twin', 'dialect': d, 'sql': sql, 'catalog': cat, 'worlds': sorted(worlds), 'origin': 'corpus'}
    if kind == 'tree' and draw(st.integers(0, 9)) == 0:
        # a quoted name / string of a corpus statement replaced by a name made of dots
        d = draw(st.sampled_from(corpus.DIALECTS))
        spans = draw(st.sampled_from(_QSPANS[d]))
        i = draw(st.sampled_from(quoted_positions(spans)))
        return {'kind': 'tree', 'dialect': d, 'sql': dot_name_of(spans, i, draw(st.sampled_from(['.', '..', '. .', 'a.']))),
                'how': draw(st.sampled_from(['copy', 'deepcopy'])), 'muts': draw(MUT), 'origin': 'dotname'}
    if kind == 'tree':
        d, sql, src = draw(text_case())
        return {'kind': 'tree', 'dialect': d, 'sql': sql, 'how': draw(st.sampled_from(['copy', 'deepcopy'])), 'muts': draw(MUT),
                'origin': src}
    if kind == 'pair':
        rel = draw(st.sampled_from(['same', 'variant', 'variant', 'variant', 'unrelated', 'cross-dialect', 'ws-variant', 'paren-variant']))
        if rel == 'paren-variant':
            # one constant of a corpus statement put in parentheses: the same nodes, one flag differs
            d = draw(st.sampled_from(corpus.DIALECTS))
            spans = draw(st.sampled_from(_CSPANS[d]))
            toks = [src for _, src in spans]
            i = draw(st.sampled_from([j for j, (ty, _) in enumerate(spans) if ty in CONSTANT_TOKENS]))
            b = list(toks)
            b[i] = '( ' + toks[i] + ' )'
            return {'kind': 'pair', 'relation': rel, 'a': {'dialect': d, 'sql': ' '.join(toks)}, 'b': {'dialect': d, 'sql': ' '.join(b)}}
        if rel == 'ws-variant':
            d = draw(st.sampled_from(corpus.DIALECTS))
            spans = draw(st.sampled_from(_QSPANS[d]))
            a, b = ws_pair_of(spans, draw(st.sampled_from(quoted_positions(spans))), draw(st.sampled_from(WS_FILLS)))
            return {'kind': 'pair', 'relation': rel, 'a': {'dialect': d, 'sql': a}, 'b': {'dialect': d, 'sql': b}}
        if rel in ('same', 'unrelated'):
            d, sql, src = draw(text_case())
            if rel == 'same':
                return {'kind': 'pair', 'relation': rel, 'a': {'dialect': d, 'sql': sql}, 'b': {'dialect': d, 'sql': sql}}
            d2, sql2, _ = draw(text_case())
            return {'kind': 'pair', 'relation': rel, 'a': {'dialect': d, 'sql': sql}, 'b': {'dialect': d2, 'sql': sql2}}
        d = draw(st.sampled_from(corpus.DIALECTS))
        spans = draw(st.sampled_from(_SPANS[d]))
        sql = ' '.join(src for _, src in spans)
        if rel == 'cross-dialect':
            d2 = draw(st.sampled_from(corpus.DIALECTS))
            return {'kind': 'pair', 'relation': rel, 'a': {'dialect': d, 'sql': sql}, 'b': {'dialect': d2, 'sql': sql}}
        return {'kind': 'pair', 'relation': rel, 'a': {'dialect': d, 'sql': sql}, 'b': {'dialect': d, 'sql': variant_of(draw, spans)}}
    d, sql, cat = draw(st.sampled_from(_PLANNABLE))
    c = {'kind': 'plan', 'dialect': d, 'sql': sql, 'catalog': cat}
    spans = _PLAN_SPANS.get((d, sql))
    how = draw(st.integers(0, 4))
    if spans and how == 4 and quoted_positions(spans):
        c['sql'], c['sql2'] = ws_pair_of(spans, draw(st.sampled_from(quoted_positions(spans))), draw(st.sampled_from(WS_FILLS)))
    elif spans and how > 0:
        c['sql2'] = variant_of(draw, spans)
    return c


def law_cases(tier='quick'):
    """Bounded-exhaustive shapes for 'equal => prints the same' and 'every parser-produced tree can be copied'."""
    out = []
    muts = [[1, 2, 0], [2, 0, 1], [3, 3, 0]]
    # white space inside quoted names / strings: templates x dialects x fills
    for d in corpus.DIALECTS:
        for t in WS_TEMPLATES:
            for f in WS_FILLS[:2]:
                out.append({'kind': 'pair', 'relation': 'ws-variant', 'a': {'dialect': d, 'sql': fill_ws(t, 'x y')},
                            'b': {'dialect': d, 'sql': fill_ws(t, f)}})
    for t in WS_PLAN_TEMPLATES:
        for f in WS_FILLS[:2]:
            for cat in ('none', 'mindsdb'):
                out.append({'kind': 'plan', 'dialect': 'mindsdb', 'sql': fill_ws(t, 'x y'), 'sql2': fill_ws(t, f), 'catalog': cat})
    # ... and at one (thorough: every) quoted position of every corpus statement
    for d in corpus.DIALECTS:
        for n, spans in enumerate(_QSPANS.get(d, [])):
            pos = quoted_positions(spans)
            for j, i in enumerate(pos):
                if tier == 'thorough' or j == n % len(pos):
                    a, b = ws_pair_of(spans, i, WS_FILLS[(n + j) % 2])
                    out.append({'kind': 'pair', 'relation': 'ws-variant', 'a': {'dialect': d, 'sql': a}, 'b': {'dialect': d, 'sql': b}})
    # state that to_tree() does not show: {e} vs ({e}) in every template, quoted vs plain values
    for d in corpus.DIALECTS:
        for t in PAREN_TEMPLATES:
            for e in PAREN_VALUES:
                out.append({'kind': 'pair', 'relation': 'paren-variant', 'a': {'dialect': d, 'sql': t.replace('{e}', e)},
                            'b': {'dialect': d, 'sql': t.replace('{e}', '(' + e + ')')}})
        for a, b in QUOTES_PAIRS:
            out.append({'kind': 'pair', 'relation': 'quotes-variant', 'a': {'dialect': d, 'sql': a}, 'b': {'dialect': d, 'sql': b}})
    # column definitions: all unordered pairs (and each with itself)
    for i, a in enumerate(COLUMN_DEFS):
        for b in COLUMN_DEFS[i:]:
            for d in ('mindsdb', 'mysql'):
                out.append({'kind': 'pair', 'relation': 'column-def', 'a': {'dialect': d, 'sql': f'create table t ({a}, z int)'},
                            'b': {'dialect': d, 'sql': f'create table t ({b}, z int)'}})
            out.append({'kind': 'plan', 'dialect': 'mindsdb', 'sql': f'create table int1.t ({a})', 'sql2': f'create table int1.t ({b})',
                        'catalog': 'none'})
    # plain values held by predictor steps: all unordered pairs of spellings; order of conditions / parameters
    for t in STEP_VALUE_TEMPLATES:
        for i, a in enumerate(STEP_VALUES):
            for b in STEP_VALUES[i + 1:]:
                out.append({'kind': 'plan', 'dialect': 'mindsdb', 'sql': t.replace('{v}', a), 'sql2': t.replace('{v}', b),
                            'catalog': 'mindsdb'})
    for a, b in STEP_ORDER_PAIRS:
        for cat in ('mindsdb', 'none'):
            out.append({'kind': 'plan', 'dialect': 'mindsdb', 'sql': a, 'sql2': b, 'catalog': cat})
    # names made of dots: templates x spellings x dialects, and every quoted string of every corpus statement
    for d in corpus.DIALECTS:
        for t in DOT_TEMPLATES:
            for j, nm in enumerate(DOT_NAMES):
                out.append({'kind': 'tree', 'dialect': d, 'sql': t.replace('{n}', nm), 'how': 'deepcopy' if j % 2 else 'copy',
                            'origin': 'dotname', 'muts': muts})
        for n, spans in enumerate(_QSPANS.get(d, [])):
            for i in quoted_positions(spans, ('QUOTE_STRING', 'DQUOTE_STRING')):
                out.append({'kind': 'tree', 'dialect': d, 'sql': dot_name_of(spans, i), 'how': 'deepcopy' if n % 2 else 'copy',
                            'origin': 'dotname', 'muts': muts})
    # odd name parts: parts x positions in the name x places of a statement (c18_shapes.odd_part_texts), and the names after a dot
    # of the corpus statements (quick: one position per statement with `*` and one with a rotating odd part; thorough: all x 3)
    for n, (d, sql, form, part) in enumerate(c18_shapes.odd_part_texts(tier)):
        out.append({'kind': 'tree', 'dialect': d, 'sql': sql, 'how': 'deepcopy' if n % 2 else 'copy', 'origin': 'oddpart',
                    'form': form.replace('{p}', 'P').replace('"', 'q'), 'muts': muts})
    odd = c18_shapes.ODD_PARTS
    for d in corpus.DIALECTS:
        for n, (spans, pos) in enumerate(_DOTSPANS.get(d, [])):
            for j, i in enumerate(pos):
                if tier == 'thorough':
                    parts = ['*', odd[(n + j) % len(odd)], odd[(n + 2 * j + 7) % len(odd)]]
                elif j == n % len(pos):
                    parts = ['*', odd[(n + j) % len(odd)]]
                else:
                    continue
                for jj, part in enumerate(dict.fromkeys(parts)):
                    toks = [src for _, src in spans]
                    toks[i] = c18_shapes.quote_part(part)
                    out.append({'kind': 'tree', 'dialect': d, 'sql': ' '.join(toks), 'how': 'deepcopy' if (n + jj) % 2 else 'copy',
                                'origin': 'oddpart', 'form': 'corpus', 'muts': muts})
    # twin plans: one statement x the catalogs that differ in what the models are
    for sql in c18_shapes.twin_texts(tier):
        for cat in ('mindsdb', 'none'):
            out.append({'kind': 'twin', 'dialect': 'mindsdb', 'sql': sql, 'catalog': cat, 'worlds': list(c18_shapes.WORLDS), 'origin': 'family'})
    for (d, sql, cat) in _MODEL_PLANNABLE:
        out.append({'kind': 'twin', 'dialect': d, 'sql': sql, 'catalog': cat, 'worlds': ['base'] + list(c18_shapes.WORLDS[:3]), 'origin': 'corpus'})
    # left-deep operator chains that parse, print and compare within the recursion limit
    for n, op in DEEP_CHAINS:
        out.append({'kind': 'tree', 'dialect': 'mindsdb', 'sql': 'select * from t where ' + op.join(f'c{i} = {i}' for i in range(n)),
                    'how': 'copy', 'origin': 'deep-chain', 'muts': muts})
    return out


def fixed_cases(tier='quick'):
    out = []
    for (d, sql, cat) in _PLANNABLE:
        out.append({'kind': 'plan', 'dialect': d, 'sql': sql, 'catalog': cat})
    for x in corpus.accepted():
        out.append({'kind': 'tree', 'dialect': x['dialect'], 'sql': x['sql'], 'how': 'copy', 'origin': 'corpus',
                    'muts': [[3, 0, 0], [7, 2, 1], [11, 4, 2], [5, 3, 3]]})
    for d in corpus.DIALECTS:
        for s in STAR_SHAPES:
            for how in ('copy', 'deepcopy'):
                for muts in ([[1, 2, 0]], [[2, 0, 1], [3, 2, 0], [4, 3, 0]], [[5, 1, 2], [6, 2, 0], [7, 3, 1], [8, 0, 0]]):
                    out.append({'kind': 'tree', 'dialect': d, 'sql': s, 'how': how, 'origin': 'star', 'muts': muts})
    out.extend(law_cases(tier))
    out.append({'kind': 'result', 'values': [0, 1, 2, 10, 0, '0_1', '1_0', '0_1']})
    out.append({'kind': 'result', 'values': [1, 1]})
    return out


def run_shard(col, k, nshards, tier, seed):
    for i, c in enumerate(fixed_cases(tier)):
        if i % nshards == k:
            for rec in judge(c, col):
                col.fail(rec, c)
    # trees of the production-pair sentences of the live grammars (every production with every alternative of its
    # nonterminals): every node class the parsers can build is copied at least once
    from vf.gens import grammar
    pstep = 6 if tier == 'quick' else 1
    n = 0
    for d in corpus.DIALECTS:
        for i, (_, toks) in enumerate(grammar.get(d).pair_sentences()):
            n += 1
            if i % pstep == 0 and (i // pstep) % nshards == k:
                c = {'kind': 'tree', 'dialect': d, 'sql': ' '.join(toks), 'how': 'deepcopy' if i % 2 else 'copy',
                     'origin': 'pairs', 'muts': [[3, 0, 0], [7, 2, 1], [11, 4, 2], [5, 3, 3]]}
                for rec in judge(c, col):
                    col.fail(rec, c)
    if k == 0:
        col.exhaustive_parts.append(f'copy + 4 fixed mutations of the tree of every {"6th " if pstep > 1 else ""}accepted '
                                    f'production-pair sentence ({n} sentences over 3 dialects)')
        col.exhaustive_parts.append(f'equality / copy law shapes: {len(law_cases(tier))} cases (white space in quoted tokens: '
                                    f'{len(WS_TEMPLATES)} templates x 3 dialects and the quoted positions of the corpus; all pairs of '
                                    f'{len(COLUMN_DEFS)} column definitions; all pairs of {len(STEP_VALUES)} value spellings in '
                                    f'{len(STEP_VALUE_TEMPLATES)} predictor shapes; {len(DOT_TEMPLATES)} x {len(DOT_NAMES)} dot-name shapes; '
                                    f'{len(c18_shapes.odd_part_texts(tier))} odd-name-part shapes ({len(c18_shapes.ODD_PARTS)} parts x '
                                    f'{len(c18_shapes.NAME_FORMS)}+{len(c18_shapes.DQ_FORMS)} name forms x {len(c18_shapes.NAME_PLACES)} places) and '
                                    f'the names after a dot of {sum(len(v) for v in _DOTSPANS.values())} corpus statements; twin plans: '
                                    f'{len(c18_shapes.twin_texts(tier))} family statements x 2 default namespaces x {len(c18_shapes.WORLDS)} '
                                    f'catalogs and the {len(_MODEL_PLANNABLE)} corpus statements that apply a model x 4 catalogs)')
        col.exhaustive_parts.append(f'copy + 4 fixed mutations of all {len(corpus.accepted())} corpus trees; equality laws over the '
                                    f'{len(_PLANNABLE)} (corpus statement, catalog) pairs that plan; qualified-star shapes')
    hyp.explore(col, cases(), judge, N[tier], seed)
