"""C16 — queries embedded in MindsDB commands are stored verbatim (up to whitespace and comments).

Generated: inner texts (hand-written hostile list, corpus statements, grammar derivations of `select`/`union`,
arbitrary parenthesis-balanced token sequences with every kind of literal / variable / number, laid out with blanks,
newlines and comments) x every embedding command (48 templates x 4 statement layouts).

Oracle (independent of the library's lexer: vf/oracles/rawtext.py):
  (1) lenient(stored) == lenient(inner)  — equal up to whitespace/comments outside literals;
      on a difference every distinct piece of the inner text is re-embedded on its own (`x <piece> y`) to attribute
      the failure to a piece class (site) and to the characters that were lost (features); pieces that fail on their
      own are then replaced by benign ones and the whole text is compared again, so that a layout/context defect is
      not hidden behind a literal defect;
  (2) when the texts agree and parse_sql(inner) succeeds, parse_sql(stored) gives an O-struct-identical tree;
  (3) all other fields of the embedding statement equal those obtained with the inner text `select 1`;
  (4) acceptance, in the one form the quantifier fixes ("any tokens with balanced parentheses"): when the statement is
      rejected by the grammar although the parentheses of the inner text are balanced and every piece of it is accepted
      on its own in the same slot (`x <piece> y`), the raw-query grammar has failed to derive a balanced token sequence;
      the rejecting shape is attributed by neutralising it (an empty pair `()` that is first in the text / in its group
      gets a content, `(x)`) and embedding again.  All parenthesis shapes up to 6 tokens are enumerated against every
      embedding;
  (5) the same statement driven through the exported `get_lexer_parser()` pair (lexer.tokenize -> parser.parse, the way
      the repository's own tests drive it) stores the same text as through parse_sql();
  (6) one get_lexer_parser() pair used for two statements in a row (previous statement accepted / rejected by the grammar /
      by the lexer / stopped by an exception of a grammar action / an embedding command; each of the two driven from the
      token generator or from a list of tokens, as the repository tests do) stores what a fresh pair stores.
Also generated: statements with TWO native queries (`native2`, slot `query2` = the one on integration db2), native queries
in more places (implicit join, EXISTS, sub-select of a target / of DELETE / of UPDATE, quoted and two-part integration
names), every fixed token of the lexer as first / last / only / middle piece of an inner text, embedding commands inside
the inner text.
"""
import re
from hypothesis import strategies as st

from vf import findings, hyp
from vf.gens import corpus, grammar
from vf.oracles import rawtext
from vf.oracles.struct import struct, diff, walk

PROPERTY = 'C16'
RULE = ('cases = (embedding template, statement layout, inner text[, IF-query text]); inner texts come from a fixed '
        'hostile list (enumerated against every template), the test corpus (optionally re-laid-out), grammar '
        'derivations of select/union with the rich lexeme pools, and random parenthesis-balanced token sequences '
        '(strings: empty / doubled quotes / backslash escapes / comment-looking / multi-line; @ and @@ variables in all '
        'four quoting forms; numbers like 007, 1.50; nested and empty parentheses; blanks, tabs, newlines, line and '
        'block comments between tokens), and every balanced sequence over ( ) and words up to 6 tokens (enumerated against '
        'every template), and every fixed token of the lexer (keywords, operators) in four positions; statements with two native '
        'queries; each accepted statement is parsed a second time through get_lexer_parser(), and every template is parsed '
        'as the second statement of one get_lexer_parser() pair after 7 kinds of previous statement x 4 ways of driving; non-trivial = the statement is accepted and the inner text contains a '
        'string literal, a variable, a nested parenthesis, a comment or a newline; distinct by (template, inner text, '
        'IF-query text)')
ASSUMPTIONS = ['"up to whitespace and comments": blanks/comments outside literals may be added, removed or changed '
               'wherever that cannot merge or split tokens (never inside quotes/back-quotes; a blank between two '
               'words/literals or between two operator characters must stay)',
               'acceptance of an embedding statement is judged only where the quantifier decides it: balanced inner text '
               'whose every piece is accepted on its own in the same slot; other rejections are counted, not judged '
               '(characters the lexer has no token for are outside "any tokens"); an inner text without any token is '
               'outside the domain',
               'get_lexer_parser() is an entry point of the same commands: it is exported by the package and used by the '
               'repository tests; the statement text given to it is stripped of trailing blanks/semicolons as parse_sql does',
               'a pair returned by get_lexer_parser() may be used for several statements one after the other (nothing says '
               'it is single-use; the lexers and parsers keep no documented state), with the tokens handed over as the '
               'generator of lexer.tokenize() or as a list of it (both occur in the repository tests); each statement is '
               'tokenized by the paired lexer and parsed before the next one is tokenized',
               'a string whose closing quote follows a backslash (`\'c:\\\'`) is an unterminated literal (the backslash escapes '
               'the quote, as the mindsdb lexer reads it whenever a later quote exists in the statement): outside the domain, '
               'although the lexer accepts it when no quote follows in the whole statement',
               'inner texts whose literals are unterminated or whose parentheses are unbalanced are outside the domain']
_QUICK_FLOORS = {'accepted': 3600, 'has:string': 1900, 'has:string-empty': 200, 'has:doubled-quote': 190,
                 'has:backslash': 480, 'has:multiline-string': 40, 'has:variable': 1000, 'has:variable-quoted': 500,
                 'has:system-variable': 480, 'has:number-spelling': 300, 'has:nested-paren': 1600, 'has:comment': 2000,
                 'has:newline': 2300, 'stored-equal': 2200, 'reparse-checked': 1000, 'slot:if_query': 300,
                 'command:predictor': 1500, 'command:native': 750, 'command:job': 570, 'command:view': 270,
                 'command:trigger': 150, 'command:evaluate': 150, 'origin:corpus': 240, 'origin:grammar': 850,
                 'origin:tokens': 1200, 'layout:2': 590, 'layout:3': 600, '__nontrivial__': 2800}
# classes fed mostly by the enumerated parts, which do not grow 8-fold in the thorough tier: same floor in both tiers
_ENUM_FLOORS = {'origin:paren-shapes': 1500, 'has:empty-pair-first': 600, 'entry2:stored-equal': 1500,
                'origin:lexemes': 250, 'origin:session': 590, 'session:stored-equal': 650,
                'session:prev-outcome:exception': 170, 'session:prev-outcome:tree': 170, 'session:prev-outcome:rejected': 170,
                'session:prev-outcome:lex-error': 80, 'session:drive:generator>list': 140, 'session:drive:list>list': 140,
                'session:drive:generator>generator': 140, 'session:drive:list>generator': 140,
                'command:native2': 150, 'slot:query2': 150}
FLOORS = {'quick': dict(_QUICK_FLOORS, **_ENUM_FLOORS),
          'thorough': dict({k: v * 8 for k, v in _QUICK_FLOORS.items()}, **_ENUM_FLOORS)}
N = {'quick': 500, 'thorough': 10000}

# ------------------------------------------------------------------------------------------------ embeddings
# (id, family, text).  family decides where the stored text is observed.
_T = [
    ('model-db', 'predictor', "CREATE MODEL m FROM db ({q}) PREDICT y"),
    ('model-full', 'predictor', "CREATE OR REPLACE MODEL IF NOT EXISTS proj.m FROM db ({q}) PREDICT y, z USING a=1"),
    ('predictor-db', 'predictor', "CREATE PREDICTOR m FROM db ({q}) PREDICT y"),
    ('predictor-ts', 'predictor', "CREATE PREDICTOR m FROM db ({q}) PREDICT y ORDER BY d GROUP BY g WINDOW 5 HORIZON 2"),
    ('model-nodb', 'predictor', "CREATE MODEL m FROM ({q}) PREDICT y"),
    ('anomaly', 'predictor', "CREATE ANOMALY DETECTION MODEL m FROM db ({q})"),
    ('anomaly-predict', 'predictor', "CREATE ANOMALY DETECTION MODEL m FROM db ({q}) PREDICT y"),
    ('anomaly-predict-first', 'predictor', "CREATE ANOMALY DETECTION MODEL m PREDICT y FROM db ({q})"),
    ('anomaly-using', 'predictor', "CREATE ANOMALY DETECTION MODEL m FROM db ({q}) USING a=1"),
    ('retrain-nodb', 'predictor', "RETRAIN m FROM ({q})"),
    ('retrain-nodb-predict', 'predictor', "RETRAIN m FROM ({q}) PREDICT y"),
    ('retrain-db', 'predictor', "RETRAIN m FROM db ({q})"),
    ('retrain-db-using', 'predictor', "RETRAIN m FROM db ({q}) PREDICT y USING a=1"),
    ('retrain-model-nodb', 'predictor', "RETRAIN MODEL m FROM ({q})"),
    ('retrain-model-db', 'predictor', "RETRAIN MODEL proj.m FROM db ({q})"),
    ('retrain-model-nodb-predict', 'predictor', "RETRAIN MODEL m FROM ({q}) PREDICT y"),
    ('retrain-model-db-predict', 'predictor', "RETRAIN MODEL m FROM db ({q}) PREDICT y"),
    ('finetune-db', 'predictor', "FINETUNE m FROM db ({q})"),
    ('finetune-nodb', 'predictor', "FINETUNE m FROM ({q})"),
    ('finetune-model-db', 'predictor', "FINETUNE MODEL m FROM db ({q}) USING a=1"),
    ('finetune-model-nodb', 'predictor', "FINETUNE MODEL m FROM ({q})"),
    ('evaluate', 'evaluate', "EVALUATE m FROM ({q})"),
    ('evaluate-using', 'evaluate', "EVALUATE acc FROM ({q}) USING a=1, b='x'"),
    ('view-as', 'view', "CREATE VIEW v AS ({q})"),
    ('view', 'view', "CREATE VIEW v ({q})"),
    ('view-full', 'view', "CREATE VIEW IF NOT EXISTS proj.v FROM db AS ({q})"),
    ('view-db', 'view', "CREATE VIEW v FROM db ({q})"),
    ('job', 'job', "CREATE JOB j ({q})"),
    ('job-as', 'job', "CREATE JOB j AS ({q})"),
    ('job-sched', 'job', "CREATE JOB IF NOT EXISTS proj.j ({q}) START '2023-01-01' END '2024-01-01' EVERY 2 hours"),
    ('job-as-every', 'job', "CREATE JOB j AS ({q}) EVERY hour"),
    ('job-if', 'job', "CREATE JOB j ({q}) IF ({q2})"),
    ('job-as-if', 'job', "CREATE JOB j AS ({q}) IF ({q2})"),
    ('job-sched-if', 'job', "CREATE JOB j ({q}) START now EVERY 1 day IF ({q2})"),
    ('job-as-end-if', 'job', "CREATE JOB j AS ({q}) END '2024-01-01' IF ({q2})"),
    ('trigger', 'trigger', "CREATE TRIGGER t ON db.tbl ({q})"),
    ('trigger-columns', 'trigger', "CREATE TRIGGER proj.t ON db.tbl COLUMNS a, b ({q})"),
    ('native', 'native', "SELECT * FROM db ({q})"),
    ('native-alias-where', 'native', "SELECT a, b FROM db ({q}) AS t WHERE a > 1 LIMIT 3"),
    ('native-join-model', 'native', "SELECT * FROM db ({q}) JOIN mindsdb.m"),
    ('native-join-on', 'native', "SELECT * FROM db ({q}) t JOIN mindsdb.m AS p ON t.a = p.a"),
    ('native-subselect', 'native', "SELECT * FROM (SELECT * FROM db ({q})) AS s"),
    ('native-right', 'native', "SELECT * FROM t1 JOIN db ({q}) AS n ON t1.a = n.a"),
    ('native-insert', 'native', "INSERT INTO t2 SELECT * FROM db ({q})"),
    ('native-create-table', 'native', "CREATE TABLE int1.t2 (SELECT * FROM db ({q}))"),
    ('native-in-subquery', 'native', "SELECT * FROM a WHERE x IN (SELECT y FROM db ({q}))"),
    ('native-union', 'native', "SELECT * FROM db ({q}) UNION SELECT * FROM db2.t"),
    ('native-cte', 'native', "WITH c AS (SELECT * FROM db ({q})) SELECT * FROM c"),
]
# more places of a native query (not crossed with the parenthesis shapes) and statements with TWO native queries
# (`native2`: the second one is on integration db2, slot `query2`)
_T_MORE = [
    ('native-implicit-join', 'native', "SELECT * FROM t1, db ({q}) AS n WHERE t1.a = n.a"),
    ('native-left-join-3', 'native', "SELECT * FROM t1 LEFT JOIN db ({q}) AS n ON t1.a = n.a JOIN mindsdb.m"),
    ('native-exists', 'native', "SELECT * FROM a WHERE EXISTS (SELECT * FROM db ({q})) AND b = 'it''s'"),
    ('native-target-subselect', 'native', "SELECT (SELECT x FROM db ({q})) AS c, '' FROM t1"),
    ('native-delete-in', 'native', "DELETE FROM t1 WHERE a IN (SELECT a FROM db ({q}))"),
    ('native-update-subselect', 'native', "UPDATE t1 SET a = (SELECT a FROM db ({q})) WHERE b = 1"),
    ('native-insert-columns', 'native', "INSERT INTO t2 (a, b) SELECT * FROM db ({q})"),
    ('native-replace-table', 'native', "CREATE OR REPLACE TABLE int1.t2 SELECT * FROM db ({q})"),
    ('native-quoted-db-tight', 'native', "SELECT * FROM `db`({q}) AS \"al\""),
    ('native-two-part-db', 'native', "SELECT * FROM proj.db ({q}) al GROUP BY a HAVING count(*) > 1 ORDER BY a"),
    ('native-intersect', 'native', "SELECT * FROM db2.t INTERSECT SELECT * FROM db ({q}) LIMIT 1"),
    ('native2-join', 'native2', "SELECT * FROM db ({q}) a JOIN db2 ({q2}) b ON a.x = b.x"),
    ('native2-implicit-join', 'native2', "SELECT * FROM db ({q}) a, db2 ({q2}) b"),
    ('native2-union', 'native2', "SELECT * FROM db ({q}) UNION ALL SELECT * FROM db2 ({q2})"),
    ('native2-cte', 'native2', "WITH c AS (SELECT * FROM db ({q})), d AS (SELECT * FROM db2 ({q2})) SELECT * FROM c JOIN d"),
    ('native2-where-subselect', 'native2', "SELECT * FROM db ({q}) WHERE x = (SELECT max(y) FROM db2 ({q2}) WHERE z = 'it''s')"),
]
SHAPE_TEMPLATE_IDS = [i for i, f, t in _T]
_T = _T + _T_MORE
TEMPLATES = {i: {'id': i, 'family': f, 'text': t, 'q2': '{q2}' in t,
                 'slot2': ('query2' if f == 'native2' else 'if_query') if '{q2}' in t else None} for i, f, t in _T}
TEMPLATE_IDS = [i for i, f, t in _T]
LAYOUTS = (0, 1, 2, 3)
MORE_LAYOUTS = ('model-db', 'view-full', 'job-sched-if', 'trigger-columns', 'native-join-on', 'evaluate-using',
                'anomaly-predict-first', 'retrain-db-using', 'finetune-model-db')
_BREAK_RE = re.compile(r' (FROM|PREDICT|USING|START|END|EVERY|AS|ON|COLUMNS|WHERE|JOIN|LIMIT|UNION|IF(?= \())\b')


def render(tmpl, layout, q, q2=None):
    text = tmpl['text']
    if layout == 1:
        text = text.replace('({q})', '( {q} )').replace('({q2})', '( {q2} )')
    elif layout == 2:
        text = _BREAK_RE.sub(lambda m: '\n  ' + m.group(1), text)
        text = text.replace('({q})', '(\n    {q}\n  )').replace('({q2})', '(\n    {q2}\n  )')
    elif layout == 3:
        text = '  \n-- stmt\n\n   ' + text.replace('({q})', '(  {q}\n)').replace('({q2})', '(\t{q2}\n   )') + ' ;\n'
    return text.replace('{q}', q).replace('{q2}', q2 if q2 is not None else 'select 2')


def slots_of(tree, tmpl):
    """[(slot name, object, attribute)] where the stored inner texts live."""
    fam = tmpl['family']
    if fam == 'native2':
        nodes = [n for n in walk(tree) if type(n).__name__ == 'NativeQuery']
        by_db = {}
        for n in nodes:
            by_db.setdefault(str(n.integration.parts[-1]), []).append(n)
        if len(nodes) != 2 or sorted(by_db) != ['db', 'db2']:
            return None
        return [('query', by_db['db'][0], 'query'), ('query2', by_db['db2'][0], 'query')]
    if fam == 'native':
        nodes = [n for n in walk(tree) if type(n).__name__ == 'NativeQuery']
        if len(nodes) != 1:
            return None
        return [('query', nodes[0], 'query')]
    out = [('query', tree, 'query_str')]
    if tmpl['q2']:
        out.append(('if_query', tree, 'if_query_str'))
    return out


# ------------------------------------------------------------------------------------------------ inner texts
FIXED = [
    "select * from t where name = ''",
    "select 'it''s'",
    "select ''''",
    "select 'a\\'b', \"c\\\"d\", 'e\\\\'",
    "select \"it's\", '\"', 'a\\\"b', \"a\\'b\"",
    "select @v, @@sv",
    "select @'a b', @\"a b\", @`a b`",
    "select @@'a b', @@\"a b\", @@`a b`",
    "select @a.b, @@c.d, @$x, @_y",
    "select 007, 1.50, 0.0, 00.10, 12345678901234567890",
    "select f(a, (b)), g() from t",
    "select a from (select b from (select c from t) x) y",
    "select\n  a,\n  b -- trailing, 'quoted\n from t /* block\n comment */ where c = 1",
    "  select a  ",
    "\n\tselect a\r\n",
    "select 'a\nb'",
    "select 'a \n  b', \"c\t\n\td\"",
    "select '  two  blanks  ', `a  b`",
    "select '-- not a comment', '/* nor this */'",
    "select '(' , ')' ",
    "select a; select b",
    "SELECT A FROM T WHERE B = 'MiXeD'",
    "select * from t1 where a in (1, 2, (3)) and b = (select max(b) from t2 where c = 'x')",
    "insert into t (a, b) values (1, 'x'), (2, '')",
    "x", "1", "''", "@v", "a b c",
    "select $x, `select`, a.b.c, a.*, 1a",
    "select a <= b, c <> d, e != f, g || h, i -> j, k ->> l, m :: n, - - 1, a - -1, a-b",
    "select case when a = '' then 'e' else @x end",
    "select 'ünï', \"日本\", `ünï`",
    "select a/**/from/* x */t",
    "select a,b,(c),d from t where(e)=(f)",
    "select a from t where b NOT  IN (1) and c IS\tNOT null ORDER BY d",
    "select a from t where b NOT\nIN (1) and c IS\n  NOT null",
    "select a;",
    "select a from t;\nselect b from t;",
    "select a\nfrom t\nwhere b = 1\nand c = 'x'",
    "select @$x, '$', `$`",
    "select * from pg.tbl1 where b>{{PREVIOUS_START_DATE}} and c > '{{START}}'",
    # embedding commands inside the inner text (job bodies): several statements, their own raw queries, IF
    "CREATE MODEL m2 FROM db2 (select '' a, 'it''s' b from t) PREDICT y USING tag = 'x';\n"
    "RETRAIN m2 FROM db2 (select @v) ; CREATE JOB j2 (select 1) IF (select '')",
    "insert into t2 (select * from db3 (select \"d\\\"q\" from `a b`) where c = @@`a b`); delete from t where a = ''",
    "CREATE VIEW v2 AS (select * from db2 (select ')' , '(' from t)) -- ) it's\n; select $$ a ( $$ , ')' , $$ ) $$",
    "select ` ( `, \" ) \", ' (( ', /* ) */ @'a ( ', @@\"b ) \", -- (((\n 1",
]

STRINGS = ["'x'", "'a b'", "''", "'2020-01-01'", "'it''s'", "''''", "'''a'", "'a'''", "'a\\'b'", "'a\\\\'", "'\\\\'",
           "'%'", "'\"'", "'a\\\"b'", "'-- c'", "'/* c */'", "'a  b'", "'a\nb'", "'a \n  b'", "'('", "')'", "'@v'", "' '",
           '"x"', '"a b"', '"a.b"', '"it\'s"', '"a\\"b"', '"a\\\'b"', '""', '"-- c"', '"a  b"', '"("']
VARS = ['@v', '@abc', '@a.b', '@$x', '@_y', "@'a b'", '@"a b"', '@`a b`', "@'x'", '@@sv', '@@a.b', "@@'a b'", '@@"a b"',
        '@@`a b`', "@'a  b'", '@@$s']
NUMS = ['0', '1', '10', '007', '00', '1.50', '0.0', '00.10', '1.5', '12345678901234567890', '123456789.123456789']
IDS = ['$$', 'a', 'b', 't1', 'col1', 'T2', 'MiXed', '`a b`', '`select`', '`a  b`', "`a'b`", '`a.b`', '1a', '$x', 'a.b', 'a.b.c',
       '`ünï`', 'primary_key', 'x_1']
OPS = [',', ',', ',', '.', '*', '+', '-', '/', '%', '=', '!=', '<>', '<', '<=', '>', '>=', '||', '->', '->>', '::', ':',
       ';', '[', ']', '{', '}', '?', '~', '!~']
KWS = ['select', 'SELECT', 'from', 'FROM', 'where', 'and', 'or', 'not', 'in', 'is', 'null', 'as', 'join', 'on',
       'order by', 'GROUP BY', 'limit', 'case', 'when', 'then', 'else', 'end', 'union', 'all', 'like', 'between',
       'is not', 'not in', 'insert', 'into', 'values', 'update', 'set', 'delete', 'create', 'model', 'predict',
       'using', 'if', 'view', 'job', 'every', 'start', 'distinct', 'true', 'false', 'interval', 'cast', 'latest', 'left',
       'exists', 'having', 'offset', 'desc', 'asc', 'with', 'trigger', 'evaluate', 'retrain', 'finetune']
SEPS = [' ', ' ', ' ', ' ', '  ', '\n', '\n  ', ' \n', '\n\n', '\t', '\r\n', ' -- c\n', ' -- it\'s\n', ' --)\n',
        ' /* c */ ', ' /* it\'s ( */ ', ' /*\n multi\n*/ ', '/**/', '', '', '']
LEADS = ['', '', '', ' ', '\n', '\n  ', '  ', '/* lead */ ', '-- lead\n', '\t']
TAILS = ['', '', '', ' ', '\n', ' -- tail\n', ' /* tail */', '\n  ']
_GLUE = '(),'

_BASE = {}
_ISO = {}
_ACC = {}
_CORPUS = []
_LEXEMES = []


def paren_shapes(max_len=6):
    """Every balanced sequence over ( ) and a word with 1..max_len tokens and at least one parenthesis (the words are
    named a, b, c .. in order, so that a shifted or dropped token shows)."""
    out = []

    def rec(seq, depth):
        if seq and depth == 0 and '(' in seq:
            names = iter('abcdef')
            out.append([next(names) if t == 'w' else t for t in seq])
        if len(seq) == max_len:
            return
        for t in ('(', ')', 'w'):
            nd = depth + (t == '(') - (t == ')')
            if nd < 0 or nd > max_len - len(seq) - 1:
                continue
            rec(seq + [t], nd)
    rec([], 0)
    return out


def render_shape(toks, spaced):
    if spaced:
        return ' '.join(toks)
    out = []
    for k, t in enumerate(toks):
        if k and t not in '()' and toks[k - 1] not in '()':
            out.append(' ')
        out.append(t)
    return ''.join(out)


PAREN_SHAPES = paren_shapes(6)


def prepare(tier):
    gg = grammar.get('mindsdb')
    _LEXEMES.clear()
    # one spelling of every fixed token of the lexer (keywords, two-word keywords, operators), parentheses excepted
    _LEXEMES.extend(sorted(set(x for x in gg.kw.values() if x not in ('(', ')') and rawtext.well_formed(x)[0])))
    _CORPUS.clear()
    seen = set()
    for x in corpus.accepted():
        s = re.sub(r'[\s;]+$', '', x['sql'])
        if s in seen or len(s) > 1500:
            continue
        seen.add(s)
        if rawtext.well_formed(s)[0]:
            _CORPUS.append(s)
    _CORPUS.sort()


def lay(draw, tokens):
    """Join tokens with drawn separators.  Returns (text, strict normal form by construction)."""
    out = [draw(st.sampled_from(LEADS))]
    exp = []
    for k, tok in enumerate(tokens):
        if k:
            prev = tokens[k - 1]
            sep = draw(st.sampled_from(SEPS))
            glue_ok = prev in _GLUE or tok in _GLUE
            if sep == '' and not glue_ok:
                sep = ' '
            if sep == '/**/' and not ((prev[-1].isalnum() or prev in _GLUE) and (tok[0].isalnum() or tok in _GLUE)):
                sep = ' /**/ '
            out.append(sep)
            if sep != '':
                exp.append(' ')
        out.append(tok)
        exp.append(tok)
    out.append(draw(st.sampled_from(TAILS)))
    return ''.join(out), ''.join(exp)


def token_seq(draw, depth=0, max_items=6):
    n = draw(st.integers(1, max_items))
    out = []
    for _ in range(n):
        what = draw(st.sampled_from(['str', 'str', 'var', 'var', 'num', 'id', 'id', 'kw', 'kw', 'op', 'op',
                                     'group', 'group', 'empty', 'str-grammar', 'kw-any']))
        if what == 'group' and depth < 3:
            out.append('(')
            out.extend(token_seq(draw, depth + 1, max_items=4))
            out.append(')')
        elif what == 'empty':
            if out or draw(st.integers(0, 1)) == 0:      # an empty pair may be first in the text / in its group
                out.extend(['(', ')'])
            else:
                out.append('f')
        elif what == 'str' or what == 'group':
            out.append(draw(st.sampled_from(STRINGS)))
        elif what == 'str-grammar':
            p = grammar.POOLS['rich']
            out.append(draw(st.sampled_from(p['QUOTE_STRING'] + p['DQUOTE_STRING'] + p['VARIABLE'] + p['SYSTEM_VARIABLE']
                                            + p['INTEGER'] + p['FLOAT'] + p['ID'])))
        elif what == 'kw-any':
            out.append(draw(st.sampled_from(_LEXEMES)))        # every keyword / operator token of the lexer
        elif what == 'var':
            out.append(draw(st.sampled_from(VARS)))
        elif what == 'num':
            out.append(draw(st.sampled_from(NUMS)))
        elif what == 'id':
            out.append(draw(st.sampled_from(IDS)))
        elif what == 'kw':
            out.append(draw(st.sampled_from(KWS)))
        else:
            out.append(draw(st.sampled_from(OPS)))
    return out


def relayout(draw, text):
    """Replace every blank/comment run of a text by a drawn separator (adjacency of pieces is kept)."""
    out = []
    for k, s in rawtext.scan(text):
        if k == 'ws':
            sep = draw(st.sampled_from([x for x in SEPS if x and x != '/**/']))
            out.append(sep)
        else:
            out.append(s)
    return ''.join(out)


@st.composite
def inner_text(draw, short=False):
    mode = draw(st.sampled_from(['tokens', 'tokens', 'tokens', 'grammar', 'grammar', 'corpus', 'fixed']))
    if short:
        mode = draw(st.sampled_from(['tokens', 'tokens', 'fixed']))
    if mode == 'tokens':
        toks = token_seq(draw, 0, 3 if short else 6)
        text, exp = lay(draw, toks)
        return text, exp, 'tokens'
    if mode == 'grammar':
        gg = grammar.get('mindsdb')
        toks = draw(gg.sentence(start=draw(st.sampled_from(['select', 'select', 'select', 'union'])), pool='rich'))
        text, exp = lay(draw, toks)
        return text, exp, 'grammar'
    base = draw(st.sampled_from(_CORPUS if mode == 'corpus' else FIXED))
    if draw(st.booleans()):
        base = relayout(draw, base)
        if not rawtext.well_formed(base)[0]:
            base = base + '\n'
    return base, rawtext.strict(base), mode


@st.composite
def cases(draw):
    t = draw(st.sampled_from(TEMPLATE_IDS))
    layout = draw(st.sampled_from([0, 0, 1, 2, 3]))
    text, exp, origin = draw(inner_text())
    case = {'tmpl': t, 'layout': layout, 'inner': text, 'expect': exp, 'origin': origin}
    if TEMPLATES[t]['q2']:
        t2, e2, o2 = draw(inner_text(short=True))
        case['inner2'] = t2
        case['expect2'] = e2
    return case


# ------------------------------------------------------------------------------------------------ oracle
def _content_classes(text):
    ps = rawtext.scan(text)
    cl = set()
    depth = 0
    for k, s in ps:
        if k in ('sq', 'dq'):
            cl.add('has:string')
            if len(s) == 2:
                cl.add('has:string-empty')
            if k == 'sq' and "''" in s[1:-1]:
                cl.add('has:doubled-quote')
            if '\\' in s:
                cl.add('has:backslash')
            if '\n' in s:
                cl.add('has:multiline-string')
        elif k == 'bq':
            cl.add('has:backquoted')
        elif k == 'var':
            cl.add('has:variable')
            if s[-1] in rawtext.QUOTES:
                cl.add('has:variable-quoted')
            if s.startswith('@@'):
                cl.add('has:system-variable')
        elif k == 'word':
            if re.fullmatch(r'0\d+|\d+\.\d*0|0\d+\.\d+', s):
                cl.add('has:number-spelling')
        elif k == 'punct':
            if s == '(':
                depth += 1
                cl.add('has:nested-paren')
            elif s == ')':
                depth -= 1
        elif k == 'ws':
            if s.startswith('--') or s.startswith('/*'):
                cl.add('has:comment')
            if '\n' in s:
                cl.add('has:newline')
    if _empty_pairs_first(ps):
        cl.add('has:empty-pair-first')
    return sorted(cl)


def _empty_pairs_first(ps):
    """Indexes (into the scanned pieces) of every `(` that opens an empty pair `()` which is the first thing of the
    text or of its group, i.e. not preceded by a token of the same group."""
    idx = [i for i, (k, s) in enumerate(ps) if k != 'ws']
    out = []
    for n, i in enumerate(idx):
        if ps[i] == ('punct', '(') and n + 1 < len(idx) and ps[idx[n + 1]] == ('punct', ')'):
            if n == 0 or ps[idx[n - 1]] == ('punct', '('):
                out.append(i)
    return out


def _site_of_piece(kind, s):
    if kind == 'sq':
        return 'string:single'
    if kind == 'dq':
        return 'string:double'
    if kind == 'bq':
        return 'identifier:backquoted'
    if kind == 'var':
        return 'system-variable' if s.startswith('@@') else 'variable'
    if kind == 'word':
        return 'number' if re.fullmatch(r'\d+(\.\d+)?', s) else 'word'
    if kind == 'op':
        return 'operator'
    return 'punctuation'


def _piece_tags(kind, s):
    tags = []
    if kind in ('sq', 'dq'):
        body = s[1:-1]
        if body == '':
            tags.append('empty')
        if kind == 'sq' and "''" in body:
            tags.append('doubled-quote')
        if "\\'" in body:
            tags.append('backslash-quote')
        if '\\"' in body:
            tags.append('backslash-dquote')
        if '\\\\' in body:
            tags.append('backslash-backslash')
    elif kind == 'var':
        q = s[-1]
        tags.append({"'": 'quoted:single', '"': 'quoted:double', '`': 'quoted:backquote'}.get(q, 'plain'))
    return tags


def _embed(tmpl, slot, text):
    """Parse the template (flat layout) with `text` in `slot`; return the stored text of that slot or an exception."""
    from mindsdb_sql import parse_sql
    if slot == 'query':
        sql = render(tmpl, 0, text, 'select 2')
    else:
        sql = render(tmpl, 0, 'select 1', text)
    tree = parse_sql(sql, 'mindsdb')
    sl = slots_of(tree, tmpl)
    for name, obj, attr in sl or ():
        if name == slot:
            return getattr(obj, attr)
    return None


def isolate(tmpl, slot, kind, s):
    """Embed `x <piece> y` on its own.  None = stored correctly (or cannot be judged); else (site, features, detail)."""
    key = (tmpl['id'], slot, s)
    if key in _ISO:
        return _ISO[key]
    res = None
    q = 'x ' + s + ' y'
    try:
        got = _embed(tmpl, slot, q)
    except Exception:
        got = None
    if isinstance(got, str) and rawtext.lenient(got) != rawtext.lenient(q):
        g = got.strip(rawtext.WS)
        feats = _piece_tags(kind, s)
        if len(g) >= 4 and g[0] == 'x' and g[-1] == 'y' and g[1] in rawtext.WS and g[-2] in rawtext.WS:
            core = g[1:-1].strip(rawtext.WS)
        else:
            core = g
            feats.append('context-damaged')
        d = rawtext.dropped(s, core)
        feats.append('diff:other' if d is None else 'dropped:' + d)
        res = (_site_of_piece(kind, s), feats, f'inner {q!r} stored as {got!r}')
    _ISO[key] = res
    return res


COMPOUND = {('IS', 'NOT'), ('NOT', 'IN'), ('NOT', 'LIKE'), ('NOT', 'EXISTS'), ('ORDER', 'BY'), ('GROUP', 'BY'),
            ('PARTITION', 'BY'), ('NULLS', 'FIRST'), ('NULLS', 'LAST'), ('PRIMARY', 'KEY'), ('KNOWLEDGE', 'BASE'),
            ('KNOWLEDGE', 'BASES')}


def _reparse_features(text):
    """Tags for a re-parse difference of texts that agree up to blanks/comments: the only way blanks/comments can
    matter is between the words of a two-word keyword."""
    ps = rawtext.scan(text)
    feats = set()
    for i, (k, s) in enumerate(ps):
        if k != 'word':
            continue
        j = i + 1
        comment = False
        while j < len(ps) and ps[j][0] == 'ws':
            if ps[j][1].startswith('--') or ps[j][1].startswith('/*'):
                comment = True
            j += 1
        if j < len(ps) and j > i + 1 and ps[j][0] == 'word' and (s.upper(), ps[j][1].upper()) in COMPOUND:
            feats.add('comment-inside-compound-keyword' if comment else 'blanks-inside-compound-keyword')
    return sorted(feats)


def _first_diff(a, b):
    n = min(len(a), len(b))
    i = 0
    while i < n and a[i] == b[i]:
        i += 1
    return f'at {i}: expected ...{a[max(0, i - 15):i + 25]!r} stored ...{b[max(0, i - 15):i + 25]!r}'


def _layout_features(text):
    return [c.replace('has:', 'inner:') for c in _content_classes(text)
            if c in ('has:newline', 'has:comment', 'has:nested-paren', 'has:multiline-string')]


def attribute(tmpl, slot, inner, stored, cfg, sql):
    """The stored text differs from the inner text: say which pieces / which layout cause it."""
    recs = []
    seen = set()
    bad = {}
    for k, s in rawtext.scan(inner):
        if k in ('ws', 'punct') or s in seen:
            continue
        seen.add(s)
        r = isolate(tmpl, slot, k, s)
        if r is not None:
            bad[s] = r
    sigs = set()
    for s, (site, feats, detail) in bad.items():
        sg = (site, tuple(sorted(feats)))
        if sg in sigs:
            continue
        sigs.add(sg)
        recs.append(findings.record('element-rewritten', site, feats, cfg, detail, sql))
    # neutralise the pieces that fail on their own and compare the whole again
    if bad:
        out = []
        for k, s in rawtext.scan(inner):
            if s in bad and k != 'ws':
                out.append({'sq': "'x'", 'dq': '"x"', 'var': 'v', 'bq': '`x`'}.get(k, 'x'))
            else:
                out.append(s)
        inner_n = ''.join(out)
        try:
            stored_n = _embed(tmpl, slot, inner_n)
        except Exception:
            stored_n = None
    else:
        inner_n, stored_n = inner, stored
    if isinstance(stored_n, str) and rawtext.lenient(stored_n) != rawtext.lenient(inner_n):
        recs.append(findings.record('text-differs', 'layout', _layout_features(inner_n), cfg,
                                    _first_diff(rawtext.lenient(inner_n), rawtext.lenient(stored_n)) +
                                    f' | inner {inner_n!r}', sql))
    return recs


def _accepts(tmpl, slot, text):
    """How the flat template with `text` in `slot` (the other slot benign) is received: 'ok' | 'lex' (no token for
    some character) | 'parse' (rejected by the grammar) | 'other'."""
    from mindsdb_sql.exceptions import ParsingException
    from sly.lex import LexError
    key = (tmpl['id'], slot, text)
    r = _ACC.get(key)
    if r is None:
        try:
            _embed(tmpl, slot, text)
            r = 'ok'
        except LexError:
            r = 'lex'
        except ParsingException:
            r = 'parse'
        except Exception:
            r = 'other'
        _ACC[key] = r
    return r


def _fill_empty_pairs_first(text):
    """(text with every first-in-text / first-in-group empty pair given a content `(x)`, where the pairs were)."""
    ps = rawtext.scan(text)
    first = _empty_pairs_first(ps)
    where = set()
    nonws = [i for i, (k, s) in enumerate(ps) if k != 'ws']
    for i in first:
        where.add('in-text' if i == nonws[0] else 'in-group')
    out = []
    for i, (k, s) in enumerate(ps):
        out.append(s)
        if i in first:
            out.append('x')
    return ''.join(out), sorted(where)


def judge_rejected(tmpl, texts, cfg, sql, classes):
    """The statement was rejected by the grammar.  Within the quantifier (balanced parentheses: checked by the caller;
    every piece a token that the same slot accepts on its own) that is a failure of the raw-query grammar."""
    recs = []
    flat = {name: _accepts(tmpl, name, x) for name, x in texts.items()}
    if all(v == 'ok' for v in flat.values()):
        # every inner text is accepted in the flat statement: only the statement layout / the combination rejects
        classes.append('rejected:only-in-combination')
        recs.append(findings.record('inner-rejected', 'statement', ['accepted-when-flat-and-alone'], cfg,
                                    'each inner text is accepted in the one-line statement with the other slot benign',
                                    sql))
        return recs
    for name, x in texts.items():
        if flat[name] != 'parse':
            continue
        c2 = dict(cfg, slot=name)
        seen = set()
        verdicts = {}
        for k, s in rawtext.scan(x):
            if k in ('ws', 'punct') or s in seen:
                continue
            seen.add(s)
            verdicts[s] = (k, _accepts(tmpl, name, 'x ' + s + ' y'))
        alone = [(s, k) for s, (k, v) in verdicts.items() if v == 'parse']
        if alone:
            # a single lexable piece that the raw query does not take
            s0, k0 = alone[0]
            classes.append('rejected:single-piece')
            recs.append(findings.record('inner-rejected', _site_of_piece(k0, s0), ['single-piece'], c2,
                                        f'`x {s0} y` is rejected on its own', sql))
            continue
        if any(v != 'ok' for k, v in verdicts.values()):
            classes.append('rejected:piece-not-a-token')
            continue
        classes.append('rejected:balanced-tokens')
        filled, where = _fill_empty_pairs_first(x)
        feats = []
        if where and _accepts(tmpl, name, filled) == 'ok':
            feats.append('empty-pair-first')
            feats.extend('empty-pair-first:' + w for w in where)
        else:
            feats.append('cause-unknown')
            feats.extend(_layout_features(x))
        recs.append(findings.record('inner-rejected', 'raw_query', feats, c2,
                                    f'balanced inner text of accepted pieces is rejected: {x!r}'
                                    + (f' (accepted as {filled!r})' if 'empty-pair-first' in feats else ''), sql))
    return recs


def _lost_tags(want, stored):
    tags = set()
    for k, s in rawtext.scan(want):
        if k in ('sq', 'dq', 'var') and stored.count(s) < want.count(s):
            tags.add('lost:variable' if k == 'var' else 'lost:string')
    return sorted(tags) or ['lost:other']


def judge_entry2(tmpl, texts, sql, cfg, main_equal, classes):
    """(5) the same statement through get_lexer_parser(): lexer.tokenize -> parser.parse."""
    from mindsdb_sql import get_lexer_parser
    from vf.props.c02 import site_of
    c2 = dict(cfg, entry='get_lexer_parser')
    text = re.sub(r'[\s;]+$', '', sql)
    try:
        lexer, parser = get_lexer_parser('mindsdb')
        tree = parser.parse(lexer.tokenize(text))
    except RecursionError:
        return []
    except Exception as e:
        classes.append('entry2:exception')
        return [findings.record('missing-query', site_of(e), ['entry:get_lexer_parser'], c2,
                                f'{type(e).__name__}: {str(e)[:200]}', sql)]
    if tree is None:
        classes.append('entry2:rejected')
        return [findings.record('missing-query', 'entry:get_lexer_parser', ['rejected-only-by-hand-driven-parser'], c2,
                                'parse_sql accepts the statement, parser.parse(lexer.tokenize(..)) returns None', sql)]
    slots = slots_of(tree, tmpl)
    if slots is None:
        return []           # reported on the parse_sql path
    out = []
    for name, obj, attr in slots:
        want = texts[name]
        stored = getattr(obj, attr)
        if not main_equal.get(name):
            continue        # the parse_sql path already differs: reported there
        if isinstance(stored, str) and rawtext.lenient(stored) == rawtext.lenient(want):
            classes.append('entry2:stored-equal')
            continue
        classes.append('entry2:stored-differs')
        if not isinstance(stored, str):
            out.append(findings.record('missing-query', 'entry:get_lexer_parser', [], dict(c2, slot=name),
                                       f'stored {stored!r} for inner {want!r}', sql))
            continue
        out.append(findings.record('text-differs', 'entry:get_lexer_parser',
                                   ['equal-through-parse_sql'] + _lost_tags(want, stored), dict(c2, slot=name),
                                   _first_diff(rawtext.lenient(want), rawtext.lenient(stored)) +
                                   f' | inner {want!r} stored {stored!r}', sql))
    return out


# (6) one get_lexer_parser() pair used for two statements in a row (state carried between calls).
#     previous statements: accepted / rejected by the grammar / by the lexer / stopped by an exception of a grammar action
#     / an embedding command of its own; each long enough that a slice of it at the offsets of the next statement is text
SESSION_PREV = [
    ('accepted', "SELECT aaaaaaaaaaaaaaaaaaaaaaaaaaaaaaaaaaaaaaaaaaaaaaaaaaaaaaaaaaaaaaaaaaaaaaaaaaaaaaaaaaaaaaaaa, 'x''y' "
                 "FROM ttttttttttttttttttttttttttttttttttttttttttttttttttttttttttttttttttt WHERE bbbbbbbbbbbbbbbbbbbbbbbb = @v"),
    ('syntax-error', "SELECT FROM FROM aaaaaaaaaaaaaaaaaaaaaaaaaaaaaaaaaaaaaaaaaaaaaaaaaaaaaaaaaaaaaaaaaaaaaaaaaaaaaaaaaaaaaaaa "
                     "bbbbbbbbbbbbbbbbbbbbbbbbbbbbbbbbbbbbbbbbbbbbbbbbbbbbbbbbbbbbbbbbbbbbbbbbbbbbbbbbbbbbbbbbbbbbbbbbbbbbbbb"),
    ('syntax-error-early', "SELECT 1 LIMIT 1 LIMIT 2 , aaaaaaaaaaaaaaaaaaaaaaaaaaaaaaaaaaaaaaaaaaaaaaaaaaaaaaaaaaaaaaaaaaaaa, "
                           "bbbbbbbbbbbbbbbbbbbbbbbbbbbbbbbbbbbbbbbbbbbbbbbbbbbbbbbbbbbbbbbbbbbbbbbbbbbbbbbbbbbbbbbbbbbbbbbbb"),
    ('lex-error', "SELECT aaaaaaaaaaaaaaaaaaaaaaaaaaaaaaaaaaa # bbbbbbbbbbbbbbbbbbbbbbbbbbbbbbbbbbbbbbbbbbbbbbbbbbbbbbbbbbbbbbbbbbbbb "
                  "ccccccccccccccccccccccccccccccccccccccccccccccccccccccccccccccccccccccccccccccccccccccccccccccccccc"),
    ('action-exception', "SELECT * FROM t AS a.b WHERE xxxxxxxxxxxxxxxxxxxxxxxxxxxxxxxxxxxxxxxxxxxxxxxxxxxxxxxxxxxxxxxxxxxxxxx = 1 "
                         "AND yyyyyyyyyyyyyyyyyyyyyyyyyyyyyyyyyyyyyyyyyyyyyyyyyyyyyyyyyyyyyyyyyyyyyyyyyyyyyyyyyyyyyyyyy = 2"),
    ('action-exception-late', "SELECT xxxxxxxxxxxxxxxxxxxxxxxxxxxxxxxxxxxxxxxxxxxxxxxxxxxxxxxxxxxxxxxxxxxxxxxxxxxxxxxxxxxxxxxxxxxxxxx "
                              "FROM t1 LIMIT 1 ORDER BY yyyyyyyyyyyyyyyyyyyyyyyyyyyyyyyyyyyyyyyyyyyyyyyyyyyyyyyyyyyyyyyyyyyy"),
    ('embedding', "CREATE VIEW wwwwwwwwwwwwwwwwwwwwwwwwwww AS (select 'zzzzzzzzzzzzzzzzzzzzzzzzzzzzzzzzzzzzzzzzzzzzzzzzzzzzzzz', '' "
                  "from uuuuuuuuuuuuuuuuuuuuuuuuuuuuuuuuuuuuuuuuuuuuuuuuuuuuuuuuuuuuuuuuuuuuuuuuuuuuuuuuuuuuuuuuuuu)"),
]
SESSION_PREV_TEXT = dict(SESSION_PREV)
SESSION_INNER = ["select '', 'it''s', @v from t where a = @@s",
                 "select \"d\\\"q\" , f((a), ())\n from `t 1` -- c\n where b = 'x\\'y'",
                 "select a from t where b in (1, (2)) and c = @'a b' /* z */ or d = ''''"]


def _drive(parser, lexer, text, how):
    """('tree', tree) | ('rejected', None) | ('lex-error', None) | ('exception', None)"""
    from sly.lex import LexError
    try:
        if how == 'list':
            tree = parser.parse(iter(list(lexer.tokenize(text))))
        else:
            tree = parser.parse(lexer.tokenize(text))
    except LexError:
        return 'lex-error', None
    except RecursionError:
        raise
    except Exception:
        return 'exception', None
    return ('tree', tree) if tree is not None else ('rejected', None)


def judge_session(case, col):
    """One lexer/parser pair: the previous statement, then the embedding statement.  Judged only when the embedding
    statement on a fresh pair (same way of driving) stores the inner text."""
    from mindsdb_sql import get_lexer_parser
    tmpl = TEMPLATES[case['tmpl']]
    ses = case['session']
    inner = case['inner']
    texts = {'query': inner}
    if tmpl['q2']:
        texts[tmpl['slot2']] = case.get('inner2') or 'select 2'
    for x in texts.values():
        if not rawtext.well_formed(x)[0]:
            col.excluded('outside domain')
            return []
    sql = render(tmpl, 0, inner, texts.get(tmpl['slot2']))
    prev = SESSION_PREV_TEXT[ses['prev']]
    key = (case['tmpl'], inner, ses['prev'], ses['prev_drive'], ses['drive'])
    classes = ['origin:session', 'session:prev:' + ses['prev'], 'session:drive:' + ses['prev_drive'] + '>' + ses['drive']]
    cfg = {'command': tmpl['family'], 'entry': 'get_lexer_parser'}

    def stored_of(tree):
        sl = slots_of(tree, tmpl) if tree is not None else None
        if sl is None:
            return None
        return {name: getattr(obj, attr) for name, obj, attr in sl}

    lexer, parser = get_lexer_parser('mindsdb')
    fresh = stored_of(_drive(parser, lexer, sql, ses['drive'])[1])
    if fresh is None or any(not isinstance(fresh[n], str) or rawtext.lenient(fresh[n]) != rawtext.lenient(texts[n])
                            for n in texts):
        classes.append('session:not-judged')         # the fresh pair differs already: reported by (1) / (5)
        col.case(key, False, classes)
        return []
    lexer, parser = get_lexer_parser('mindsdb')
    outcome = _drive(parser, lexer, prev, ses['prev_drive'])[0]
    classes.append('session:prev-outcome:' + outcome)
    how, tree = _drive(parser, lexer, sql, ses['drive'])
    feats = ['prev:' + ses['prev'], 'prev-outcome:' + outcome, 'prev-drive:' + ses['prev_drive'], 'drive:' + ses['drive'],
             'equal-with-fresh-pair']
    out = []
    got = stored_of(tree)
    if got is None:
        classes.append('session:second-statement-' + how)
        out.append(findings.record('missing-query', 'entry:get_lexer_parser:reused', feats + ['second:' + how], cfg,
                                   f'after {prev[:40]!r}.. the statement accepted by a fresh pair gives {how}', sql))
    else:
        for name in texts:
            st_ = got[name]
            if isinstance(st_, str) and rawtext.lenient(st_) == rawtext.lenient(texts[name]):
                classes.append('session:stored-equal')
                continue
            classes.append('session:stored-differs')
            f2 = list(feats)
            if isinstance(st_, str) and st_ and st_ in prev:
                f2.append('stored-is-text-of-previous-statement')
            out.append(findings.record('text-differs', 'entry:get_lexer_parser:reused', f2, dict(cfg, slot=name),
                                       f'after {prev[:40]!r}.. inner {texts[name]!r} stored {st_!r}', sql))
    col.case(key, True, classes, {'template': case['tmpl'], 'session': ses, 'inner': inner, 'stored_equal': not out})
    return out


def _baseline(tmpl):
    from mindsdb_sql import parse_sql
    b = _BASE.get(tmpl['id'])
    if b is None:
        tree = parse_sql(render(tmpl, 0, 'select 1', 'select 2'), 'mindsdb')
        for name, obj, attr in slots_of(tree, tmpl):
            setattr(obj, attr, '<' + name + '>')
        b = _BASE[tmpl['id']] = struct(tree)
    return b


def judge(case, col):
    from mindsdb_sql import parse_sql
    from mindsdb_sql.exceptions import ParsingException
    from sly.lex import LexError
    from vf.props.c02 import site_of
    if case.get('session'):
        return judge_session(case, col)
    tmpl = TEMPLATES[case['tmpl']]
    layout = case.get('layout', 0)
    inner = case['inner']
    inner2 = case.get('inner2') if tmpl['q2'] else None
    texts = {'query': inner}
    if tmpl['q2']:
        if inner2 is None:
            inner2 = 'select 2'
        texts[tmpl['slot2']] = inner2
    for name, x in texts.items():
        ok, why = rawtext.well_formed(x)
        if not ok:
            col.excluded('outside domain: ' + why)
            return []
    # harness self-check: the scanner's normal form equals the one known by construction
    if case.get('expect') is not None and rawtext.strict(inner) != case['expect']:
        raise AssertionError(f'scanner disagrees with construction: {inner!r} -> {rawtext.strict(inner)!r} '
                             f'!= {case["expect"]!r}')
    if inner2 is not None and case.get('expect2') is not None and rawtext.strict(inner2) != case['expect2']:
        raise AssertionError(f'scanner disagrees with construction: {inner2!r}')
    sql = render(tmpl, layout, inner, inner2)
    cfg = {'command': tmpl['family']}
    origin = case.get('origin', '?')
    classes = ['origin:' + origin, 'command:' + tmpl['family'], 'layout:%d' % layout]
    content = set()
    for x in texts.values():
        content.update(_content_classes(x))
    key = (case['tmpl'], inner, inner2)
    try:
        tree = parse_sql(sql, 'mindsdb')
    except LexError:
        classes.extend(['rejected', 'rejected:lex'])
        col.case(key, False, classes)
        return []
    except ParsingException:
        classes.append('rejected')
        classes.extend(sorted(c for c in content if c == 'has:empty-pair-first'))
        out = judge_rejected(tmpl, texts, cfg, sql, classes)
        col.case(key, bool(out), classes)
        return out
    except RecursionError:
        col.excluded('recursion')
        return []
    except Exception:
        col.excluded('internal-error (C02)')
        return []
    classes.append('accepted')
    classes.extend(sorted(content))
    out = []
    slots = slots_of(tree, tmpl)
    if slots is None:
        out.append(findings.record('missing-query', tmpl['family'], [], cfg, 'no single NativeQuery node in the tree', sql))
        slots = []
    all_equal = bool(slots)
    main_equal = {}
    for name, obj, attr in slots:
        want = texts[name]
        stored = getattr(obj, attr)
        classes.append('slot:' + name)
        if not isinstance(stored, str):
            out.append(findings.record('missing-query', f'{type(obj).__name__}.{attr}', [], cfg,
                                       f'stored {stored!r} for inner {want!r}', sql))
            all_equal = False
            continue
        if rawtext.lenient(stored) == rawtext.lenient(want):
            classes.append('stored-equal')
            main_equal[name] = True
            if rawtext.strict(stored) == rawtext.strict(want):
                classes.append('stored-equal-layout-kept')
            # (2) re-parse
            try:
                t_inner = parse_sql(want, 'mindsdb')
            except Exception:
                t_inner = None
            if t_inner is not None:
                classes.append('reparse-checked')
                try:
                    t_stored = parse_sql(stored, 'mindsdb')
                    d = diff(struct(t_inner), struct(t_stored))
                    if d:
                        out.append(findings.record('reparse-differs', type(t_inner).__name__, _reparse_features(want),
                                                   cfg, f'{d[0]}: {d[1]} != {d[2]} | stored {stored!r}', sql))
                except Exception as e:
                    out.append(findings.record('reparse-differs', site_of(e),
                                               ['stored-text-rejected'] + _reparse_features(want), cfg,
                                               f'{type(e).__name__}: {str(e)[:200]} | stored {stored!r}', sql))
        else:
            all_equal = False
            classes.append('stored-differs')
            c2 = dict(cfg, slot=name)
            out.extend(attribute(tmpl, name, want, stored, c2, sql))
    # (5) the hand-driven lexer/parser pair
    out.extend(judge_entry2(tmpl, texts, sql, cfg, main_equal, classes))
    # (3) the other fields
    if slots:
        for name, obj, attr in slots:
            setattr(obj, attr, '<' + name + '>')
        d = diff(_baseline(tmpl), struct(tree))
        if d:
            out.append(findings.record('other-fields-differ', d[0], [], cfg, f'{d[0]}: {d[1]} != {d[2]}', sql))
    nontrivial = bool(content & {'has:string', 'has:variable', 'has:nested-paren', 'has:comment', 'has:newline'})
    col.case(key, nontrivial, classes,
             {'template': case['tmpl'], 'layout': layout, 'inner': inner, 'inner2': inner2, 'stored_equal': all_equal})
    return out


def run_shard(col, k, nshards, tier, seed):
    # deterministic part: every hostile text in every embedding (flat layout), and in every layout of a few templates
    space = [(t, 0, f) for t in TEMPLATE_IDS for f in FIXED]
    more = TEMPLATE_IDS if tier == 'thorough' else MORE_LAYOUTS
    space += [(t, l, f) for t in more for l in (1, 2, 3) for f in FIXED]
    for i, (t, l, f) in enumerate(space):
        if i % nshards != k:
            continue
        c = {'tmpl': t, 'layout': l, 'inner': f, 'origin': 'fixed'}
        if TEMPLATES[t]['q2']:
            c['inner2'] = FIXED[(i * 7) % len(FIXED)]
        for rec in judge(c, col):
            col.fail(rec, c)
    # every parenthesis shape up to 6 tokens in every embedding (tight, one-line) and, blank-separated, in the
    # multi-line layout of a few templates
    shapes = [(t, 0, False, n) for t in SHAPE_TEMPLATE_IDS for n in range(len(PAREN_SHAPES))]
    shapes += [(t, 2, True, n) for t in more for n in range(len(PAREN_SHAPES))]
    for i, (t, l, spaced, n) in enumerate(shapes):
        if i % nshards != k:
            continue
        text = render_shape(PAREN_SHAPES[n], spaced)
        c = {'tmpl': t, 'layout': l, 'inner': text, 'expect': text, 'origin': 'paren-shapes'}
        if TEMPLATES[t]['q2']:
            c['inner2'] = c['expect2'] = render_shape(PAREN_SHAPES[(n * 7 + 3) % len(PAREN_SHAPES)], not spaced)
        for rec in judge(c, col):
            col.fail(rec, c)
    # every fixed token of the lexer as first / last / only / middle piece, in 4 templates each (rotating)
    forms = ('x {} y', '{}', '{} x', 'x {}')
    lexs = [(TEMPLATE_IDS[(i * 4 + j * 17) % len(TEMPLATE_IDS)], forms[(i + j) % 4].format(x))
            for i, x in enumerate(_LEXEMES) for j in range(4)]
    for i, (t, text) in enumerate(lexs):
        if i % nshards != k:
            continue
        c = {'tmpl': t, 'layout': 0, 'inner': text, 'expect': text, 'origin': 'lexemes'}
        if TEMPLATES[t]['q2']:
            c['inner2'] = c['expect2'] = forms[(i + 1) % 4].format(_LEXEMES[(i * 7 + 3) % len(_LEXEMES)])
        for rec in judge(c, col):
            col.fail(rec, c)
    # one lexer/parser pair for two statements: every template x previous statement x ways of driving the two
    ses = [(t, pv, d1, d2) for t in TEMPLATE_IDS for pv, _ in SESSION_PREV for d1 in ('generator', 'list')
           for d2 in ('generator', 'list')]
    for i, (t, pv, d1, d2) in enumerate(ses):
        if i % nshards != k:
            continue
        c = {'tmpl': t, 'layout': 0, 'inner': SESSION_INNER[i % len(SESSION_INNER)], 'origin': 'session',
             'session': {'prev': pv, 'prev_drive': d1, 'drive': d2}}
        if TEMPLATES[t]['q2']:
            c['inner2'] = SESSION_INNER[(i + 1) % len(SESSION_INNER)]
        for rec in judge(c, col):
            col.fail(rec, c)
    if k == 0:
        col.exhaustive_parts.append(f'{len(_LEXEMES)} fixed tokens of the lexer x 4 positions/templates = {len(lexs)} cases')
        col.exhaustive_parts.append(f'{len(TEMPLATE_IDS)} templates x {len(SESSION_PREV)} previous statements x 2 x 2 ways '
                                    f'of driving one get_lexer_parser() pair = {len(ses)} cases')
        col.exhaustive_parts.append(f'{len(PAREN_SHAPES)} balanced sequences over ( ) and words up to 6 tokens x '
                                    f'{len(SHAPE_TEMPLATE_IDS)} embedding templates (+ blank-separated in the multi-line '
                                    f'layout of {len(more)} templates) = {len(shapes)} cases')
        col.exhaustive_parts.append(f'{len(FIXED)} hand-written inner texts x {len(TEMPLATE_IDS)} embedding templates '
                                    f'(+ 3 more statement layouts of {len(more)} templates) = {len(space)} cases')
    hyp.explore(col, cases(), judge, N[tier], seed)
