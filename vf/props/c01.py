"""C01 — print / re-parse round trip (and copy())."""
import re
from hypothesis import strategies as st

from vf import findings, hyp
from vf.gens import corpus, grammar, mutate, c01_shapes
from vf.oracles.struct import struct, diff, node_classes
from vf.props.c02 import site_of

PROPERTY = 'C01'
RULE = ('cases = (dialect, text) accepted by parse_sql: corpus statements, random grammar derivations (stratified over '
        'statement kinds), accepted token mutations, all production-pair sentences of the live grammars (bounded-exhaustive), option-list statements (USING / SET / PARAMETERS) with string values over the characters that need escaping, bounded-exhaustive shaped statements (vf/gens/c01_shapes.py: every keyword as a back-quoted function name / namespace, SHOW word pairs in three spellings, halves of two-word keywords as adjacent names, every ordered subset of the CREATE MODEL clauses, one-part names with dots / back-quotes wherever a string becomes a name, quoted string values in every statement that prints a string, long number literals, lower-case short pair sentences, CREATE TABLE column lists: the five column rules x NULL / NOT NULL x every key list over one to three columns, queries with a WITH in front / USING behind of their own -- parenthesised UNION / INTERSECT / EXCEPT and plain selects -- in 39 nesting contexts x 6 operation words); judged: print does not raise, printed text is accepted, re-parsed '
        'tree structurally identical (reflection over every field) and to_tree-identical, printing idempotent, same '
        'for copy(); non-trivial = accepted and (>= 4 AST nodes or a quoted identifier / string literal / user '
        'parentheses / MindsDB command); distinct by whitespace-normalised text per dialect')
ASSUMPTIONS = ['"identical tree" is read as structural identity of all node fields (O-struct); to_tree() equality is '
               'checked additionally', 'first parse is only a filter: no text is required to be accepted']
_SHAPE_FLOORS = {'ct:key1+length': 120, 'ct:key1+default': 130, 'ct:key1+nullable': 100, 'ct:keyN': 400,
                 'setop-own:nested+using': 90, 'setop-own:nested+with': 280, 'setop-own:nested+with+using': 90,
                 'setop-own:operand': 110, 'setop-own:top': 45}
FLOORS = {'quick': dict({'accepted': 4000, '__nontrivial__': 2500, 'stmt:Select': 800}, **_SHAPE_FLOORS),
          'thorough': dict({'accepted': 40000, '__nontrivial__': 25000, 'stmt:Select': 8000}, **_SHAPE_FLOORS)}
N = {'quick': 600, 'thorough': 7000}

_LEX = {}
_TOK = {}


def prepare(tier):
    from mindsdb_sql import get_lexer_parser
    for d in corpus.DIALECTS:
        lexer, parser = get_lexer_parser(d)
        _LEX[d] = type(lexer)
        grammar.get(d)
        bases = []
        for x in corpus.accepted(d):
            toks = mutate.source_tokens(_LEX[d], re.sub(r'[\s;]+$', '', x['sql']))
            if toks and len(toks) <= 80:
                bases.append(toks)
        _TOK[d] = bases


def norm_path(p):
    p = re.sub(r'\[\d+\]', '', p).replace('$', '')
    # keep the last two class/field hops
    hops = re.findall(r'<(\w+)>\.(\w+)', p)
    return '.'.join(f'{c}.{f}' for c, f in hops[-2:]) or p


def lex_types(d, text):
    sp = mutate.lex_spans(_LEX[d], text)
    return None if sp is None else [x[0] for x in sp]


def first_token_diff(d, a, b):
    """Token-type pair at the first position where lex(a) and lex(b) differ, ignoring AS and parentheses."""
    ta, tb = lex_types(d, a), lex_types(d, b)
    if ta is None or tb is None:
        return 'lex-fail'
    skip = {'AS', 'LPAREN', 'RPAREN', 'SEMICOLON'}
    ta = [t for t in ta if t not in skip]
    tb = [t for t in tb if t not in skip]
    for x, y in zip(ta, tb):
        if x != y:
            return f'{x}->{y}'
    if len(ta) != len(tb):
        rest = (ta[len(tb):] or tb[len(ta):])[0]
        return ('dropped ' if len(ta) > len(tb) else 'added ') + rest
    return 'same-types'


def reject_site(d, text, exc, T):
    """Where the re-parse of the printed text fails: type of the offending token (+ 'kwident' when that token is
    the unquoted spelling of an identifier part of the tree)."""
    from mindsdb_sql import get_lexer_parser
    from mindsdb_sql.parser.ast import Identifier
    from vf.oracles.struct import walk
    from sly.lex import LexError
    if isinstance(exc, LexError):
        m = re.search(r"Illegal character '(.)'", str(exc))
        return 'lexerror:' + (m.group(1) if m else '?')
    lexer, parser = get_lexer_parser(d)
    bad = None
    try:
        if d == 'mindsdb':
            parser.parse(lexer.tokenize(re.sub(r'[\s;]+$', '', text)))
            info = getattr(parser, 'error_info', None)
            bad = info and info.get('bad_token')
            if info is None:
                return 'action:' + str(exc)[:40]
            if bad is None:
                return 'at:EOF'
            ty, val = bad.type, str(bad.value)
        else:
            m = re.search(r'Syntax error at token (\w+): "(.*)"', str(exc), re.S)
            if not m:
                return 'at:EOF' if 'EOF' in str(exc) else 'action:' + str(exc)[:40]
            ty, val = m.group(1), m.group(2)
    except Exception as e:
        return 'action:' + str(exc)[:40]
    parts = set()
    for n in walk(T):
        if isinstance(n, Identifier):
            for p in n.parts:
                if isinstance(p, str):
                    parts.add(p.lower())
                    parts.update(w for w in p.lower().split())
    site = 'at:' + ty
    if ty not in ('ID', 'INTEGER', 'FLOAT', 'QUOTE_STRING', 'DQUOTE_STRING') and val.lower() in parts:
        site = 'at:KEYWORD(kwident)'
    return site


SETOPS = ('Union', 'Intersect', 'Except')
QUERYISH = ('Select', 'Union', 'Intersect', 'Except', 'Identifier', 'Join', 'NativeQuery', 'Parameter', 'Data')


def tree_tags(T, d):
    """Tags that separate the root causes of round-trip failures (computed from the parsed tree only)."""
    from vf.oracles.struct import walk
    out = set()
    lexcls = _LEX[d]

    def lexes_as(text):
        try:
            return [t.type for t in lexcls().tokenize(text)]
        except Exception:
            return None

    def one_keyword(text):
        lt = lexes_as(text)
        return lt is not None and len(lt) == 1 and lt[0] != 'ID'

    def backslash_unsafe(v):
        # the mindsdb lexer pairs a back-slash with a following quote / double quote / back-slash; one at the end
        #  pairs with the closing quote whenever another quote follows in the statement
        return isinstance(v, str) and re.search(r'\\([\\\'"]|$)', v) is not None

    for n in walk(T):
        cn = type(n).__name__
        mod = type(n).__module__
        # texts that are printed through Constant.get_string / by Interval.get_string (quote escaped, back-slash not)
        if d == 'mindsdb':
            if cn == 'Constant' and backslash_unsafe(n.value) and getattr(n, 'with_quotes', True):
                out.add('string:backslash-unsafe')
            elif cn == 'Show' and backslash_unsafe(n.like):
                out.add('string:backslash-unsafe')
            elif cn == 'CreateJob' and any(backslash_unsafe(x) for x in (n.start_str, n.end_str, n.repeat_str)):
                out.add('string:backslash-unsafe')
            elif cn == 'CreateDatabase' and backslash_unsafe(n.engine):
                out.add('string:backslash-unsafe')
            elif cn == 'Interval' and any(backslash_unsafe(x) for x in n.args):
                out.add('interval:backslash-unsafe')
        # attributes that hold plain texts / option lists (they have printers of their own)
        for attr, v in sorted(vars(n).items()):
            if isinstance(v, str) and "'" in v and d != 'mindsdb' and (cn == 'Constant' or attr == 'like'):
                out.add('string:quote-in-noescape-dialect')      # the mysql / sqlite lexers know no escape
            elif isinstance(v, dict):
                for key, val in v.items():
                    if isinstance(key, str):
                        if not all(key.split('.')):
                            out.add('kwkey:dot-edge')            # a key that is not the dotted join of its parts
                        if '`' in key:
                            out.add('kwkey:backquote')           # no spelling of a name can hold a back-quote
                    if isinstance(val, float) and val in (float('inf'), float('-inf')):
                        out.add('const:float-nonfinite')
        if cn == 'Constant' and isinstance(n.value, float) and (n.value != n.value or n.value in (float('inf'), float('-inf'))):
            out.add('const:float-nonfinite')
        if cn == 'CreateJob' and any(isinstance(x, str) and "'" in x for x in (n.start_str, n.end_str, n.repeat_str)):
            out.add('job:quote-in-schedule')
        if cn == 'CreateKnowledgeBase' and any(x is not None and type(x).__name__ != 'Identifier' for x in (n.model, n.storage)):
            out.add('kb:non-name-parameter')
        if cn == 'Show':
            cat = n.category if isinstance(n.category, str) else ''
            if cat.upper() == 'SLAVE HOSTS' or (cat == 'REPLICAS' and n.name is not None):
                out.add('show:slave-hosts')
            if isinstance(n.name, str) and cat and one_keyword(cat.split()[-1] + ' ' + n.name) and ' ' not in n.name:
                out.add('names:join-into-keyword')
        if cn == 'Describe' and isinstance(n.type, str) and '`' in n.type:
            out.add('ident:backquote-in-part')
        if cn == 'Describe' and isinstance(n.type, str) and type(n.value).__name__ == 'Identifier' and n.value.parts \
                and isinstance(n.value.parts[0], str) and ' ' not in n.type and ' ' not in n.value.parts[0] \
                and one_keyword(n.type + ' ' + n.value.parts[0]):
            out.add('names:join-into-keyword')
        if getattr(n, 'horizon', None) is not None and getattr(n, 'using', None) and hasattr(n, 'window') \
                and not (n.order_by or n.group_by or n.window is not None):
            out.add('predictor:horizon-first-clause')
        if cn in ('Function',) and isinstance(getattr(n, 'op', None), str):
            if n.op.strip() == '':
                out.add('func:blank-name')
            if one_keyword(n.op) or (isinstance(getattr(n, 'namespace', None), str) and one_keyword(n.namespace)):
                out.add('func:keyword-name')
        if cn == 'Identifier' and (not n.parts or any(p_ == '' for p_ in n.parts)):
            out.add('ident:empty-parts')
        if n is not T and cn not in ('TableColumn', 'Latest', 'Variable') and (
                mod.startswith('mindsdb_sql.parser.dialects.mindsdb.') or
                mod.rsplit('.', 1)[-1] in ('show', 'drop', 'set', 'use', 'describe', 'explain', 'alter_table', 'delete',
                                           'update', 'insert', 'create', 'commit_transaction', 'rollback_transaction',
                                           'start_transaction')):
            out.add('embedded:statement')
        if cn == 'Interval':
            out.add('node:Interval')
            try:
                if n.get_string().endswith("'"):
                    out.add('interval:single-string')      # printed without a separate unit word
            except Exception:
                pass
        elif cn in SETOPS:
            if n is not T:
                out.add('setop:inner')
            if type(n.left).__name__ in SETOPS or type(n.right).__name__ in SETOPS:
                out.add('setop:nested')
            for sub in (n.left, n.right):
                if getattr(sub, 'cte', None) or getattr(sub, 'using', None) or getattr(sub, 'mode', None) \
                        or getattr(sub, 'limit', None) is not None or getattr(sub, 'order_by', None) \
                        or getattr(sub, 'offset', None) is not None or getattr(sub, 'parentheses', False):
                    out.add('setop:operand-with-clauses')
            if getattr(n, 'cte', None) or getattr(n, 'using', None):
                out.add('setop:own-clauses')
        elif cn in ('Function', 'WindowFunction') and isinstance(getattr(n, 'op', None), str):
            if not re.fullmatch(r'[A-Za-z_][A-Za-z_0-9]*', n.op) or lexes_as(n.op) in (['SELECT'], ['FROM']) \
                    or (n.op.upper() != n.op and lexes_as('`%s`' % n.op) == ['ID'] and lexes_as(n.op) != ['ID']
                        and n.op in ('select', 'from', 'where', 'group', 'order', 'limit', 'as', 'on', 'and', 'or', 'not')):
                out.add('func:name-needs-quote')
        elif cn == 'Select':
            if getattr(n, 'using', None):
                out.add('select:using')
            for lim in (n.limit, n.offset):
                if lim is not None and not (type(lim).__name__ == 'Constant' and type(lim.value) is int):
                    out.add('limit:nonint')
            if n.mode:
                out.add('select:mode')
            if n.offset is not None and n.limit is None:
                out.add('select:offset-without-limit')
            ft = n.from_table
            stack = [ft]
            while stack:
                x = stack.pop()
                if x is None:
                    continue
                if type(x).__name__ == 'Join':
                    stack += [x.left, x.right]
                elif type(x).__name__ not in QUERYISH:
                    out.add('from:statement')
            for t in n.targets or []:
                if type(t).__name__ in ('Select',) + SETOPS and not t.parentheses:
                    out.add('target:bare-select')
        elif cn == 'WindowFunction':
            if type(getattr(n, 'function', None)).__name__ != 'Function':
                out.add('window:nonfunction')
            elif getattr(n.function, 'parentheses', False):
                out.add('window:parenthesised-function')       # ( f() ) OVER (...): OVER after a parenthesised expression
        elif cn == 'Identifier':
            for i, p_ in enumerate(n.parts):
                if isinstance(p_, str):
                    if '`' in p_:
                        out.add('ident:backquote-in-part')
                    lt = lexes_as(p_)
                    if lt is not None and len(lt) == 1 and lt[0] not in ('ID',):
                        out.add('ident:nonid-token')   # keyword / number spelled part
                elif i < len(n.parts) - 1:
                    out.add('ident:star-middle')
            if len(n.parts) > 1 and n is getattr(T, 'alias', None):
                out.add('alias:multipart')
        al = getattr(n, 'alias', None)
        if al is not None and type(al).__name__ == 'Identifier' and len(al.parts) > 1:
            out.add('alias:multipart')
    return sorted(out)


def tree_classes(T, ncls):
    """Coverage classes (for the floors) of the two shape families that need a particular tree, computed from the parsed
    tree: which column details stand next to a one-column key; where a set operation with clauses of its own sits."""
    from vf.oracles.struct import walk
    out = []
    if type(T).__name__ == 'CreateTable' and T.columns is not None:
        keys = [c for c in T.columns if c.is_primary_key]
        if len(keys) == 1:
            c = keys[0]
            out.append('ct:key1')
            if c.length is not None: out.append('ct:key1+length')
            if c.default is not None: out.append('ct:key1+default')
            if c.nullable is not None: out.append('ct:key1+nullable')
            if c.length is None and c.default is None: out.append('ct:key1-bare')
        elif keys:
            out.append('ct:keyN')
        else:
            out.append('ct:nokey')
    if ncls & set(SETOPS):
        nodes = list(walk(T))
        operands = set()
        for n in nodes:
            if type(n).__name__ in SETOPS:
                operands.update((id(n.left), id(n.right)))
        for n in nodes:
            if type(n).__name__ in SETOPS and (n.cte is not None or n.using is not None):
                own = ('+with' if n.cte is not None else '') + ('+using' if n.using is not None else '')
                where = 'top' if n is T else 'operand' if id(n) in operands else 'nested'
                out.append(f'setop-own:{where}')
                out.append(f'setop-own:{where}{own}')
    return sorted(set(out))


def tags(sql):
    t = []
    if '\\' in sql: t.append('text:backslash')
    if "''" in sql: t.append('text:doubled-quote')
    if '?' in sql: t.append('text:param')
    if '@' in sql: t.append('text:variable')
    if '`' in sql: t.append('text:backquote')
    if '"' in sql: t.append('text:dquote')
    return t


class LazyTags:
    def __init__(self, T, d):
        self.T, self.d, self.v = T, d, None

    def get(self):
        if self.v is None:
            try:
                self.v = tree_tags(self.T, self.d)
            except Exception as e:
                self.v = ['tagger-error:' + type(e).__name__]
        return self.v


def judge(case, col):
    from mindsdb_sql import parse_sql
    from mindsdb_sql.exceptions import ParsingException
    from sly.lex import LexError
    d, sql = case['dialect'], case['sql']
    cfg = {'dialect': d}
    try:
        T = parse_sql(sql, d)
    except (ParsingException, LexError):
        col.case((d, 'rej', sql), False, ['rejected'])
        return []
    except Exception:
        col.excluded('internal-error on first parse (C02)')
        return []
    stmt = type(T).__name__
    out = []
    cfg['stmt'] = stmt
    ft = LazyTags(T, d)

    def rec(kind, site, detail):
        out.append(findings.record(kind, site, ft.get(), cfg, detail, sql))

    st0 = struct(T)
    ncls = node_classes(T)
    try:
        s1 = T.to_string()
        if not isinstance(s1, str):
            rec('print-nonstring', stmt, repr(s1)[:100]); s1 = None
    except RecursionError:
        col.excluded('recursion'); return []
    except Exception as e:
        rec('print-crash', site_of(e), f'{type(e).__name__}: {e}'); s1 = None
    if struct(T) != st0:
        rec('print-mutates-tree', stmt, str(diff(st0, struct(T))))
    T1 = None
    if s1 is not None:
        try:
            T1 = parse_sql(s1, d)
        except (ParsingException, LexError) as e:
            rec('reparse-reject', reject_site(d, s1, e, T), f'printed: {s1!r}')
        except Exception as e:
            rec('reparse-crash', site_of(e), f'printed: {s1!r}: {type(e).__name__}: {e}')
    if T1 is not None:
        st1 = struct(T1)
        if st1 != st0:
            dd = diff(st0, st1)
            rec('struct-diff', norm_path(dd[0]), f'{dd}; printed: {s1!r}')
        try:
            t0 = T.to_tree()
            t1 = T1.to_tree()
            if t0 != t1 and st1 == st0:
                rec('to_tree-diff', stmt, f'printed: {s1!r}')
        except Exception as e:
            rec('to_tree-crash', site_of(e), f'{type(e).__name__}: {e}')
        try:
            s2 = T1.to_string()
            if s2 != s1:
                rec('not-idempotent', first_token_diff(d, s1, s2), f'{s1!r} -> {s2!r}')
        except Exception as e:
            rec('print-crash', site_of(e), f'second print {type(e).__name__}: {e}')
        if st1 == st0:
            try:
                if not (T == T1):
                    rec('eq-false', stmt, 'structurally identical trees compare unequal')
            except Exception as e:
                rec('eq-crash', site_of(e), f'{type(e).__name__}: {e}')
    # copy()
    try:
        C = T.copy()
        sc = struct(C)
        if sc != st0:
            rec('copy-diff', norm_path(diff(st0, sc)[0]), str(diff(st0, sc)))
        elif s1 is not None and C.to_string() != s1:
            rec('copy-print-diff', stmt, '')
    except Exception as e:
        rec('copy-crash', site_of(e), f'{type(e).__name__}: {e}')
    shape_classes = tree_classes(T, ncls)
    nontrivial = len(ncls) >= 1 and (len(st0.__repr__()) > 300 or any(c in sql for c in '`"\'(') or stmt not in
                                     ('Select',))
    key = (d, ' '.join(sql.split()))
    col.case(key, nontrivial, ['accepted', 'stmt:' + stmt, 'dialect:' + d, 'origin:' + case.get('origin', '?').split(':')[0]]
             + shape_classes,
             {'dialect': d, 'sql': sql, 'printed': s1})
    return out


KW_ALPHABET = ['a', "'", '"', '\\', ' ', '{', ':', 'n', '%', ',']
KW_TEMPLATES = ['CREATE MODEL m PREDICT p USING k = {v}', 'CREATE MODEL m FROM int1 (select 1) PREDICT p USING k = {v}, j = 1',
                'RETRAIN m USING k = {v}', 'FINETUNE m FROM int1 (select 1) USING k = {v}', 'SELECT * FROM t USING k = {v}',
                'SELECT * FROM t JOIN m USING k = {v}, j = 2', "CREATE AGENT a USING model = 'm', k = {v}",
                "CREATE SKILL s USING type = 't', k = {v}", "CREATE CHATBOT c USING database = 'd', agent = 'a', k = {v}",
                'CREATE KNOWLEDGE_BASE kb USING model = m, storage = s.t, k = {v}', 'CREATE ML_ENGINE e FROM h USING k = {v}',
                'UPDATE AGENT a SET k = {v}', 'UPDATE SKILL s SET k = {v}', 'UPDATE CHATBOT c SET k = {v}',
                "CREATE DATABASE d WITH ENGINE = 'x', PARAMETERS = {\"k\": {v}}", 'CREATE VIEW v FROM int1 (select {v})',
                'EVALUATE acc FROM (select 1) USING k = {v}', 'CREATE ANOMALY DETECTION MODEL m PREDICT p USING k = {v}']


@st.composite
def cases(draw, pool='lite', tame=True):
    d = draw(st.sampled_from(corpus.DIALECTS))
    gg = grammar.get(d)
    mode = draw(st.sampled_from(['grammar', 'grammar', 'grammar', 'mut-corpus', 'mut-grammar'] * 3 + ['kw-values']))
    if mode == 'kw-values':
        # option lists (USING / SET / PARAMETERS) have a printer of their own: string values made of the characters
        #  that need escaping, written as a single- or double-quoted literal of the mindsdb dialect
        val = ''.join(draw(st.lists(st.sampled_from(KW_ALPHABET), min_size=0, max_size=4)))
        if draw(st.booleans()):
            lit = "'" + val.replace('\\', '\\\\').replace("'", draw(st.sampled_from(["\\'", "''"]))) + "'"
        else:
            lit = '"' + val.replace('\\', '\\\\').replace('"', '\\"') + '"'
        return {'dialect': 'mindsdb', 'sql': draw(st.sampled_from(KW_TEMPLATES)).replace('{v}', lit), 'origin': mode}
    if tame and draw(st.integers(0, 2)) == 0:
        # a third of the derivations is wild again (keyword-spelled names, statements as sub-queries, ...): after the
        #  printer repairs 144 000 wild cases produced nothing but the listed findings
        tame = False
        mode = 'wild-' + mode
    if mode.endswith('grammar') and not mode.startswith(('mut', 'wild-mut')):
        toks = draw(gg.sentence(pool=pool, tame=tame))
    else:
        base = draw(st.sampled_from(_TOK[d])) if mode.endswith('mut-corpus') else draw(gg.sentence(pool=pool, tame=tame))
        kind, toks = draw(mutate.mutation(base, gg.all_lexemes(pool)))
    return {'dialect': d, 'sql': ' '.join(toks), 'origin': mode}


def run_shard(col, k, nshards, tier, seed):
    if k == 0:
        for x in corpus.accepted():
            c = {'dialect': x['dialect'], 'sql': x['sql'], 'origin': 'corpus'}
            for rec in judge(c, col):
                col.fail(rec, c)
    # bounded-exhaustive: every production of the live grammars with every alternative of each of its nonterminals
    # (wild: keyword-spelled names, statements as sub-queries ... are in; the random derivations below are tame)
    n = 0
    for d in corpus.DIALECTS:
        ps = grammar.get(d).pair_sentences()
        n += len(ps)
        for label, toks in ps[k::nshards]:
            c = {'dialect': d, 'sql': ' '.join(toks), 'origin': 'pairs'}
            for rec in judge(c, col):
                col.fail(rec, c)
    # lower-case spelling of the short production-pair sentences (keywords are matched as text in some node classes)
    low = []
    for d in corpus.DIALECTS:
        for label, toks in grammar.get(d).pair_sentences():
            if len(toks) <= 5:
                low.append((d, ' '.join(c01_shapes.lowercase_outside_quotes(toks)), 'pairs-lowercase'))
    shapes = c01_shapes.all_shapes(_LEX) + low
    for d, sql, origin in shapes[k::nshards]:
        c = {'dialect': d, 'sql': sql, 'origin': origin}
        for rec in judge(c, col):
            col.fail(rec, c)
    if k == 0:
        col.exhaustive_parts.append(f'{len(shapes)} shaped statements: every keyword as a back-quoted function name / namespace, '
                                    'SHOW word pairs in three spellings, halves of the two-word keywords as adjacent names, every '
                                    'ordered subset of the CREATE MODEL clauses, one-part names with dots / back-quotes in every '
                                    'place that turns a string into a name, string values with quotes in every statement that '
                                    'prints a string, long number literals, lower-case spelling of the short pair sentences, CREATE TABLE '
                                    'column lists (five column rules x NULL / NOT NULL x key lists over one to three columns), set '
                                    'operations / selects with their own WITH / USING in every nesting context')
        col.exhaustive_parts.append(f'all {n} production-pair sentences of the three grammars (every production with every '
                                    'alternative of each of its nonterminals, minimal elsewhere)')
    hyp.explore(col, cases(), judge, N[tier], seed)
