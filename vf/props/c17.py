"""C17 — SqlalchemyRender honours its fallback contract, never leaks internal errors, never mutates the tree.

Oracle (per parser-produced tree x 7 dialect names, written from the docstrings of get_string / get_exec_params):
  * with_failback=True (default): get_string / get_exec_params return, never raise; the result is the no-fallback
    rendering when that succeeds, else str(tree) (back-quotes removed for the postgresql dialect) and params None;
  * with_failback=False: returns, or raises only sqlalchemy.exc.SQLAlchemyError / NotImplementedError;
  * the structural image (O-struct: reflection over every field) of the tree is the same after every call.
"""
import re
from hypothesis import strategies as st

from vf import findings, hyp
from vf.gens import corpus, grammar, mutate, c17_shapes
from vf.oracles.struct import struct, diff
from vf.props.c02 import site_of

PROPERTY = 'C17'
TARGETS = ('mysql', 'postgresql', 'postgres', 'sqlite', 'mssql', 'oracle', 'Snowflake')
RULE = ('cases = (parser dialect, text) accepted by parse_sql, each judged against all 7 renderer dialect names x '
        '{get_string, get_exec_params} x {fallback on, off}: every corpus statement, a fixed list of targeted unsupported '
        'shapes (unknown / parameterised cast and column types, multi-argument aggregates, tuples under every operator, '
        '3-part names, parameters, LATEST, native queries, multi-part aliases, DROP of several tables, CREATE TABLE forms), a function '
        'catalogue (every name SQLAlchemy registers a function class for + common SQL functions x 16 argument-list shapes incl. FROM arguments), '
        'the same registered names x 29 kinds of argument node x 6 argument-list forms (origin funcargs), names made of characters that SQLAlchemy\'s '
        'text layer interprets (bind markers, percent signs, foreign quotes, control characters, 300-character names) in 43 name positions '
        '(origin names), chains / nests / lists of one construct 30-200 levels deep or 600-3200 items wide (origin deep: the tree\'s own printer '
        'is far from the recursion limit there, SQLAlchemy\'s compiler is not), '
        'every expression fragment in every clause position of SELECT/INSERT/UPDATE/DELETE/CREATE frames and every table '
        'fragment in every table position (exhaustive single splice), plus random cases: grammar derivations (3 dialects, '
        'stratified towards the statement kinds the renderer translates), token mutations of corpus statements, fragments '
        'spliced over constants of corpus statements, nested / mixed fragments, random column definitions, one construct at a random depth 20-220; non-trivial = '
        'the no-fallback path raised on >= 1 target (the fallback has to take over) or the statement rendered and its text '
        'is not verbatim in the corpus; distinct by whitespace-normalised text per dialect')
ASSUMPTIONS = ['"tree the parsers can produce" = the statement returned by parse_sql (sub-trees are not rendered alone)',
               'a tree whose own str() raises (a C01 defect) is excluded when only the fallback needs that string',
               'the SQLAlchemy rendering is taken as whatever the no-fallback call returns (its meaning is C06/C07)',
               'a RecursionError of the renderer counts as a leak only when the tree\'s own str() succeeds with half of the stack that is left '
               '(otherwise the tree is at the edge of the interpreter\'s limit for every consumer and the case is excluded)']
FLOORS = {'quick': {'__nontrivial__': 3000, 'fallback-exercised': 1100, 'rendered': 2800, 'origin:splice': 500, 'origin:splice-all': 2000,
                    'origin:grammar': 800, 'origin:corpus-splice': 80, 'origin:funcs': 1200, 'stmt:Select': 2800, 'stmt:Insert': 300, 'stmt:Update': 300,
                    'stmt:Delete': 200, 'stmt:CreateTable': 200, 'stmt:DropTables': 90, 'stmt:Union': 180,
                    'origin:deep': 15, 'deep:compile-recursion-refused': 6, 'origin:names': 100, 'origin:funcargs': 300},
          'thorough': {'__nontrivial__': 12000, 'fallback-exercised': 5000, 'rendered': 10000, 'origin:splice': 5000,
                       'origin:splice-all': 2000, 'origin:grammar': 8000, 'origin:corpus-splice': 800, 'origin:funcs': 1200, 'stmt:Select': 10000,
                       'stmt:Insert': 1000, 'stmt:Update': 1000, 'stmt:Delete': 600, 'stmt:CreateTable': 600, 'stmt:DropTables': 270,
                       'stmt:Union': 500, 'origin:deep': 100, 'deep:compile-recursion-refused': 40, 'origin:names': 600,
                       'origin:funcargs': 2000}}
N = {'quick': 600, 'thorough': 7000}

_LEX = {}
_TOK = {}
_CORPUS = set()
_SPANS = {}
CONST_TOKENS = ('INTEGER', 'FLOAT', 'QUOTE_STRING', 'DQUOTE_STRING')

# ---- targeted shapes ------------------------------------------------------------------------------------------------
# whole statements the renderer is known / suspected not to support (all three parser dialects try each; a dialect
# that rejects one simply counts it as rejected)
SHAPES = [
    # unknown / parameterised cast types
    'select cast(a as foo)', 'select cast(a as foo) from t', 'select cast(a as decimal(10, 2)) from t',
    'select cast(a as int(3)) from t', 'select cast(a as varchar(10)) from t', 'select cast(a as float8) from t',
    'select cast(a as int) as x from t', 'select cast(1 as text)', 'select a::int from t', 'select a::foo from t',
    # multi-argument / odd aggregates and functions
    'select count(a, b)', 'select count(a, b) from t', 'select count(distinct a, b) from t', 'select max(a, b) from t',
    'select sum(a, b, c) from t', 'select count(*) from t', 'select count() from t', 'select count(distinct a) from t',
    'select __f(a) from t', 'select f_(a) from t', 'select _f(a) from t', 'select cast(a) from t',
    'select coalesce(a, b, 1) from t', 'select if(a, 1, 2) from t', 'select now()', 'select database()',
    'select substring(a from 1 for 2) from t', 'select extract(year from a) from t', 'select trim(a from b) from t',
    'select over(a) from t', 'select label(a) from t', 'select f(a) over (partition by b) from t',
    'select sum(a) over (partition by b order by c desc) from t', 'select row_number() over () from t',
    'select sum(a) over (order by c rows between unbounded preceding and current row) from t',
    # tuples as operands
    'select (a, b) from t', 'select (1, 2)', 'select * from t where (a, b) = (1, 2)',
    'select * from t where (a, b) in ((1, 2), (3, 4))', 'select * from t where a in (1, 2)',
    'select * from t where a in ()', 'select * from t where a in b', 'select * from t where a not in b',
    'select * from t where a = (1, 2)', 'select f((1, 2)) from t', 'select * from t order by (a, b)',
    'select * from t group by (a, b)', 'select -(1, 2)', 'select not (1, 2)', 'select (1, 2) + 1',
    'select a between (1, 2) and 3 from t', 'select case when (1, 2) then 1 end', 'select case (1, 2) when 1 then 1 end',
    'select * from t where a in ((1, 2), 3)', 'select ((1, 2), 3)', 'select * from t where a in ((1, 2), (3, 4))',
    'select count(distinct (a, b)) from t', 'select * from t order by (a, b) desc', 'select sum(a) over (order by (a, b) desc) from t',
    'select sum(a) over (partition by (a, b)) from t', 'select cast((1, 2) as int)', 'select (1, 2) as x', 'select f((1, 2), 3) as x',
    'select case when a then (1, 2) else 3 end', 'select a between 1 and (2, 3) from t', 'select (1, 2) between 1 and 3',
    # 3-part names
    'select * from a.b.c', 'select a.b.c.d from a.b.c', 'insert into a.b.c (x) values (1)', 'delete from a.b.c',
    'update a.b.c set x = 1', 'drop table a.b.c', 'create table a.b.c (x int)', 'select * from t join a.b.c on 1 = 1',
    # parameters
    'select ?', 'select ? as x', 'select ? x from t', 'select * from t where a = ?', 'select * from t limit ?',
    'insert into t (a) values (?)', 'insert into t (a, b) values (?, ?)', 'update t set a = ? where b = ?',
    'delete from t where a = ?', 'select * from t where a in (?, ?)', 'select f(?) from t',
    # LATEST / LAST
    'select * from t where a > latest', 'select latest from t', 'select * from t where a > last', 'select last from t',
    'select * from t where a = latest and b > last',
    # native queries
    'select * from int1 (select 1)', 'select * from int1 (select 1) as x', 'select * from int1 (select * from t where a = 1) x',
    'select * from int1 (select 1) as x join t on x.a = t.a', 'select * from t join int1 (select 1) as x on x.a = t.a',
    'select * from t join int1 (select 1)', 'select * from t, int1 (select 1)',
    'select * from (select * from int1 (select 1)) as y', 'insert into t (a) select * from int1 (select 1)',
    # aliases
    'select a as x.y from t', 'select a x.y from t', 'select * from t as x.y', 'select * from (select 1) as x.y',
    'select 1 as `x.y`', 'select a as `x y` from t as `u v`', "select 1 as 'x'", 'select 1 as "x"',
    # DROP
    'drop table a, b', 'drop table a', 'drop table if exists a', 'drop table if exists a.b', 'drop table if exists a, b.c',
    # CREATE TABLE
    'create table t (select 1)', 'create table t (select * from u)', 'create table t select * from u',
    'create table t as (select * from u)', 'create or replace table t (select * from u)',
    'create or replace table int1.t (select * from int2.u)', 'create table t (id serial)',
    'create table t (id SERIAL, a int)', 'create table a.t (id serial, b serial)', 'create table t (a foo)',
    'create table t (a int, b text, c varchar)', 'create table t (a varchar(10))', 'create table t (a decimal(10, 2))',
    'create table if not exists t (a int)', 'create or replace table t (a int)', 'create table t (a int primary key)',
    'create table t (a int not null, b int null)', 'create table t (a int default 1)',
    "create table t (a text default 'x')", 'create table t (a timestamp default current_timestamp)',
    'create table t (a int, a int)', 'create table t (`a b` int)', 'create table t (a int8, b float4, c bool)',
    'create table t (a json)', 'create table t (a double)', 'create table t (a int(11))',
    # INSERT / UPDATE / DELETE
    'insert into t values (1, 2)', 'insert into t (a, a) values (1, 2)', 'insert into t (a) values (1), (2)',
    'insert into t (a, b) values (1)', 'insert into t (a) values (1, 2)', 'insert into t (a) select b from u',
    'insert into t select b from u', 'insert into t (a) values ((1, 2))', 'insert into t (a) values (cast(1 as foo))',
    'insert into t (a) values (count(1, 2))', "insert into t (a, b) values (1, 'x')", 'insert into t (a) values (null)',
    'insert into t (`a b`) values (1)', 'insert into t (a) values (b)', 'insert into t (a) values (-1)',
    'update t set a = 1', 'update t set a = 1, b = 2 where c = 3', 'update t set a = (1, 2)',
    'update t set a = cast(b as foo)', 'update t set a = count(b, c)', 'update t set a = (select 1)',
    'update t set a = u.a from (select * from u) as u where t.b = u.b', 'update t set `a b` = 1', 'update a.t set b.c = 1',
    'delete from t', 'delete from t where a = 1', 'delete from t where cast(a as foo) = 1', 'delete from t where count(a, b) > 1',
    'delete from t where a in (select b from u)', 'delete from t where (a, b) = (1, 2)',
    # SELECT odds and ends
    'select * from t for update', 'select * from t limit 1 offset 2', 'select * from t limit 1, 2', 'select * from t offset 2',
    'select distinct a from t', 'select * from t order by a nulls first, b desc nulls last', 'select * from t order by 1',
    'select * from t using a = 1', 'select * from t1 join t2 using (a)', 'select * from (t1 join t2 on 1 = 1)',
    'select * from t1 join (t2 join t3 on 1 = 1) on 1 = 1', 'select * from t1, t2', 'select * from t1 cross join t2',
    'select * from t1 left outer join t2 on t1.a = t2.a', 'select * from t1 full join t2 on t1.a = t2.a',
    'select * from t1 natural join t2', 'select * from t1 straight_join t2 on 1 = 1', 'select * from t1 asof join t2',
    'select * from (select 1) union select 2', 'select 1 union select 2', 'select 1 union all select 2',
    'select 1 intersect select 2', 'select 1 except select 2', 'select 1 union select 2 union select 3',
    '(select 1) union (select 2)', 'select * from (select 1 union select 2) as x', 'select * from (select 1 union select 2)',
    'with x as (select 1) select * from x', 'with x (a, b) as (select 1, 2) select * from x',
    'with x as (select 1), y as (select 2) select * from x, y', 'with x as (select 1 union select 2) select * from x',
    'select (select 1)', 'select (select 1) as x', 'select * from t where exists (select 1)',
    'select * from t where not exists (select 1)', 'select * from t where a = (select 1)',
    'select * from t where a in (select 1)', 'select * from t where a = any (select 1)',
    'select interval 1 day', "select interval '1 day'", "select a + interval '1 day' from t", "select interval '1' as x",
    'select @v', 'select @@sv', 'select @v as x', 'select * from t where a = @v', 'select a -> b from t', "select a ->> 'b' from t",
    'select a is true from t', 'select a is not null from t', 'select a is null from t', 'select a is b from t',
    'select a like b from t', 'select a not like b from t', 'select a regexp b from t', 'select a rlike b from t',
    'select a || b from t', 'select a div b from t', 'select a xor b from t', 'select a & b from t', 'select a << 1 from t',
    'select not a from t', 'select - a from t', 'select + a from t', 'select ~ a from t', 'select ! a from t',
    'select a not between 1 and 2 from t', 'select a between 1 and 2 as x from t',
    'select case a when 1 then 2 else 3 end from t', 'select case when a then 2 end as x from t', 'select case end',
    'select current_date', 'select current_user as u', 'select current_timestamp()', 'select true, false, null',
    "select 'a''b'", "select 'a\\'b'", 'select "x"', 'select 1.5e3', 'select 0.00001', 'select 12345678901234567890',
    'select *, a from t', 'select t.* from t', 'select a.b.* from t', 'select `*` from t', 'select * as x from t',
    'select a from t group by a having count(*) > 1', 'select a from t group by 1', 'select a from t group by a with rollup',
    'select a from t where 1', 'select from t', 'select', 'select * from t where a = 1 = 2', 'select 1 in (1)',
    'select * from t t2', 'select * from db.t as t2', 'select * from `a b`.`c d`', 'select * from t limit 0',
    'select * from information_schema.tables', 'select * from t where a', 'select `select` from `from`',
    # non-DML statements (renderer has no translation: NotImplementedError -> own string)
    'show tables', 'use x', 'set a = 1', 'describe t', 'explain select 1', 'start transaction', 'commit', 'rollback',
    'create database d', "create database d with engine = 'x'", 'drop database d', 'create view v as (select 1)',
    'drop view v', 'create model m predict y', 'create model m from int1 (select 1) predict y', 'drop model m',
    'retrain m', 'finetune m from int1 (select 1)', 'alter table t disable keys', 'evaluate x from (select 1)',
    'create job j (select 1)', 'create trigger tr on a.b (select 1)', "create agent a using model = 'm'",
]

# expression fragments spliced into statement frames (every clause position)
FRAGS = ['cast(a as foo)', 'cast(a as int)', 'cast(a as decimal(3, 1))', 'cast(a as int(3))', 'count(a, b)', 'count(distinct a, b)',
         'max(a, b)', '(a, b)', '(1, 2)', '?', 'latest', 'last', 'a in b', 'a in (1, 2)', 'a in ()', '(select 1)', 'x.y.z', 'x.*',
         "interval '1 day'", '__f(1)', 'f_(1)', 'f()', '@v', '@@sv', '- a', 'not a', 'a is null', 'a between 1 and 2',
         'case when a then 1 end', 'case a when 1 then 2 else 3 end', 'exists (select 1)', 'not exists (select 1)',
         'sum(a) over (partition by b)', "a -> 'b'", 'a || b', 'a like b', 'a div b', 'a = any (select 1)', '1', "'x'", 'null', 'true',
         '1.5', '*', 'a', '`a b`', 'a::foo', 'a::int', 'current_date', 'substring(a from 1 for 2)', 'f((1, 2))', 'a and b',
         'a or (b, c)', 'a + (select 1)', 'a = (select 1, 2)', 'count(*)', 'coalesce(a, ?)', 'date(a)', 'a > latest', 'a.b(c)']
FRAMES = ['select {e}', 'select {e} from t', 'select {e} as x from t', 'select {e} x from t', 'select f({e}) from t',
          'select * from t where {e}', 'select * from t where a = {e}', 'select * from t where {e} = 1', 'select * from t where {e} and b = 1',
          'select * from t where a in ({e})', 'select * from t where not {e}', 'select a from t group by {e}',
          'select a from t group by a having {e}', 'select * from t order by {e}', 'select * from t order by {e} desc nulls last',
          'select * from t limit {e}', 'select * from t1 join t2 on {e}', 'select * from t1 left join t2 on t1.a = {e}',
          'select * from (select {e} from u) as s', 'select * from t where a in (select {e} from u)', 'select {e} union select 1',
          'select 1 union all select {e} from t', 'with c as (select {e}) select * from c', 'select case when {e} then 1 else 2 end from t',
          'select case a when 1 then {e} end from t', 'select case {e} when 1 then 2 end from t', 'select cast({e} as int) from t',
          'select {e} between 1 and 2 from t', 'select a between {e} and 2 from t', 'select - {e} from t', 'select {e} + 1 from t',
          'select 1 + {e} from t', 'select sum({e}) over (partition by {e}) from t', 'select sum(a) over (order by {e}) from t',
          'select distinct {e} from t', 'select {e}, {e} from t', 'select count(distinct {e}) from t',
          'insert into t (a) values ({e})', 'insert into t (a, b) values (1, {e}), ({e}, 2)', 'insert into t (a) select {e} from u',
          'update t set a = {e}', 'update t set a = 1 where {e}', 'update t set a = {e}, b = {e} where c = {e}', 'delete from t where {e}',
          'delete from t where a = {e}', 'create table t (select {e})', 'select * from int1 (select {e}) as n join t on {e}']
TABLE_FRAGS = ['?', 't.*', '"x".*', '`select`', 'a.b.c.d', 't', 'a.b', 'a.b.c', '`a b`', 't as x', 't x', 't as x.y', '(select 1)', '(select 1) as s', '(select 1 union select 2) as s',
               'int1 (select 1)', 'int1 (select 1) as n', '(t1 join t2 on 1 = 1)', 't1 join t2', 't1 join t2 on t1.a = t2.a join t3 on 1 = 1',
               't1, t2', 't1 left join int1 (select 1) as n on 1 = 1', 'int1 (select 1) as n join t2 on 1 = 1', 'pred', 'mindsdb.pred',
               't1 join a.b.c on 1 = 1', '(select * from a.b.c) as s', 't1 full outer join t2 on 1 = 1', 't1 right join t2 on 1 = 1',
               'information_schema.tables']
TABLE_FRAMES = ['select * from {t}', 'select a from {t} where b = 1', 'select * from {t} limit 1', 'select * from u join {t}',
                'select * from u join {t} on 1 = 1', 'select * from u, {t}', 'select * from (select * from {t}) as q',
                'select * from u where a in (select a from {t})', 'select 1 union select a from {t}', 'insert into u (a) select a from {t}',
                'with c as (select * from {t}) select * from c', 'create table n (select * from {t})', 'select (select 1 from {t})',
                'select * from u where exists (select 1 from {t})', 'delete from {t}', 'delete from {t} where a = 1',
                'update {t} set a = 1', 'insert into {t} (a) values (1)', 'insert into {t} (a, b) values (1, 2), (3)',
                'insert into {t} (a) values (1), (2)', 'insert into {t} (a) select 1', 'update {t} set a = 1 where b = 2', 'drop table {t}', 'create table {t} (a int)',
                'select * from {t} for update', 'select * from {t} using a = 1']
COLTYPES = ['int', 'serial', 'SERIAL', 'Serial', 'foo', 'text', 'varchar', 'varchar(10)', 'decimal(10, 2)', 'int(11)', 'bool', 'boolean',
            'float', 'float8', 'int8', 'double', 'json', 'timestamp', 'date', 'datetime', 'bigint', 'integer', 'char', 'blob', 'numeric',
            'real', 'time', 'uuid', 'interval', 'array', 'enum', 'typeengine', 'nulltype', 'tupletype', 'concatenable', 'indexable']
BINOPS = ['+', '-', '*', '/', '%', '=', '!=', '<>', '>', '<', '>=', '<=', 'is', 'is not', 'like', 'not like', 'in', 'not in', '||',
          'and', 'or', '->', '->>', 'div', 'xor', 'regexp', '&', '|', '^', '<<', '>>', '&&']
COLOPTS = ['', ' primary key', ' not null', ' null', ' default 1', " default 'x'", ' default current_timestamp', ' default null',
           ' primary key not null', ' not null default 0']


def prepare(tier):
    from mindsdb_sql import get_lexer_parser
    import mindsdb_sql.render.sqlalchemy_render  # noqa: import before the fork
    for d in corpus.DIALECTS:
        lexer, parser = get_lexer_parser(d)
        _LEX[d] = type(lexer)
        grammar.get(d)
        bases = []
        for x in corpus.accepted(d):
            toks = mutate.source_tokens(_LEX[d], re.sub(r'[\s;]+$', '', x['sql']))
            if toks and len(toks) <= 80:
                bases.append(toks)
        _TOK[d] = bases
        sp = []
        for x in corpus.accepted(d):
            spans = mutate.lex_spans(_LEX[d], re.sub(r'[\s;]+$', '', x['sql']))
            if spans and len(spans) <= 80 and any(y[0] in CONST_TOKENS for y in spans):
                sp.append([(y[0], y[1]) for y in spans])
        _SPANS[d] = sp
    for x in corpus.accepted():
        _CORPUS.add((x['dialect'], x['sql']))


def norm_path(p):
    p = re.sub(r'\[\d+\]', '', p).replace('$', '')
    hops = re.findall(r'<(\w+)>\.(\w+)', p)
    return '.'.join(f'{c}.{f}' for c, f in hops[-2:]) or p


def tree_tags(T):
    """Feature tags computed from the parsed tree (they separate root causes that share an exception site)."""
    from vf.oracles.struct import walk
    tags = set()
    for n in walk(T):
        cn = type(n).__name__
        if cn in ('BinaryOperation', 'UnaryOperation', 'BetweenOperation', 'Function', 'OrderBy', 'WindowFunction', 'TypeCast', 'Case',
                  'Tuple'):
            kids = []
            if cn == 'BinaryOperation' and str(n.op).lower() in ('in', 'not in'):
                kids.append(n.args[0])          # a tuple on the right of IN is the supported list form
            else:
                for v in vars(n).values():
                    kids.extend(v if isinstance(v, (list, tuple)) else [v])
            if any(type(a).__name__ == 'Tuple' for a in kids):
                tags.add('tree:tuple-operand')
    return sorted(tags)


def msg_class(exc):
    """Feature tag: the exception message with names, numbers and everything after the first colon abstracted."""
    m = str(exc)
    m = re.sub(r'<[^>]*>', '<obj>', m)
    if isinstance(exc, KeyError):
        m = '_'
    m = re.sub(r'\d+', 'N', m)
    m = re.sub(r':\s.*$', ':', m, flags=re.S)
    if re.fullmatch(r'\w+', m):
        m = '<name>'
    return 'msg:' + ' '.join(m.split())[:60]


def _call(fn):
    """('ok', value) | ('allowed', exc) | ('leak', exc) | ('recursion', exc)"""
    from sqlalchemy.exc import SQLAlchemyError
    try:
        return 'ok', fn()
    except RecursionError as e:
        return 'recursion', e
    except (SQLAlchemyError, NotImplementedError) as e:
        return 'allowed', e
    except Exception as e:
        return 'leak', e


def _stack_depth():
    import sys
    f, n = sys._getframe(), 0
    while f is not None:
        n += 1
        f = f.f_back
    return n


def str_has_margin(T):
    """True when the tree's own printer works with half of the stack that is left at this point: a RecursionError that the
    renderer raises on such a tree is its own doing, not the interpreter's limit being reached by any consumer of the tree."""
    import sys
    lim, d = sys.getrecursionlimit(), _stack_depth()
    sys.setrecursionlimit(d + max(60, (lim - d) // 2))
    try:
        str(T)
        return True
    except RecursionError:
        return False
    finally:
        sys.setrecursionlimit(lim)


def judge(case, col):
    import warnings
    with warnings.catch_warnings():
        warnings.simplefilter('ignore')       # SAWarning noise of SQLAlchemy compilers (e.g. CAST skipped on MySQL)
        return _judge(case, col)


def _judge(case, col):
    from mindsdb_sql import parse_sql
    from mindsdb_sql.exceptions import ParsingException
    from mindsdb_sql.render.sqlalchemy_render import SqlalchemyRender
    from sly.lex import LexError
    d, sql = case['dialect'], case['sql']
    origin = case.get('origin', '?').split(':')[0]
    targets = case.get('targets') or TARGETS

    def parse():
        return parse_sql(sql, d)

    try:
        T = parse()
    except (ParsingException, LexError):
        col.case((d, 'rej', sql), False, ['rejected', 'rejected:' + origin])
        return []
    except RecursionError:
        col.excluded('recursion')
        return []
    except Exception:
        col.excluded('internal-error on parse (C02)')
        return []
    stmt = type(T).__name__
    snap = struct(T)
    try:
        own = str(T)
        own_err = None
    except RecursionError:
        col.excluded('recursion')
        return []
    except Exception as e:
        own, own_err = None, e
    if struct(T) != snap:          # printing itself rewrote the tree: C01's subject; start from a fresh tree
        T = parse()
        snap = struct(T)

    found = {}      # (kind, site, features) -> {target: detail}
    ft0 = tree_tags(T)
    state = {'T': T, 'fallback': False, 'rendered': False, 'excluded': None}

    def rec(kind, site, target, detail, extra=()):
        found.setdefault((kind, site, tuple(sorted(set(ft0) | set(extra)))), {})[target] = detail

    def check_tree(target, phase):
        now = struct(state['T'])
        if now != snap:
            dd = diff(snap, now)
            rec('mutates-tree', norm_path(dd[0]), target, f'{stmt} after {phase}: {dd}')
            state['T'] = parse()
            return True
        return False

    for t in targets:
        # (2) no fallback: rendering, or SQLAlchemyError / NotImplementedError only
        k0, v0 = _call(lambda: SqlalchemyRender(t).get_string(state['T'], with_failback=False))
        check_tree(t, 'get_string(no-fallback)')
        k0p, v0p = _call(lambda: SqlalchemyRender(t).get_exec_params(state['T'], with_failback=False))
        check_tree(t, 'get_exec_params(no-fallback)')
        if 'recursion' in (k0, k0p):
            if own_err is None and str_has_margin(state['T']):
                nm = 'get_string' if k0 == 'recursion' else 'get_exec_params'
                rec('nofallback-leaks', 'RecursionError@render', t, f'{nm}(with_failback=False) on {stmt}: RecursionError while the '
                    "tree's own str() needs less than half of the stack", ['msg:recursion', 'deep-tree'])
                state['fallback'] = True
                continue
            state['excluded'] = 'recursion'
            break
        for nm, k, v in (('get_string', k0, v0), ('get_exec_params', k0p, v0p)):
            if k == 'leak':
                state['fallback'] = True          # the rendering path failed: the fallback would have to take over
                if own_err is not None and type(v) is type(own_err) and str(v) == str(own_err):
                    state['excluded'] = "tree's own str() raises (C01)"   # e.g. inside the f-string of an error message
                    continue
                rec('nofallback-leaks', site_of(v), t, f'{nm}(with_failback=False) on {stmt}: {type(v).__name__}: {v}',
                    [msg_class(v)])
            elif k == 'ok':
                state['rendered'] = True
            else:
                state['fallback'] = True
                if 'RecursionError' in str(v):
                    state['rec_refused'] = True
        if k0 == 'ok' and not isinstance(v0, str):
            rec('non-string-result', stmt, t, f'get_string -> {type(v0).__name__}')
        # expected results with fallback on
        pg = t in ('postgresql', 'postgres')
        own_t = None if own is None else (own.replace('`', '') if pg else own)
        # (1) fallback on
        k1, v1 = _call(lambda: SqlalchemyRender(t).get_string(state['T']))
        m1 = check_tree(t, 'get_string')
        k1p, v1p = _call(lambda: SqlalchemyRender(t).get_exec_params(state['T']))
        m1p = check_tree(t, 'get_exec_params')
        if 'recursion' in (k1, k1p):
            if own_err is None and str_has_margin(state['T']):
                nm = 'get_string' if k1 == 'recursion' else 'get_exec_params'
                rec('fallback-raises', 'RecursionError@render', t, f"{nm}() on {stmt}: RecursionError while the tree's own str() needs "
                    'less than half of the stack', ['msg:recursion', 'deep-tree'])
                continue
            state['excluded'] = 'recursion'
            break
        for nm, k, v, kn, vn, mut in (('get_string', k1, v1, k0, v0, m1), ('get_exec_params', k1p, v1p, k0p, v0p, m1p)):
            mf = ['tree-mutated-by-call'] if mut else []
            if k != 'ok':
                if own_err is not None and type(v) is type(own_err) and str(v) == str(own_err):
                    state['excluded'] = "tree's own str() raises (C01)"
                    continue
                rec('fallback-raises', site_of(v), t, f'{nm}() on {stmt}: {type(v).__name__}: {v}', [msg_class(v)])
                continue
            if kn == 'ok':
                if v != vn:
                    rec('wrong-output', nm, t, f'{nm}() = {v!r} but no-fallback rendering = {vn!r}', ['rendering-differs'] + mf)
            elif kn == 'allowed':
                exp = own_t if nm == 'get_string' else (own_t, None)
                if own_t is not None and v != exp:
                    rec('wrong-output', nm, t, f'{nm}() = {v!r}, expected own string {exp!r}', ['not-own-string'] + mf)
            # kn == 'leak': the no-fallback call leaked, reported above; with fallback on it returned something

    if state['excluded']:
        col.excluded(state['excluded'])
        if not found:
            return []
    out = []
    for (kind, site, fts), per in found.items():
        if len(per) == len(TARGETS):
            first = per[TARGETS[0]]
            out.append(findings.record(kind, site, fts, {'target': 'all'}, first, sql))
        else:
            for t, detail in per.items():
                out.append(findings.record(kind, site, fts, {'target': t}, detail, sql))
    verbatim = (d, sql) in _CORPUS
    classes = ['accepted', 'stmt:' + stmt, 'dialect:' + d, 'origin:' + origin]
    if state['fallback']:
        classes.append('fallback-exercised')
    if state['rendered']:
        classes.append('rendered')
    if own is None:
        classes.append('own-str-raises')
    if state.get('rec_refused'):
        classes.append('deep:compile-recursion-refused')
    nontrivial = state['fallback'] or (state['rendered'] and not verbatim)
    col.case((d, ' '.join(sql.split())), nontrivial, classes,
             {'dialect': d, 'sql': sql, 'fallback_exercised': state['fallback'], 'rendered': state['rendered']})
    return out


# ---- generators -----------------------------------------------------------------------------------------------------
RENDERED_KINDS = ('select', 'union', 'insert', 'update', 'delete', 'create_table', 'drop_table')


@st.composite
def cases(draw, pool='lite'):
    d = draw(st.sampled_from(corpus.DIALECTS))
    gg = grammar.get(d)
    mode = draw(st.sampled_from(['grammar', 'grammar', 'grammar', 'grammar-any', 'mut-corpus', 'corpus-splice', 'corpus-splice',
                                 'splice', 'splice', 'splice', 'splice-table', 'splice-table', 'coltype', 'deep']))
    if mode == 'grammar':
        kinds = [k for k in RENDERED_KINDS if k in gg.start_kinds]
        start = draw(st.sampled_from(kinds + ['select', 'select']))
        sql = ' '.join(draw(gg.sentence(start=start, pool=pool)))
    elif mode == 'grammar-any':
        sql = ' '.join(draw(gg.sentence(pool=pool)))
        mode = 'grammar'
    elif mode == 'mut-corpus':
        base = draw(st.sampled_from(_TOK[d]))
        kind, toks = draw(mutate.mutation(base, gg.all_lexemes(pool)))
        sql = ' '.join(toks)
    elif mode == 'corpus-splice':
        # an unsupported expression shape in place of a constant of a test-suite statement
        base = draw(st.sampled_from(_SPANS[d]))
        pos = [i for i, (ty, _) in enumerate(base) if ty in CONST_TOKENS]
        i = draw(st.sampled_from(pos))
        toks = [src for _, src in base]
        toks[i] = draw(st.sampled_from(FRAGS))
        sql = ' '.join(toks)
    elif mode == 'splice':
        frame = draw(st.sampled_from(FRAMES))
        n = frame.count('{e}')
        src = draw(st.sampled_from(['frag', 'frag', 'expr']))
        es = []
        for _ in range(n):
            if src == 'frag':
                e = draw(st.sampled_from(FRAGS))
                if draw(st.integers(0, 4)) == 0:       # nest one fragment in another
                    outer = draw(st.sampled_from(['f({})', '({})', '{} + 1', 'not {}', 'cast({} as int)', '{} = 1', '{} in (1)',
                                                  'case when {} then 1 end', '- {}', '({}, 1)', '{} is null', 'count({}, 1)']))
                    e = outer.format(e)
            else:
                e = ' '.join(draw(gg.sentence(start='expr', budget=st.integers(2, 5), pool=pool)))
            es.append(e)
        it = iter(es)
        sql = re.sub(r'\{e\}', lambda m: next(it), frame)
    elif mode == 'deep':
        # one construct nested / chained to a random depth (the fixed list holds the depths 60 and 160 only)
        n = draw(st.integers(20, 220))
        name = draw(st.sampled_from(sorted(c17_shapes.deep_shapes(2))))
        sql = c17_shapes.deep_shapes(n)[name]
    elif mode == 'splice-table':
        frame = draw(st.sampled_from(TABLE_FRAMES))
        sql = frame.replace('{t}', draw(st.sampled_from(TABLE_FRAGS)))
        mode = 'splice'
    else:
        cols = draw(st.lists(st.tuples(st.sampled_from(['a', 'b', 'id', '`a b`']), st.sampled_from(COLTYPES),
                                       st.sampled_from(COLOPTS)), min_size=1, max_size=3))
        head = draw(st.sampled_from(['create table t', 'create table a.t', 'create table if not exists t',
                                     'create or replace table t', 'create table a.b.t']))
        sql = head + ' (' + ', '.join(f'{n} {ty}{o}' for n, ty, o in cols) + ')'
        mode = 'splice'
    return {'dialect': d, 'sql': sql, 'origin': mode}


PY_NAMES = ['self', 'cls', 'args', 'kwargs', 'values', 'table', 'name', 'type', 'key', 'bind', 'dialect', 'whereclause', 'None', 'True',
            'columns', 'c', 'select', 'inline', 'kw', 'dml', 'stmt', 'element', 'column', 'value', 'other', 'obj', 'x']
PY_TEMPLATES = ['update t set {n} = 1', 'update t set {n} = 1, b = 2 where {n} > 0', 'insert into t ({n}) values (1)',
                'insert into t ({n}, b) values (1, 2), (3, 4)', 'select {n} from t', 'select t.{n} from t', 'select * from {n}',
                'select a as {n} from t', 'create table t ({n} int)', 'create table {n} (a int)', 'delete from t where {n} = 1',
                'select {n}(a) from t', 'select * from t as {n}', 'select * from t order by {n}', 'select cast(a as {n}) from t',
                'insert into {n} (a) values (1)', 'update {n} set a = 1', 'select * from t join u on t.{n} = u.{n}',
                'with {n} as (select 1) select * from {n}', 'select count(*) over (partition by {n}) from t']


def type_catalogue():
    """every class name of sqlalchemy.types (the renderer resolves type names through that module) and the usual SQL
    spellings, each bare, with a length / precision and with precision and scale"""
    import sqlalchemy.types as sat
    names = {n.lower() for n in dir(sat) if isinstance(getattr(sat, n), type) and not n.startswith('_')}
    names |= {'tinyint', 'smallint', 'mediumint', 'longtext', 'mediumtext', 'tinytext', 'nvarchar', 'nchar', 'character',
              'double precision', 'bit', 'binary', 'varbinary', 'year', 'timestamptz', 'number', 'string', 'long', 'bytea'}
    out = []
    for n in sorted(names):
        for arg in ('', '(3)', '(6)', '(10, 2)'):
            if n + arg not in COLTYPES:
                out.append(n + arg)
    return out


FUNC_ARGS = ['()', '(*)', '(a)', '(a, b)', '(a, b, c)', '(1, 2, 3, 4)', '(distinct a)', '(distinct a, b)', '(a from b)', '(a from 1)',
             "('x' from 2)", "('x')", '((1, 2))', '(null)', '(a) over (order by b)', '(a from b) over (partition by a)']
FUNC_EXTRA = ['substring', 'substr', 'trim', 'position', 'date_trunc', 'if', 'ifnull', 'nullif', 'length', 'lower', 'upper', 'round', 'abs',
              'group_concat', 'json_extract', 'left', 'right', 'replace', 'avg', 'date', 'year', 'convert', 'overlay', 'func', 'select',
              'over', 'filter', 'within_group', 'label', 'type', 'name', 'self_group', 'alias', 'column', 'columns', 'c', 'execute']


def function_catalogue():
    """every function name SQLAlchemy registers a class for (fixed arity, special constructors: the renderer resolves names through
    sa.func) plus common SQL functions and attribute names of sa.func objects, each with every argument-list shape of the grammar"""
    from sqlalchemy.sql import functions as saf
    names = sorted(set(saf._registry.get('_default', {})) | set(FUNC_EXTRA))
    return [f'{n}{a}' for n in names for a in FUNC_ARGS]


def fixed_cases(tier='quick'):
    out = c17_shapes.deep_cases(tier) + c17_shapes.name_cases(tier) + c17_shapes.func_arg_cases(tier)
    for d in corpus.DIALECTS:
        for f in function_catalogue():
            out.append({'dialect': d, 'sql': f'select {f} from t', 'origin': 'funcs'})
    for x in corpus.accepted():
        out.append({'dialect': x['dialect'], 'sql': x['sql'], 'origin': 'corpus'})
    shapes = list(SHAPES)
    for ty in COLTYPES + type_catalogue():
        shapes.append(f'create table t (a {ty})')
        shapes.append(f'select cast(a as {ty}) from t')
    # names that mean something to Python / SQLAlchemy (keyword arguments, attributes) in every name position
    for n in PY_NAMES:
        for tpl in PY_TEMPLATES:
            shapes.append(tpl.replace('{n}', n))
            shapes.append(tpl.replace('{n}', '`' + n + '`'))
    for op in BINOPS:
        for tpl in ('select (1, 2) {} 1', 'select a {} (1, 2) from t', 'select not (a, b) {} 1 from t', 'select - ((1, 2) {} (3, 4))',
                    'select * from t where (a, b) {} (select 1, 2)'):
            shapes.append(tpl.format(op))
    for d in corpus.DIALECTS:
        for s in shapes:
            out.append({'dialect': d, 'sql': s, 'origin': 'shape'})
    # every fragment once in every frame (single splice, exhaustive); random cases add nesting and mixed fragments
    for d in corpus.DIALECTS:
        for frame in FRAMES:
            for e in FRAGS:
                out.append({'dialect': d, 'sql': frame.replace('{e}', e), 'origin': 'splice-all'})
        for frame in TABLE_FRAMES:
            for t in TABLE_FRAGS:
                out.append({'dialect': d, 'sql': frame.replace('{t}', t), 'origin': 'splice-all'})
    return out


def run_shard(col, k, nshards, tier, seed):
    for i, c in enumerate(fixed_cases(tier)):
        if i % nshards == k:
            for rec in judge(c, col):
                col.fail(rec, c)
    from vf.gens import grammar
    pstep = 8 if tier == 'quick' else 1
    for d in corpus.DIALECTS:
        for i, (_, toks) in enumerate(grammar.get(d).pair_sentences()):
            if i % pstep == 0 and (i // pstep) % nshards == k:
                c = {'dialect': d, 'sql': ' '.join(toks), 'origin': 'pairs'}
                for rec in judge(c, col):
                    col.fail(rec, c)
    if k == 0:
        col.exhaustive_parts.append(f'{len(c17_shapes.deep_cases(tier))} deep / wide statements ({len(c17_shapes.deep_shapes(2))} constructs x depths '
                                    f'{c17_shapes.DEEP_DEPTHS[tier]}), {len(c17_shapes.name_cases(tier))} odd-name statements ({len(c17_shapes.ODD_NAMES)} names x '
                                    f'{len(c17_shapes.NAME_TEMPLATES)} positions' + (', every 3rd' if tier == 'quick' else '') + f'), {len(c17_shapes.func_arg_cases(tier))} '
                                    f'function x argument-kind statements (registered names x {len(c17_shapes.ARG_KINDS)} kinds x {len(c17_shapes.ARG_FORMS)} forms'
                                    + (', every 10th' if tier == 'quick' else '') + ')')
        col.exhaustive_parts.append(('every 8th' if pstep > 1 else 'every') + ' accepted production-pair sentence of the three grammars '
                                    '(every production with every alternative of each of its nonterminals)')
        col.exhaustive_parts.append(f'all {len(corpus.accepted())} corpus statements and {len(SHAPES) + 2 * len(COLTYPES + type_catalogue()) + 5 * len(BINOPS) + 2 * len(PY_NAMES) * len(PY_TEMPLATES)} targeted shapes x 3 parser '
                                    f'dialects x {len(TARGETS)} renderer dialect names; every expression fragment in every statement frame '
                                    f'({len(FRAMES)} x {len(FRAGS)}) and every table fragment in every table frame ({len(TABLE_FRAMES)} x '
                                    f'{len(TABLE_FRAGS)}) x 3 parser dialects')
    hyp.explore(col, cases(), judge, N[tier], seed)
