"""C03 — operators group by standard SQL precedence and associativity in every dialect.

Generated: operator trees (bounded-exhaustive small trees + random deeper ones) printed with minimal parentheses into
six expression contexts x three dialects.  Oracle (model in vf/oracles/optree.py, independent of the library):
(a) the parsed tree has exactly the shape of the generating tree and every written parenthesis pair is flagged;
(b) sqlite3 evaluates the original text and the fully parenthesised print of the parsed tree to the same values.
The model itself is cross-checked against sqlite3 on every case (disagreement = harness error, never a violation).
"""
from hypothesis import strategies as st

from vf import findings, hyp
from vf.oracles import optree as ot

PROPERTY = 'C03'
RULE = ('cases = (dialect, context, operator tree); trees over unary minus, * / %, + -, comparisons '
        '(= != <> < <= > >=), [NOT] LIKE, [NOT] IN (list), BETWEEN, IS [NOT] NULL, NOT, AND, OR with leaves '
        '{a..h, 0..3, NULL}; the text is printed with minimal parentheses under the standard order (a comparison '
        'directly under a comparison is always parenthesised = the carve-out) plus optional redundant parentheses, and '
        'placed in select list / WHERE / JOIN ON / HAVING / function argument / CASE branch. Bounded-exhaustive part: '
        'every tree with <= 3 operators over 14 operator kinds (spellings rotated; thorough: also 4 operators over 9 '
        'kinds) with and without one redundant parenthesis pair; random part: Hypothesis trees with up to 10 '
        'operators, depth <= 6, every spelling, random parentheses. non-trivial = >= 2 operators and the printed '
        'token sequence has >= 2 grammatical bracketings (some operator has an un-parenthesised operand that is open '
        'towards it, so precedence/associativity decides the grouping); distinct by (dialect, context, text, layout). '
        'Layouts: every tree with <= 2 operators (select list, WHERE) and a fifth of the random trees are also parsed with '
        'newlines / tabs / CRLF / runs of blanks / block and line comments between their tokens (two-word operators!)')
ASSUMPTIONS = ['sqlite3 (stdlib) is the reference engine; its grouping agrees with the property\'s order on the '
               'generated domain (checked on every case: original text vs fully parenthesised generating tree; a '
               'disagreement is a harness error)',
               'values: 40 fixed assignments of {NULL,-2..3} to the leaves; equal values on all of them is taken as '
               '"same result"; groupings that are equal as functions (e.g. -(a*b) vs (-a)*b) are judged by shape only',
               'when the parsed shape equals the generating tree, clause (b) holds by the self-check above (the two '
               'fully parenthesised texts are identical)',
               'spellings/contexts a dialect\'s grammar lacks (NOT LIKE in mysql/sqlite, CASE in sqlite) are excluded '
               'for that dialect; the list is pinned and re-probed at start-up, any other rejection is a failure',
               'excluded by construction: unary minus directly over NULL (crashes in the mindsdb dialect, listed under '
               'C02), `- 0` and `- - <int>` (the mindsdb grammar folds them into a literal, which hides the operators), '
               'a bare constant in WHERE/HAVING (refused by the mindsdb dialect by design)',
               'IN lists are the fixed list (1, 2); LIKE operands are the integer/NULL leaves (sqlite compares their '
               'text forms)']
FLOORS = {
    'quick': {
        'ctx:case': 7100, 'ctx:func': 10000, 'ctx:having': 9800, 'ctx:on': 9800, 'ctx:select': 25000,
        'ctx:where': 9800, 'explicit-parens': 41000, 'leaf:int': 21000, 'leaf:null': 18000,
        'nontrivial:mindsdb': 12000, 'nontrivial:mysql': 12000, 'nontrivial:sqlite': 11000, 'ops:3': 57000,
        'ops:5+': 3000, 'origin:enum': 68000, 'origin:random': 8000,
        'pair:A/A': 1400, 'pair:A/M': 2700, 'pair:A/U': 1200, 'pair:AND/A': 1400, 'pair:AND/AND': 330,
        'pair:AND/C': 4000, 'pair:AND/M': 1300, 'pair:AND/N': 580, 'pair:AND/U': 600, 'pair:C/A': 8100,
        'pair:C/M': 8100, 'pair:C/U': 3900, 'pair:M/M': 1300, 'pair:M/U': 1200, 'pair:N/A': 630,
        'pair:N/C': 2100, 'pair:N/M': 660, 'pair:N/N': 390, 'pair:N/U': 380, 'pair:OR/A': 1400,
        'pair:OR/AND': 670, 'pair:OR/C': 4000, 'pair:OR/M': 1300, 'pair:OR/N': 570, 'pair:OR/OR': 360,
        'pair:OR/U': 600, 'pair:U/U': 400, 'parenthesised-comparison-under-comparison': 22000,
        'spelling:!=': 5600, 'spelling:%': 14000, 'spelling:*': 9200, 'spelling:+': 14000,
        'spelling:-': 14000, 'spelling:-u': 11000, 'spelling:/': 6400, 'spelling:<': 3500,
        'spelling:<=': 5000, 'spelling:<>': 5500, 'spelling:=': 5500, 'spelling:>': 3400,
        'spelling:>=': 5000, 'spelling:and': 14000, 'spelling:between': 20000, 'spelling:in': 3700,
        'spelling:is not null': 3500, 'spelling:is null': 7000, 'spelling:like': 12000,
        'spelling:not': 11000, 'spelling:not in': 6800, 'spelling:not like': 2200, 'spelling:or': 14000,
        '__nontrivial__': 30000, 'layout:comment': 600, 'layout:newline': 600, 'layout:mixed': 600, 'layout:mixed-comment': 600,
        'layout:crlf': 600, 'layout:tab': 600, 'layout:line-comment': 600, 'layout:wide': 600},
    'thorough': {
        'ctx:case': 41000, 'ctx:func': 53000, 'ctx:having': 44000, 'ctx:on': 44000, 'ctx:select': 130000,
        'ctx:where': 44000, 'explicit-parens': 170000, 'leaf:int': 140000, 'leaf:null': 100000,
        'nontrivial:mindsdb': 81000, 'nontrivial:mysql': 82000, 'nontrivial:sqlite': 74000,
        'ops:3': 100000, 'ops:4': 190000, 'ops:5+': 52000, 'origin:enum': 280000, 'origin:random': 79000,
        'pair:A/A': 6900, 'pair:A/M': 13000, 'pair:A/U': 9700,
        'pair:AND/A': 10000, 'pair:AND/AND': 4400, 'pair:AND/C': 32000, 'pair:AND/M': 10000,
        'pair:AND/N': 7700, 'pair:AND/U': 7400, 'pair:C/A': 47000, 'pair:C/M': 49000, 'pair:C/U': 41000,
        'pair:M/M': 7400, 'pair:M/U': 11000, 'pair:N/A': 5500, 'pair:N/C': 25000, 'pair:N/M': 6300,
        'pair:N/N': 6600, 'pair:N/U': 5700, 'pair:OR/A': 10000, 'pair:OR/AND': 8500, 'pair:OR/C': 32000,
        'pair:OR/M': 10000, 'pair:OR/N': 7700, 'pair:OR/OR': 4700, 'pair:OR/U': 7500, 'pair:U/U': 6900,
        'parenthesised-comparison-under-comparison': 140000, 'spelling:!=': 21000, 'spelling:%': 33000,
        'spelling:*': 66000, 'spelling:+': 100000, 'spelling:-': 33000, 'spelling:-u': 100000,
        'spelling:/': 60000, 'spelling:<': 39000, 'spelling:<=': 41000, 'spelling:<>': 18000,
        'spelling:=': 18000, 'spelling:>': 37000, 'spelling:>=': 40000, 'spelling:and': 100000,
        'spelling:between': 160000, 'spelling:in': 18000, 'spelling:is not null': 38000,
        'spelling:is null': 48000, 'spelling:like': 35000, 'spelling:not': 100000,
        'spelling:not in': 20000, 'spelling:not like': 6500, 'spelling:or': 100000,
        '__nontrivial__': 200000, 'layout:comment': 5000, 'layout:newline': 5000, 'layout:mixed': 5000, 'layout:mixed-comment': 5000,
        'layout:crlf': 5000, 'layout:tab': 5000, 'layout:line-comment': 5000, 'layout:wide': 5000}}
N_RANDOM = {'quick': 24000, 'thorough': 320000}   # random cases per run, split over the shards

DIALECTS = ('mindsdb', 'mysql', 'sqlite')
FRAMES = {
    'select': 'SELECT {e} FROM t',
    'where': 'SELECT x FROM t WHERE {e}',
    'on': 'SELECT x FROM t JOIN u ON {e}',
    'having': 'SELECT x FROM t GROUP BY x HAVING {e}',
    'func:0': 'SELECT fn({e}, z) FROM t',
    'func:1': 'SELECT fn(z, {e}) FROM t',
    'case:when': 'SELECT CASE WHEN {e} THEN 1 ELSE 0 END FROM t',
    'case:then': 'SELECT CASE WHEN z THEN {e} ELSE 0 END FROM t',
    'case:else': 'SELECT CASE WHEN z THEN 0 ELSE {e} END FROM t',
}
CONTEXTS = ('select', 'where', 'on', 'having', 'func', 'case')
SUBCTX = {'select': ['select'], 'where': ['where'], 'on': ['on'], 'having': ['having'],
          'func': ['func:0', 'func:1'], 'case': ['case:when', 'case:then', 'case:else']}
# what the dialects' grammars are known not to have (re-probed in prepare; anything else that is rejected is a failure)
PINNED_MISSING_SPELLING = {('mysql', 'not like'), ('sqlite', 'not like')}
PINNED_MISSING_CTX = {('sqlite', 'case:when'), ('sqlite', 'case:then'), ('sqlite', 'case:else')}
_MISSING_SPELLING = set()
_MISSING_CTX = set()
_ENGINE = []

# skeleton operator kinds of the bounded-exhaustive part and their spellings (rotated over the enumeration)
KINDS3 = ['u-', 'not', '*', '%', '+', '-', '=', '<', 'like', 'and', 'or', 'between', 'isnull', 'in']
KINDS4 = ['u-', 'not', '*', '+', '<', 'and', 'or', 'between', 'isnull']
SPELL = {'*': ['*', '/'], '%': ['%'], '+': ['+'], '-': ['-'], '=': ['=', '!=', '<>'], '<': ['<', '<=', '>', '>='],
         'like': ['like', 'not like'], 'and': ['and'], 'or': ['or']}
# failure kinds: 'shape' (site = '<expected outer> over <observed outer>' for each reversed pair of operators),
# 'value' (site = the '; '-joined shape sites of the case), 'paren-flag' (site = node under the unflagged parentheses),
# 'rejected' (site = skeleton of the minimised rejected expression), 'internal-error' (site = exception@frame)


# ------------------------------------------------------------------------------------------------ library side

def _parse(sql, d):
    from mindsdb_sql import parse_sql
    return parse_sql(sql, d)


def _rejected(sql, d):
    from mindsdb_sql.exceptions import ParsingException
    try:
        _parse(sql, d)
        return False
    except ParsingException:
        return True
    except Exception:
        return False


def extract(q, ctx):
    if ctx == 'select':
        return q.targets[0]
    if ctx == 'where':
        return q.where
    if ctx == 'on':
        return q.from_table.condition
    if ctx == 'having':
        return q.having
    if ctx.startswith('func:'):
        return q.targets[0].args[int(ctx[5:])]
    case = q.targets[0]
    if ctx == 'case:when':
        return case.rules[0][0]
    if ctx == 'case:then':
        return case.rules[0][1]
    return case.default


def shape(n):
    """Model tree of a parsed expression (reads class, op, args, parts, value, parentheses only)."""
    from mindsdb_sql.parser import ast
    t = _shape(n, ast)
    if getattr(n, 'parentheses', False):
        return ['p', t]
    return t


def _shape(n, ast):
    if isinstance(n, ast.Identifier):
        if len(n.parts) == 1 and isinstance(n.parts[0], str):
            return ['leaf', n.parts[0]]
        return ['?', 'Identifier:' + repr(n.parts)]
    if isinstance(n, ast.NullConstant):
        return ['leaf', None]
    if isinstance(n, ast.Constant):
        if isinstance(n.value, int) and not isinstance(n.value, bool):
            return ['leaf', n.value]
        return ['?', 'Constant:' + repr(n.value)]
    if isinstance(n, ast.UnaryOperation):
        if n.op == '-':
            return ['u-', shape(n.args[0])]
        if n.op == 'not':
            return ['not', shape(n.args[0])]
        return ['?', 'UnaryOperation:' + str(n.op)]
    if isinstance(n, ast.BetweenOperation):
        if len(n.args) != 3:
            return ['?', 'BetweenOperation:args']
        return ['between'] + [shape(a) for a in n.args]
    if isinstance(n, ast.BinaryOperation):
        a, b = n.args
        if n.op in ('is', 'is not'):
            if isinstance(b, ast.NullConstant) and not getattr(b, 'parentheses', False):
                return ['isnull', shape(a), n.op == 'is not']
            return ['?', 'is:rhs']
        if n.op in ('in', 'not in'):
            if (isinstance(b, ast.Tuple) and len(b.items) == 2
                    and all(type(x) is ast.Constant and x.value == i + 1 for i, x in enumerate(b.items))):
                return ['in', shape(a), n.op == 'not in']
            return ['?', 'in:rhs']
        if n.op in ot.BINOPS:
            return ['bin', n.op, shape(a), shape(b)]
        return ['?', 'BinaryOperation:' + str(n.op)]
    return ['?', type(n).__name__]


# ------------------------------------------------------------------------------------------------ model helpers

def unfold(t):
    k = t[0]
    if k == 'leaf':
        if isinstance(t[1], int) and t[1] < 0:
            return ['u-', ['leaf', -t[1]]]
        return list(t)
    if k == '?':
        return list(t)
    return ot.replace_children(t, [unfold(c) for c in ot.children(t)])


def canon(t):
    """Shape modulo parentheses flags and modulo folding of `- <int literal>`."""
    return unfold(ot.strip_p(ot.fold_neg(t)))


def has_unknown(t):
    return t[0] == '?' or any(has_unknown(c) for c in ot.children(t))


def out_of_domain(t, d):
    """Reason why the tree is not in the judged domain for dialect d, or None."""
    k = t[0]
    if k == 'leaf':
        v = t[1]
        if v is None or (isinstance(v, int) and not isinstance(v, bool) and 0 <= v <= 9) or v in ot.LEAF_NAMES:
            return None
        return 'bad leaf'
    if k == 'u-':
        c = t[1]
        while c[0] == 'p':
            c = c[1]
        if c[0] == 'leaf' and c[1] is None:
            return 'unary minus over NULL (C02)'
        if t[1][0] == 'leaf' and t[1][1] == 0:
            return '- 0 (folds to 0)'
        if t[1][0] == 'u-' and t[1][1][0] == 'leaf' and isinstance(t[1][1][1], int):
            return '- - <int> (folds to <int>)'
    if k == 'bin':
        if t[1] not in ot.BINOPS:
            return 'bad operator'
        if (d, t[1]) in _MISSING_SPELLING:
            return 'spelling not in dialect: ' + t[1]
    for c in ot.children(t):
        r = out_of_domain(c, d)
        if r:
            return r
    return None


def spellings_of(t, acc):
    if t[0] not in ('leaf', 'p', '?'):
        acc.add('-u' if t[0] == 'u-' else ot.spelling(t))
    for c in ot.children(t):
        spellings_of(c, acc)
    return acc


def leaves_of(t, acc):
    if t[0] == 'leaf':
        acc.append(t[1])
    for c in ot.children(t):
        leaves_of(c, acc)
    return acc


def has_explicit_p(t):
    return t[0] == 'p' or any(has_explicit_p(c) for c in ot.children(t))


def c_under_c(e):
    if e[0] not in ('leaf', '?', 'p') and ot.cls(e) == ot.C:
        for c in ot.children(e):
            if c[0] == 'p' and c[1][0] not in ('leaf', 'p', '?') and ot.cls(c[1]) == ot.C:
                return True
    return any(c_under_c(c) for c in ot.children(e))


def lost_flags(e, o, out):
    """e, o: trees with 'p' nodes and equal shape modulo 'p'.  Collect labels of nodes whose written parentheses are
    not flagged in o."""
    ep = e[0] == 'p'
    op = o[0] == 'p'
    while e[0] == 'p':
        e = e[1]
    while o[0] == 'p':
        o = o[1]
    if ep and not op:
        out.append(ot.label(e))
    for ce, co in zip(ot.children(e), ot.children(o)):
        lost_flags(ce, co, out)
    return out


def _engine():
    if not _ENGINE:
        _ENGINE.append(ot.Engine())
    return _ENGINE[0]


def minimise_rejected(tree, ctx, d):
    """Smallest rejected sub-expression, then greedy replacement of operands by leaves.  (skeleton, ctx or 'any')."""
    budget = [400]

    def rej(t, c):
        if budget[0] <= 0:
            return False
        if c in ('where', 'having') and ot.strip_p(ot.fold_neg(t))[0] == 'leaf':
            return False
        budget[0] -= 1
        return _rejected(FRAMES[c].format(e=ot.render(t)[0]), d)

    use = ctx
    if ctx != 'select' and (d, 'select') not in _MISSING_CTX and rej(tree, 'select'):
        use = 'select'
    cand = tree
    for s in ot.subtrees(tree):
        if s is not tree and rej(s, use):
            cand = s
            break
    changed = True
    while changed and budget[0] > 0:
        changed = False
        for s in ot.simplifications(cand):
            if rej(s, use):
                cand, changed = s, True
                break
    return ot.skeleton(ot.render(cand)[1]), ('any' if use == 'select' and ctx != 'select' else ctx.split(':')[0])


# ------------------------------------------------------------------------------------------------ the oracle

# what may stand between two tokens of the expression instead of one blank (the expressions hold no string literals)
LAYOUTS = {'newline': ['\n'], 'tab': ['\t'], 'crlf': ['\r\n'], 'wide': ['   '], 'mixed': [' ', '\n', '\t', '  \n  ', '\r\n', ' '],
           'comment': [' /* c */ '], 'line-comment': [' -- c\n'], 'mixed-comment': [' ', ' /* c */ ', '\n', '/**/', ' -- x\n ', ' ']}


def relayout(text, layout):
    if not layout:
        return text
    seps = LAYOUTS[layout]
    parts = text.split(' ')
    out = [parts[0]]
    for i, p in enumerate(parts[1:]):
        out.append(seps[i % len(seps)])
        out.append(p)
    return ''.join(out)


def judge(case, col):
    from mindsdb_sql.exceptions import ParsingException
    from vf.props.c02 import site_of
    d, ctx, tree = case['dialect'], case['ctx'], case['tree']
    layout = case.get('layout')
    cfg = {'dialect': d, 'ctx': ctx.split(':')[0]}
    if layout:
        cfg['layout'] = 'comments' if 'comment' in layout else 'blanks'
    if (d, ctx) in _MISSING_CTX:
        col.excluded('context not in dialect: ' + d + ' ' + ctx.split(':')[0])
        return []
    why = out_of_domain(tree, d)
    if why:
        col.excluded(why)
        return []
    text, e_p = ot.render(tree)
    e_c = canon(e_p)
    if ctx in ('where', 'having') and ot.fold_neg(e_c)[0] == 'leaf':
        col.excluded('WHERE/HAVING <constant>')
        return []
    sql = FRAMES[ctx].format(e=relayout(text, layout))

    # model self-check against the reference engine (harness error when my precedence table or printer is wrong)
    eng = _engine()
    v_text = eng.eval(text)
    full_e = ot.full(e_c)
    if eng.eval(full_e) != v_text:
        raise RuntimeError(f'C03 model disagrees with sqlite3: {text!r} vs {full_e!r}')

    nops = ot.n_ops(e_p)
    nontrivial = nops >= 2 and ot.ambiguous(e_p)
    sp = sorted(spellings_of(e_p, set()))
    lv = leaves_of(e_p, [])
    classes = ['dialect:' + d, 'ctx:' + cfg['ctx'], 'ops:' + (str(nops) if nops < 5 else '5+'),
               'origin:' + case.get('origin', '?')]
    classes += ['spelling:' + s for s in sp]
    classes += ['pair:' + p for p in sorted(set(ot.adjacent_pairs(e_p)))]
    if nontrivial:
        classes.append('nontrivial:' + d)
    if has_explicit_p(tree):
        classes.append('explicit-parens')
    if c_under_c(e_p):
        classes.append('parenthesised-comparison-under-comparison')
    if any(isinstance(v, int) for v in lv):
        classes.append('leaf:int')
    if any(v is None for v in lv):
        classes.append('leaf:null')
    key = (d, ctx, text, layout)
    sample = {'dialect': d, 'sql': sql}
    if layout:
        classes.append('layout:' + layout)
    out = []

    try:
        q = _parse(sql, d)
        node = extract(q, ctx)
    except ParsingException as ex:
        skel, where = minimise_rejected(tree, ctx, d)
        c2 = dict(cfg, ctx=where)
        msg = str(ex).strip().splitlines()
        out.append(findings.record('rejected', skel, [], c2, f'{sql!r}: {msg[0] if msg else ""}', sql))
        col.case(key, nontrivial, classes + ['outcome:rejected'], sample)
        return out
    except RecursionError:
        col.excluded('recursion')
        return []
    except Exception as ex:
        out.append(findings.record('internal-error', site_of(ex), [], cfg, f'{type(ex).__name__}: {ex}', sql))
        col.case(key, nontrivial, classes + ['outcome:internal-error'], sample)
        return out

    o_p = shape(node)
    o_c = canon(o_p)
    if o_c == e_c:
        # (a) grouping is right; written parentheses must be flagged.  (b) holds trivially: same grouping = same text
        lost = lost_flags(ot.fold_neg(e_p), ot.fold_neg(o_p), [])
        for lab in sorted(set(lost)):
            out.append(findings.record('paren-flag', lab, [], cfg,
                                       f'{text!r}: parentheses around a {lab} node are not flagged in the tree', sql))
        classes.append('outcome:same-shape')
    elif has_unknown(o_c):
        bad = []

        def find(t):
            if t[0] == '?':
                bad.append(t[1])
            for c in ot.children(t):
                find(c)
        find(o_c)
        out.append(findings.record('shape', 'unexpected-node:' + bad[0].split(':')[0], [], cfg,
                                   f'{text!r} parsed into {o_c!r}', sql))
        classes.append('outcome:shape-differs')
    else:
        full_o = ot.full(o_c)
        fl = ot.flips(e_c, o_c)
        sites = []
        if fl:
            seen = {}
            for (lp, lq, pp, pq) in fl:
                site = f'{lp} over {lq}'
                feats = []
                if lp.split('[')[0] == lq.split('[')[0]:
                    feats.append('same-class:observed-' + ('right-assoc' if pp > pq else 'left-assoc'))
                seen.setdefault(site, feats)
            for site in sorted(seen):
                sites.append(site)
                out.append(findings.record('shape', site, seen[site], cfg,
                                           f'{text!r}: expected {full_e}, parsed as {full_o}', sql))
        else:
            dis = ot.first_disagreement(e_c, o_c) or ('?', '?')
            site = ('tokens-differ:' if fl is None else 'regrouped:') + f'{dis[0]} vs {dis[1]}'
            sites.append(site)
            out.append(findings.record('shape', site, [], cfg, f'{text!r}: expected {full_e}, parsed as {full_o}', sql))
        # (b) reference engine: original text vs fully parenthesised print of the parsed tree
        try:
            v_o = eng.eval(full_o)
        except Exception as ex:   # the parsed tree is not even evaluable
            v_o = ['error: ' + str(ex)]
        if v_o != v_text:
            i = next(j for j in range(min(len(v_o), len(v_text))) if v_o[j] != v_text[j]) if len(v_o) == len(v_text) else 0
            asg = dict(zip(ot.LEAF_NAMES, ot.ROWS[i]))
            used = {k: asg[k] for k in sorted(set(x for x in lv if isinstance(x, str)))}
            out.append(findings.record('value', '; '.join(sites), [], cfg,
                                       f'{text!r} = {v_text[i]!r} in sqlite3 but the parsed tree {full_o} = '
                                       f'{v_o[i] if i < len(v_o) else None!r} for {used}', sql))
            classes.append('outcome:shape-differs:value-differs')
        else:
            classes.append('outcome:shape-differs:value-same')
        classes.append('outcome:shape-differs')
    col.case(key, nontrivial, classes, sample)
    return out


# ------------------------------------------------------------------------------------------------ generators

def skeletons(nops, kinds):
    """All operator skeletons with exactly nops operators (None = leaf)."""
    if nops == 0:
        yield None
        return
    for op in kinds:
        if op in ('u-', 'not', 'isnull', 'in'):
            for x in skeletons(nops - 1, kinds):
                yield (op, x)
        elif op == 'between':
            for i in range(nops):
                for j in range(nops - i):
                    for x in skeletons(i, kinds):
                        for y in skeletons(j, kinds):
                            for z in skeletons(nops - 1 - i - j, kinds):
                                yield (op, x, y, z)
        else:
            for i in range(nops):
                for x in skeletons(i, kinds):
                    for y in skeletons(nops - 1 - i, kinds):
                        yield (op, x, y)


def concretise(sk, i, d):
    """Skeleton -> model tree: leaves a, b, c... in order (some replaced by small integers / NULL), operator
    spellings rotated by the enumeration index i so that every spelling occurs."""
    cnt = {'leaf': 0, 'op': 0}

    def spell(kind):
        opts = [s for s in SPELL[kind] if (d, s) not in _MISSING_SPELLING]
        j = cnt['op']
        return opts[(i + j) % len(opts)]

    def go(s, minus=0):
        if s is None:
            j = cnt['leaf']
            cnt['leaf'] += 1
            h = (i * 7 + j * 3) % 13
            if h == 0 and minus < 2:
                return ['leaf', (i + j) % 3 + 1 if minus else (i + j) % 4]
            if h == 1 and minus < 2:
                return ['leaf', 1 if minus else None]
            return ['leaf', ot.LEAF_NAMES[j % 8]]
        op = s[0]
        cnt['op'] += 1
        j = cnt['op']
        if op == 'u-':
            return ['u-', go(s[1], minus + 1)]
        if op == 'not':
            return ['not', go(s[1])]
        if op in ('isnull', 'in'):
            return [op, go(s[1]), (i + j) % 2 == 1]
        if op == 'between':
            return ['between', go(s[1]), go(s[2]), go(s[3])]
        return ['bin', spell(op), go(s[1]), go(s[2])]
    return go(sk)


def nodes_preorder(t, path=()):
    yield path
    for k, c in enumerate(ot.children(t)):
        yield from nodes_preorder(c, path + (k,))


def wrap_at(t, path):
    if not path:
        return ['p', t]
    kids = ot.children(t)
    kids = kids[:path[0]] + [wrap_at(kids[path[0]], path[1:])] + kids[path[0] + 1:]
    return ot.replace_children(t, kids)


def enumerated(tier):
    """The bounded-exhaustive case list (deterministic order)."""
    for d in DIALECTS:
        i = 0
        levels = [(1, KINDS3), (2, KINDS3), (3, KINDS3)]
        if tier == 'thorough':
            levels.append((4, KINDS4))
        for nops, kinds in levels:
            for sk in skeletons(nops, kinds):
                i += 1
                tree = concretise(sk, i, d)
                paths = list(nodes_preorder(tree))
                if nops <= 2:
                    variants = [tree] + [wrap_at(tree, p) for p in paths]
                else:
                    variants = [tree, wrap_at(tree, paths[i % len(paths)])]
                for ci, ctx in enumerate(CONTEXTS):
                    full_ctx = ctx == 'select' or (tier == 'thorough' and nops <= 3) or nops <= 2
                    if not full_ctx and (i + ci) % 3 != 0:
                        continue
                    subs = SUBCTX[ctx]
                    for vi, v in enumerate(variants):
                        if nops == 4 and vi > 0 and ctx != 'select':
                            continue
                        yield {'dialect': d, 'ctx': subs[(i + vi) % len(subs)], 'tree': v, 'origin': 'enum'}
                    if nops <= 2 and ctx in ('select', 'where'):
                        # the same text with other white space / comments between its tokens (two-word operators!)
                        for li, lay in enumerate(sorted(LAYOUTS)):
                            if nops == 1 or (i + li) % 2 == 0 or tier == 'thorough':
                                yield {'dialect': d, 'ctx': subs[i % len(subs)], 'tree': tree, 'origin': 'enum', 'layout': lay}


_S_LEAF = st.sampled_from([['leaf', v] for v in ot.LEAF_NAMES] * 2 + [['leaf', v] for v in (0, 1, 2, 3)]
                          + [['leaf', None]])
_S_KIND = st.sampled_from(['bin'] * 8 + ['u-', 'u-', 'not', 'not', 'isnull', 'in', 'between', 'between'])
_S_BIN = st.sampled_from(sorted(ot.BINOPS))
_S_BOOL = st.booleans()
_S_PAREN = st.integers(0, 6)
_S_NOPS = st.integers(2, 10)
_S_FRAC = st.integers(0, 10)
MAX_DEPTH = 6


def _tree(draw, nops, depth):
    """Random operator tree with at most nops operators and depth <= MAX_DEPTH (all choices are Hypothesis draws)."""
    if nops <= 0 or depth >= MAX_DEPTH:
        t = list(draw(_S_LEAF))
    else:
        k = draw(_S_KIND)
        rest = nops - 1
        if k == 'bin':
            left = rest * draw(_S_FRAC) // 10
            t = ['bin', draw(_S_BIN), _tree(draw, left, depth + 1), _tree(draw, rest - left, depth + 1)]
        elif k == 'between':
            a = rest * draw(_S_FRAC) // 10
            b = (rest - a) * draw(_S_FRAC) // 10
            t = ['between', _tree(draw, a, depth + 1), _tree(draw, b, depth + 1), _tree(draw, rest - a - b, depth + 1)]
        elif k in ('isnull', 'in'):
            t = [k, _tree(draw, rest, depth + 1), draw(_S_BOOL)]
        else:
            t = [k, _tree(draw, rest, depth + 1)]
    if draw(_S_PAREN) == 0:
        t = ['p', t]
    return t


def _fix(t, d):
    """Keep random trees inside the domain by construction."""
    k = t[0]
    if k == 'leaf':
        return t
    kids = [_fix(c, d) for c in ot.children(t)]
    if k == 'u-':
        c = kids[0]
        while c[0] == 'p':
            c = c[1]
        if c[0] == 'leaf' and c[1] is None:
            kids = [['leaf', 2]]
        c = kids[0]
        if c[0] == 'leaf' and c[1] == 0:
            kids = [['leaf', 3]]
        if c[0] == 'u-' and c[1][0] == 'leaf' and isinstance(c[1][1], int):
            kids = [['u-', ['leaf', 'a']]]
    if k == 'bin':
        op = t[1]
        if (d, op) in _MISSING_SPELLING:
            op = op.replace('not ', '')
        return ['bin', op] + kids
    return ot.replace_children(t, kids)


_S_DIALECT = st.sampled_from(DIALECTS)
_S_CTX = st.sampled_from(sorted(FRAMES))


@st.composite
def cases(draw):
    d = draw(_S_DIALECT)
    ctx = draw(_S_CTX)
    if (d, ctx) in _MISSING_CTX:
        ctx = 'select'
    t = _tree(draw, draw(_S_NOPS), 0)
    while t[0] == 'leaf' or (t[0] == 'p' and t[1][0] == 'leaf'):
        t = ['bin', draw(_S_BIN), t, list(draw(_S_LEAF))]
    c = {'dialect': d, 'ctx': ctx, 'tree': _fix(t, d), 'origin': 'random'}
    if draw(st.integers(0, 4)) == 0:
        c['layout'] = draw(st.sampled_from(sorted(LAYOUTS)))
    return c


# ------------------------------------------------------------------------------------------------ runner hooks

def prepare(tier):
    assert ot.selftest()
    from mindsdb_sql import get_lexer_parser
    for d in DIALECTS:       # build the LALR tables once, before the fork
        get_lexer_parser(d)
    _MISSING_SPELLING.clear()
    _MISSING_CTX.clear()
    for (d, s) in sorted(PINNED_MISSING_SPELLING):
        t = ['bin', s, ['leaf', 'a'], ['leaf', 'b']]
        if _rejected(FRAMES['select'].format(e=ot.render(t)[0]), d):
            _MISSING_SPELLING.add((d, s))
    for (d, c) in sorted(PINNED_MISSING_CTX):
        if _rejected(FRAMES[c].format(e='a + b'), d):
            _MISSING_CTX.add((d, c))


def run_shard(col, k, nshards, tier, seed):
    if k == 0:
        col.notes.append('spellings excluded (not in grammar): ' + ', '.join(f'{d}:{s}' for d, s in sorted(_MISSING_SPELLING)))
        col.notes.append('contexts excluded (not in grammar): ' + ', '.join(f'{d}:{c}' for d, c in sorted(_MISSING_CTX)))
        col.exhaustive_parts.append(
            'every operator tree with <= 3 operators over 14 operator kinds (u-, not, * or /, %, +, -, = != <>, '
            '< <= > >=, [not] like, and, or, between, is [not] null, [not] in; spellings rotated), x 3 dialects, in the '
            'select-list context' + (' and the other five contexts' if tier == 'thorough' else
                                     ' (1-2 operators: all six contexts; 3 operators: a third of the trees per other context)')
            + '; plus one redundant-parentheses variant per tree (every position for <= 2 operators)'
            + ('; every tree with 4 operators over 9 kinds in the select-list context, a third per other context'
               if tier == 'thorough' else ''))
    for i, c in enumerate(enumerated(tier)):
        if i % nshards == k:
            for rec in judge(c, col):
                col.fail(rec, c)
    hyp.explore(col, cases(), judge, max(1, N_RANDOM[tier] // nshards), seed)
