"""C08 — executing a federated plan returns what the original query returns."""
import copy, sqlite3
from hypothesis import strategies as st

from vf import findings, hyp
from vf.gens import model
from vf.oracles import engine, planexec
from vf.props.c02 import site_of

PROPERTY = 'C08'
RULE = ('cases = (predictor-free query from the typed SQL model over tables living in two integrations '
        '(int1: t1,t2; int2: t3,t4), table contents over tiny domains, catalog shape); ground truth = the original text '
        'on one sqlite3 engine with both integrations ATTACH-ed; observed = the emitted plan steps carried out by the '
        'reference interpreter (fetch / sub-select / join / query / union ... by their documented meaning) on sqlite3; '
        'compared as multisets, order-aware under ORDER BY, validity predicate under LIMIT without a total order; '
        'non-trivial = >= 2 fetches from different integrations and a non-empty ground truth or a non-empty join')
ASSUMPTIONS = ['step semantics are read from the docstrings of planner/steps.py and from how the planner\'s own tests '
               'use the steps; the real executor lives in another repository',
               'sqlite3 is the reference engine on both sides; data domains are tiny by design',
               'column references are always qualified by alias or table name (resolution of bare names over a joined '
               'result is the executor\'s business)']
FLOORS = {'quick': {'__nontrivial__': 500, 'multi-place': 3000, 'judged': 4000, 'plan:fetch:semijoin-filter': 500,
                    'plan:joinstep:FULL JOIN': 200, 'plan:joinstep:LEFT JOIN': 200, 'tag:limit': 300, 'tag:group': 300,
                    'tag:sub:in': 100, 'tag:setop:UNION': 50},
          'thorough': {'__nontrivial__': 6000, 'multi-place': 20000, 'judged': 20000}}
N = {'quick': 900, 'thorough': 8000}
PLACES = {'t1': 'int1', 't2': 'int1', 't3': 'int2', 't4': 'int2'}
CFG = model.Cfg(places=PLACES, always_alias=True, correlated=False, cte=True, window=False, star=True,
                limit_needs_total_order=False, subselect_target=True, extra_places={'t1': ['int2']},
                order_by_source=True)
DATA_TABLES = sorted(model.SCHEMA) + ['int2.t1']
CATALOGS = {
    'names': dict(integrations=['int1', 'int2'], default_namespace='mindsdb'),
    'dicts': dict(integrations=[{'name': 'int1', 'class_type': 'sql', 'type': 'data'},
                                {'name': 'int2', 'class_type': 'sql', 'type': 'data'},
                                {'name': 'proj', 'class_type': 'project', 'type': 'project'}],
                  default_namespace='mindsdb'),
    'default-int1': dict(integrations=['int1', 'int2'], default_namespace='int1'),
}


def prepare(tier):
    import mindsdb_sql.planner  # noqa


def atom_key(n):
    """Qualifier-free image of a comparison atom: (op, column names / constants in order)."""
    from mindsdb_sql.parser import ast
    if isinstance(n, (ast.BinaryOperation, ast.BetweenOperation)):
        parts = []
        for a in n.args:
            if isinstance(a, ast.Identifier):
                parts.append(('col', str(a.parts[-1]).lower()))
            elif isinstance(a, ast.Constant):
                parts.append(('const', repr(a.value)))
            elif isinstance(a, (ast.Select, ast.Union, ast.Intersect, ast.Except, ast.Parameter)):
                parts.append(('subquery', ''))      # a planned sub-select is replaced by Parameter(Result)
            elif isinstance(a, ast.Tuple):
                parts.append(('tuple', len(a.items)))
            else:
                parts.append(('other', type(a).__name__))
        return (n.op, tuple(parts))
    return None


def atom_origins(tree):
    """{atom_key: set of contexts} for every comparison / arithmetic atom of all WHERE and ON clauses of the
    original statement; context = 'top' or 'under-not' / 'under-or' / 'under-case' / 'under-func' / 'under-arith' /
    'under-cmp', prefixed with 'on:<JOIN TYPE>:' for join conditions."""
    from mindsdb_sql.parser import ast
    from vf.oracles.struct import walk
    out = {}

    def rec(n, ctx, prefix):
        if n is None:
            return
        if isinstance(n, ast.BinaryOperation) and n.op == 'and':
            for a in n.args:
                rec(a, ctx, prefix)
            return
        k = atom_key(n)
        if k is not None:
            out.setdefault(k, set()).add(prefix + ctx)
        if isinstance(n, ast.BinaryOperation) and n.op == 'or':
            sub = 'under-or'
        elif isinstance(n, ast.UnaryOperation) and n.op == 'not':
            sub = 'under-not'
        elif isinstance(n, ast.Case):
            sub = 'under-case'
            for c, r in n.rules:
                rec(c, sub, prefix); rec(r, sub, prefix)
            rec(n.arg, sub, prefix); rec(n.default, sub, prefix)
            return
        elif isinstance(n, ast.Function):
            sub = 'under-func'
        elif isinstance(n, ast.BinaryOperation) and n.op in ('+', '-', '*', '/', '%', '||'):
            sub = 'under-arith'
        elif isinstance(n, (ast.BinaryOperation, ast.BetweenOperation, ast.UnaryOperation, ast.TypeCast)):
            sub = 'under-cmp'
        else:
            return
        if ctx not in ('top',):
            sub = ctx if ctx != 'under-cmp' else sub      # the outermost non-conjunctive context wins
        for a in (getattr(n, 'args', None) or ([n.arg] if isinstance(n, ast.TypeCast) else [])):
            rec(a, sub, prefix)

    for n in walk(tree):
        if isinstance(n, ast.Select) and n.where is not None:
            rec(n.where, 'top', '')
        if isinstance(n, ast.Join) and n.condition is not None:
            rec(n.condition, 'top', 'on:' + (n.join_type or 'JOIN').upper() + ':')
    return out


def plan_features(plan, tree):
    """Tags describing the plan mechanisms that known findings are about (computed from the plan, not the text)."""
    from mindsdb_sql.planner import steps as S
    from mindsdb_sql.parser import ast
    from vf.oracles.struct import walk
    out = set()
    fetches = [s for s in plan.steps if type(s).__name__ == 'FetchDataframeStep']
    joins = [s for s in plan.steps if type(s).__name__ == 'JoinStep']
    for st_ in plan.steps:
        if type(st_).__name__ == 'SubSelectStep' and st_.table_name is not None and joins \
                and getattr(st_.query, 'where', None) is not None:
            if any(is_semijoin_filter(n, plan) for n in walk(st_.query.where)):
                out.add('fetch:semijoin-filter')
    for f in fetches:
        q = f.query
        if q is None or type(q).__name__ != 'Select':
            continue
        if joins and (q.limit is not None or q.offset is not None):
            out.add('fetch:limit-under-join')
        if joins and q.order_by:
            out.add('fetch:order-under-join')
        for n in walk(q.where) if q.where is not None else ():
            if is_semijoin_filter(n, plan):
                out.add('fetch:semijoin-filter')
            if isinstance(n, ast.BinaryOperation) and n.op in ('is', 'is not'):
                out.add('fetch:is-null-filter')
        if q.where is not None:
            out.add('fetch:filter')
    origins = atom_origins(tree)
    for st_ in plan.steps:
        if type(st_).__name__ in ('FetchDataframeStep', 'SubSelectStep') and type(st_.query).__name__ == 'Select' \
                and st_.query.where is not None and joins \
                and len(st_.query.targets) == 1 and type(st_.query.targets[0]).__name__ == 'Star':
            stack = [st_.query.where]
            while stack:
                n = stack.pop()
                if isinstance(n, ast.BinaryOperation) and n.op == 'and':
                    stack += list(n.args)
                    continue
                if is_semijoin_filter(n, plan):
                    continue
                if isinstance(n, ast.BinaryOperation) and n.op in ('+', '-', '*', '/', '%', '||'):
                    out.add('pushed:arith-as-filter')
                pre = 'pushed:' if type(st_).__name__ == 'FetchDataframeStep' else 'pushedsub:'
                ctxs = origins.get(atom_key(n))
                if not ctxs:
                    out.add(pre + 'unknown-origin')
                else:
                    # a pushed atom that also occurs as a top-level conjunct is attributed to that occurrence
                    tops = [c for c in ctxs if c == 'top']
                    for c in (tops or sorted(ctxs)):
                        out.add(pre + c)
    for j in joins:
        out.add('joinstep:' + (j.query.join_type or 'JOIN').upper())
    return sorted(out)


def is_semijoin_filter(n, plan):
    """`col IN :result` generated by the join planner: the parameter refers to a `SELECT DISTINCT col` sub-select
    step over another table's fetch (a user-written IN (sub-select) refers to a planned query instead)."""
    from mindsdb_sql.parser import ast
    from mindsdb_sql.planner.step_result import Result
    if not (isinstance(n, ast.BinaryOperation) and n.op == 'in' and isinstance(n.args[1], ast.Parameter)
            and isinstance(n.args[1].value, Result)):
        return False
    for s in plan.steps:
        if s.step_num == n.args[1].value.step_num:
            q = getattr(s, 'query', None)
            return (type(s).__name__ == 'SubSelectStep' and s.table_name is None and q is not None and q.distinct
                    and len(q.targets) == 1 and q.where is None)
    return False


def neutralise(plan, what, orig=None):
    """Copy of the plan with pushed-down mechanisms removed from the per-table fetches (the outer query / join steps
    still apply WHERE, ON, ORDER BY and LIMIT, so a correct plan keeps its meaning)."""
    from mindsdb_sql.parser import ast
    p = copy.deepcopy(plan)
    has_join = any(type(s).__name__ == 'JoinStep' for s in p.steps)
    if 'limit' in what and orig is not None and type(orig).__name__ == 'Select' and orig.offset is not None:
        # the planner *moves* OFFSET into the first fetch (the outer query loses it): put it back
        last = p.steps[-1]
        if type(last).__name__ == 'QueryStep' and last.query.offset is None:
            last.query.offset = copy.deepcopy(orig.offset)
    for s in p.steps:
        if type(s).__name__ == 'SubSelectStep' and has_join and s.table_name is not None \
                and ('filters' in what or 'semijoin' in what):
            q = s.query
            if len(q.targets) == 1 and type(q.targets[0]).__name__ == 'Star' and not q.group_by and not q.order_by \
                    and q.limit is None and not q.distinct:
                # the `SELECT * WHERE <pushed conjuncts>` wrapper of a joined sub-select / CTE
                if 'filters' in what:
                    q.where = None
                elif q.where is not None:
                    q.where = strip_semijoin(q.where, plan)
            continue
        if type(s).__name__ != 'FetchDataframeStep' or type(s.query).__name__ != 'Select' or not has_join:
            continue
        q = s.query
        star_fetch = len(q.targets) == 1 and type(q.targets[0]).__name__ == 'Star'
        if not star_fetch:
            continue          # only the per-table `SELECT * FROM t` fetches of the join planner
        if 'limit' in what:
            q.limit = None; q.offset = None; q.order_by = None
        if 'filters' in what:
            q.where = None
        elif 'semijoin' in what and q.where is not None:
            q.where = strip_semijoin(q.where, plan)
    return p


def strip_semijoin(n, plan):
    from mindsdb_sql.parser import ast
    if isinstance(n, ast.BinaryOperation) and n.op == 'and':
        a, b = strip_semijoin(n.args[0], plan), strip_semijoin(n.args[1], plan)
        if a is None:
            return b
        if b is None:
            return a
        return ast.BinaryOperation('and', args=[a, b])
    if is_semijoin_filter(n, plan):
        return None
    return n


def verdict(truth, got, unlimited, meta):
    oc = meta.get('order_cols') or []
    if unlimited is not None:
        ms_u, ms_g = engine.multiset(unlimited), engine.multiset(got)
        if len(got) != len(truth):
            return f'wrong cardinality under LIMIT: {len(got)} vs {len(truth)}: {got[:6]} vs {truth[:6]}'
        if any(ms_g[r] > ms_u[r] for r in ms_g):
            return f'rows not in the unlimited result: {got[:6]} (unlimited {unlimited[:8]})'
        if oc:
            ka = [tuple(r[i] for i in oc) for r in truth]
            kb = [tuple(r[i] for i in oc) for r in got]
            if ka != kb:
                return f'sort keys differ under LIMIT: {ka[:6]} vs {kb[:6]}'
        return None
    if oc and meta.get('total_order'):
        return engine.compare(truth, got, True)
    d = engine.compare(truth, got, False)
    if d is None and oc:
        ka = [tuple(r[i] for i in oc) for r in truth]
        kb = [tuple(r[i] for i in oc) for r in got]
        if ka != kb:
            d = f'sort keys differ: {ka[:6]} vs {kb[:6]}'
    return d


def judge(case, col):
    from mindsdb_sql import parse_sql
    from mindsdb_sql.planner import plan_query
    from mindsdb_sql.exceptions import PlanningException
    sql, data, meta, cat = case['sql'], case['data'], case['meta'], case['catalog']
    tags = list(meta.get('tags', []))
    cfg = {'catalog': cat}
    classes = ['catalog:' + cat] + ['tag:' + t for t in tags]
    tables = model.engine_tables(data, PLACES)
    G = engine.connect(tables, attach=['int1', 'int2'])
    try:
        _, truth = engine.run(G, sql)
        unlimited = None
        if meta.get('limit') and not meta.get('total_order') and meta.get('sql_unlimited'):
            _, unlimited = engine.run(G, meta['sql_unlimited'])
    except sqlite3.Error as e:
        col.excluded('ground truth not executable: ' + str(e)[:50])
        return []
    try:
        tree = parse_sql(sql, 'mindsdb')
    except Exception as e:
        col.excluded('not parsed: ' + site_of(e))
        return []
    orig = copy.deepcopy(tree)
    try:
        plan = plan_query(tree, **CATALOGS[cat])
    except (PlanningException, NotImplementedError) as e:
        import os
        if os.environ.get('VF_INTERP_AS_FAILURE'):
            return [findings.record('refused', str(e)[:30], tags, cfg, str(e), sql)]
        col.excluded('planner refuses: ' + str(e)[:40])
        col.case((cat, sql), False, classes + ['refused'])
        return []
    except Exception as e:
        col.excluded('planner internal error (C09): ' + site_of(e))
        return []
    places = set(meta.get('places', []))
    if len(places) >= 2:
        classes.append('multi-place')
    conns = {}

    def fetch_conn(integ):
        if integ not in conns:
            sub = {(None, t): v for (db, t), v in tables.items() if db == integ}
            if not sub:
                raise planexec.InterpError(f'fetch from unknown integration {integ!r}')
            conns[integ] = engine.connect(sub)
        return conns[integ]

    it = planexec.Interp(fetch_conn)
    try:
        rel = it.run(plan)
    except planexec.NestedQuery as e:
        out = [findings.record('step-not-executable', 'nested-query-in-step', sorted(set(tags)), cfg,
                               f'{e}; steps: {[type(s).__name__ for s in plan.steps]}', sql)]
        col.case((cat, sql), False, classes + ['step-not-executable'])
        return out
    except planexec.InterpError as e:
        import os
        if os.environ.get('VF_INTERP_AS_FAILURE'):
            return [findings.record('interp-error', str(e)[:30], tags, cfg, f'{e}; steps: {[type(s).__name__ for s in plan.steps]}', sql)]
        col.excluded('interpreter: ' + str(e)[:60])
        col.case((cat, sql), False, classes + ['not-interpreted'])
        return []
    except RecursionError:
        col.excluded('recursion')
        return []
    got = rel.rows
    pf = plan_features(plan, orig)
    classes += ['plan:' + f for f in pf] + ['judged']
    out = []
    d = verdict(truth, got, unlimited, meta)
    if d:
        # which pushed-down mechanism is responsible?  re-interpret the plan with mechanisms neutralised
        needs = 'unexplained'
        for what in (('semijoin',), ('limit',), ('semijoin', 'limit'), ('filters',), ('filters', 'limit')):
            try:
                rel2 = planexec.Interp(fetch_conn).run(neutralise(plan, what, orig))
            except planexec.InterpError:
                continue
            if verdict(truth, rel2.rows, unlimited, meta) is None:
                needs = '+'.join(what)
                break
        classes.append('mismatch-explained-by:' + needs)
        out.append(findings.record('rows-differ', 'pushdown:' + needs, sorted(set(tags) | set(pf)), cfg,
                                   f'{d}; steps: {[type(s).__name__ for s in plan.steps]}; log: {it.log[-4:]}', sql))
    nfetch = len({s.integration for s in plan.steps if type(s).__name__ == 'FetchDataframeStep'})
    col.case((cat, sql, str(data)), nfetch >= 2 and len(truth) >= 1, classes,
             {'sql': sql, 'catalog': cat, 'steps': [type(s).__name__ for s in plan.steps], 'rows': len(truth)})
    return out


ALL_TABLES = [('int1', 't1'), ('int2', 't1'), ('int1', 't2'), ('int2', 't3'), ('int2', 't4')]


@st.composite
def limit_shapes(draw):
    """Join chains with ORDER BY on one table's (qualified) column and LIMIT [OFFSET]: the shapes whose ORDER BY /
    LIMIT the join planner may push into the first fetch.  Same-named tables in different integrations are likely."""
    n = draw(st.integers(2, 3))
    tabs = [draw(st.sampled_from(ALL_TABLES)) for _ in range(n)]
    als = [f'x{i + 1}' for i in range(n)]
    tags = {'shape:limit'}
    if len({t for _, t in tabs}) < len(tabs):
        tags.add('table:same-name-other-place')
    frm = f'{tabs[0][0]}.{tabs[0][1]} AS {als[0]}'
    for i in range(1, n):
        jk = draw(st.sampled_from(['LEFT JOIN', 'LEFT JOIN', 'LEFT JOIN', 'JOIN', 'LEFT OUTER JOIN']))
        tags.add('join:' + jk)
        li = draw(st.integers(0, i - 1))
        frm += f' {jk} {tabs[i][0]}.{tabs[i][1]} AS {als[i]} ON ({als[li]}.a = {als[i]}.a)'
    oi = draw(st.sampled_from([0] + list(range(n))))     # the first table's column more often: that is what gets pushed
    ocol = draw(st.sampled_from([c for c, t in model.SCHEMA[tabs[oi][1]] if t == 'int']))
    tcols = [f'{als[oi]}.{ocol} AS c0']
    for i in range(n):
        c = draw(st.sampled_from([c for c, t in model.SCHEMA[tabs[i][1]] if t == 'int']))
        tcols.append(f'{als[i]}.{c} AS c{i + 1}')
    where = ''
    if draw(st.integers(0, 2)) == 0:
        wi = draw(st.integers(0, n - 1))
        where = f' WHERE ({als[wi]}.a {draw(st.sampled_from([">", "<=", "!="]))} {draw(st.integers(0, 2))})'
        tags.add('where')
    dr = draw(st.sampled_from(['', ' DESC', ' ASC']))
    base = f'SELECT {", ".join(tcols)} FROM {frm}{where} ORDER BY {als[oi]}.{ocol}{dr}'
    lim = f' LIMIT {draw(st.integers(1, 3))}'
    if draw(st.integers(0, 3)) == 0:
        lim += f' OFFSET {draw(st.integers(0, 2))}'
        tags.add('offset')
    tags |= {'order', 'order:source-column', 'limit', 'limit:partial-order'}
    meta = {'order_cols': [0], 'total_order': False, 'limit': True, 'sql_unlimited': base, 'tags': sorted(tags),
            'places': sorted({q for q, _ in tabs}), 'tables': sorted({f'{q}.{t}' for q, t in tabs}), 'types': ['int'] * (n + 1)}
    return {'sql': base + lim, 'meta': meta}


@st.composite
def outer_chain_shapes(draw):
    """Chains of three or four tables with a RIGHT / FULL join *behind* the first join and a WHERE conjunct (null test or
    comparison) on one of the earlier tables: whether a filter may go into a table's fetch depends on every later join
    that can NULL-fill that table, not only on its neighbour."""
    n = draw(st.integers(2, 4))
    tabs = [draw(st.sampled_from(ALL_TABLES)) for _ in range(n)]
    als = [f'x{i + 1}' for i in range(n)]
    tags = {'shape:outer-chain'}
    frm = f'{tabs[0][0]}.{tabs[0][1]} AS {als[0]}'
    late = draw(st.integers(min(2, n - 1), n - 1))     # position of the join that is certainly an outer join
    for i in range(1, n):
        if i == late:
            jk = draw(st.sampled_from(['RIGHT JOIN', 'FULL JOIN', 'FULL OUTER JOIN', 'LEFT JOIN', 'LEFT OUTER JOIN']))
        else:
            jk = draw(st.sampled_from(['JOIN', 'LEFT JOIN', 'INNER JOIN', 'RIGHT JOIN', 'FULL JOIN']))
        tags.add('join:' + jk)
        li = draw(st.integers(0, i - 1))
        frm += f' {jk} {tabs[i][0]}.{tabs[i][1]} AS {als[i]} ON ({als[li]}.a = {als[i]}.a)'
    tcols = []
    for i in range(n):
        c = draw(st.sampled_from([c for c, t in model.SCHEMA[tabs[i][1]] if t == 'int']))
        tcols.append(f'{als[i]}.{c} AS c{i}')
    conj = []
    for _ in range(draw(st.integers(1, 2))):
        wi = draw(st.integers(0, n - 1))
        wc = draw(st.sampled_from([c for c, t in model.SCHEMA[tabs[wi][1]] if t == 'int']))
        kind = draw(st.sampled_from(['is-null', 'is-null', 'is-not-null', 'cmp', 'truth', 'truth']))
        if kind == 'truth':
            # NULL passes IS NOT TRUE / IS NOT FALSE: as dangerous below an outer join as IS NULL
            conj.append(f'({als[wi]}.{wc} IS {draw(st.sampled_from(["NOT ", "NOT ", ""]))}{draw(st.sampled_from(["TRUE", "FALSE"]))})')
            tags.add('istruth')
        elif kind == 'cmp':
            conj.append(f'({als[wi]}.{wc} {draw(st.sampled_from(["=", ">", "<=", "!="]))} {draw(st.integers(0, 2))})')
        else:
            conj.append(f'({als[wi]}.{wc} IS {"NOT " if kind == "is-not-null" else ""}NULL)')
            tags.add('null-test')
    tags.add('where')
    sql = f'SELECT {", ".join(tcols)} FROM {frm} WHERE ' + ' AND '.join(conj)
    meta = {'order_cols': [], 'total_order': False, 'limit': False, 'tags': sorted(tags),
            'places': sorted({q for q, _ in tabs}), 'tables': sorted({f'{q}.{t}' for q, t in tabs}), 'types': ['int'] * n}
    return {'sql': sql, 'meta': meta}


@st.composite
def nested_cte_shapes(draw):
    """The same CTE name defined in two nested selects of one statement (each WITH belongs to its own select): the
    two definitions have different bodies over different integrations."""
    a = draw(st.sampled_from([('int1', 't1'), ('int1', 't2')]))
    b = draw(st.sampled_from([('int2', 't3'), ('int2', 't4'), ('int2', 't1')]))
    name = draw(st.sampled_from(['w', 'w', 'cte0', 't1']))
    ca = draw(st.sampled_from([c for c, t in model.SCHEMA[a[1]] if t == 'int']))
    cb = draw(st.sampled_from([c for c, t in model.SCHEMA[b[1]] if t == 'int']))
    wa = f'WITH {name} AS (SELECT y.{ca} AS c0 FROM {a[0]}.{a[1]} AS y) SELECT * FROM {name}'
    wb = f'WITH {name} AS (SELECT z.{cb} AS c0 FROM {b[0]}.{b[1]} AS z) SELECT * FROM {name}'
    kind = draw(st.sampled_from(['join', 'join', 'in-in', 'from-in']))
    tags = {'shape:nested-cte', 'cte', 'cte:same-name-twice', 'sub:from' if kind != 'in-in' else 'sub:in'}
    if kind == 'join':
        jk = draw(st.sampled_from(['JOIN', 'LEFT JOIN']))
        sql = f'SELECT q1.c0 AS c0, q2.c0 AS c1 FROM ({wa}) AS q1 {jk} ({wb}) AS q2 ON (q1.c0 = q2.c0)'
        types = ['int', 'int']
        tags.add('join:' + jk)
    elif kind == 'in-in':
        t = draw(st.sampled_from([('int1', 't1'), ('int2', 't3')]))
        sql = (f'SELECT x1.a AS c0 FROM {t[0]}.{t[1]} AS x1 WHERE (x1.a IN (WITH {name} AS (SELECT y.{ca} AS c0 FROM {a[0]}.{a[1]} AS y) '
               f'SELECT c0 FROM {name})) AND (x1.a NOT IN (WITH {name} AS (SELECT z.{cb} AS c0 FROM {b[0]}.{b[1]} AS z '
               f'WHERE (z.{cb} IS NOT NULL)) SELECT c0 FROM {name}))')
        types = ['int']
    else:
        sql = (f'SELECT q1.c0 AS c0 FROM ({wa}) AS q1 WHERE (q1.c0 IN (WITH {name} AS (SELECT z.{cb} AS c0 FROM {b[0]}.{b[1]} AS z) '
               f'SELECT c0 FROM {name}))')
        types = ['int']
    meta = {'order_cols': [], 'total_order': False, 'limit': False, 'tags': sorted(tags), 'places': ['int1', 'int2'],
            'tables': sorted({f'{a[0]}.{a[1]}', f'{b[0]}.{b[1]}'}), 'types': types}
    return {'sql': sql, 'meta': meta}


@st.composite
def star_over_subselect(draw):
    """`SELECT [DISTINCT] * FROM (<join over two integrations>) AS q [WHERE ...] [LIMIT n]`: the outer query adds only one
    clause to the sub-select's result (the planner decides per clause whether an outer step is needed)."""
    a, b = draw(st.sampled_from([('int1', 't1'), ('int1', 't2')])), draw(st.sampled_from([('int2', 't3'), ('int2', 't4'), ('int2', 't1')]))
    ca = draw(st.sampled_from([c for c, t in model.SCHEMA[a[1]] if t == 'int']))
    cb = draw(st.sampled_from([c for c, t in model.SCHEMA[b[1]] if t == 'int']))
    jk = draw(st.sampled_from(['JOIN', 'LEFT JOIN', 'INNER JOIN']))
    inner = f'SELECT x1.{ca} AS c0, x2.{cb} AS c1 FROM {a[0]}.{a[1]} AS x1 {jk} {b[0]}.{b[1]} AS x2 ON (x1.a = x2.a)'
    extra = draw(st.sampled_from(['distinct', 'distinct', 'where', 'limit', 'none']))
    tags = {'shape:star-over-subselect', 'sub:from', 'star', 'join:' + jk, 'outer:' + extra}
    sql = f'SELECT {"DISTINCT " if extra == "distinct" else ""}* FROM ({inner}) AS q1'
    meta = {'order_cols': [], 'total_order': False, 'limit': False}
    if extra == 'where':
        sql += f' WHERE (q1.c0 {draw(st.sampled_from([">", "<=", "="]))} {draw(st.integers(0, 2))})'
    elif extra == 'limit':
        meta['sql_unlimited'] = sql
        meta['limit'] = True
        sql += f' LIMIT {draw(st.integers(1, 3))}'
        tags |= {'limit', 'limit:unordered'}
    if extra == 'distinct':
        tags.add('distinct')
    meta.update({'tags': sorted(tags), 'places': sorted({a[0], b[0]}), 'tables': sorted({f'{a[0]}.{a[1]}', f'{b[0]}.{b[1]}'}),
                 'types': ['int', 'int']})
    return {'sql': sql, 'meta': meta}


@st.composite
def cases(draw):
    if draw(st.integers(0, 15)) == 0:
        c = draw(star_over_subselect())
        c['data'] = draw(model.table_data(DATA_TABLES))
        c['catalog'] = draw(st.sampled_from(sorted(CATALOGS)))
        return c
    if draw(st.integers(0, 23)) == 0:
        c = draw(nested_cte_shapes())
        c['data'] = draw(model.table_data(DATA_TABLES, max_rows=4, min_rows=1))
        c['catalog'] = draw(st.sampled_from(sorted(CATALOGS)))
        return c
    if draw(st.integers(0, 11)) == 0:
        c = draw(outer_chain_shapes())
        c['data'] = draw(model.table_data(DATA_TABLES, max_rows=4, min_rows=1))
        c['catalog'] = draw(st.sampled_from(sorted(CATALOGS)))
        return c
    if draw(st.integers(0, 7)) == 0:
        c = draw(limit_shapes())
        # more rows than LIMIT asks for: a fetch that is cut short has to show in the result
        c['data'] = draw(model.table_data(DATA_TABLES, max_rows=6, min_rows=2))
        c['catalog'] = draw(st.sampled_from(sorted(CATALOGS)))
        return c
    c = draw(model.queries(CFG))
    c['data'] = draw(model.table_data(DATA_TABLES))
    c['catalog'] = draw(st.sampled_from(sorted(CATALOGS)))
    return c


def run_shard(col, k, nshards, tier, seed):
    hyp.explore(col, cases(), judge, N[tier], seed, shrink_key=lambda r: (r['kind'], r['site'][:40]))
