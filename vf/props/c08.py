"""C08 — executing a federated plan returns what the original query returns."""
import copy, sqlite3
from hypothesis import strategies as st

from vf import findings, hyp
from vf.gens import model, c08_shapes
from vf.oracles import engine, planexec
from vf.oracles.c08_strict import StrictInterp, UnknownQualifier
from vf.props.c02 import site_of

PROPERTY = 'C08'
RULE = ('cases = (predictor-free query from the typed SQL model over tables living in two integrations '
        '(int1: t1,t2; int2: t3,t4), table contents over tiny domains, catalog shape); ground truth = the original text '
        'on one sqlite3 engine with both integrations ATTACH-ed; observed = the emitted plan steps carried out by the '
        'reference interpreter (fetch / sub-select / join / query / union ... by their documented meaning) on sqlite3; '
        'compared as multisets, order-aware under ORDER BY, validity predicate under LIMIT without a total order; '
        'non-trivial = >= 2 fetches from different integrations and a non-empty ground truth or a non-empty join; '
        'dedicated shapes next to the model: LIMIT chains, outer-join chains, nested CTEs, star over a sub-select, selects '
        'from an api-type integration (catalog api-int2), sub-selects in GROUP BY / HAVING / ORDER BY / ON, IN (set '
        'operation), correlated sub-selects over the other integration, CTE names (case, scope; catalog default-int1), '
        'ORDER BY item forms (position / column / alias / expression / function x source x target forms x LIMIT: random '
        'family and a bounded-exhaustive list, vf/gens/c08_shapes.py), a CTE joined under an alias / twice / without alias; '
        'in JoinStep / QueryStep a column qualifier has to be the name of a frame of the joined result (fetch: alias or '
        'table name, SubSelectStep: table_name), otherwise the step is reported as not executable and the rows are judged '
        'under the lenient reading (frame found by the column name); '
        'before a plan is interpreted, steps that cannot be carried out whatever the data are reported '
        '(static_defects: a fetch that names a table or alias the integration does not have, a set operation over '
        'results, a column that the fetched select list does not return)')
ASSUMPTIONS = ['step semantics are read from the docstrings of planner/steps.py and from how the planner\'s own tests '
               'use the steps; the real executor lives in another repository',
               'sqlite3 is the reference engine on both sides; data domains are tiny by design',
               'column references are always qualified by alias or table name (resolution of bare names over a joined '
               'result is the executor\'s business)']
FLOORS = {'quick': {'__nontrivial__': 500, 'multi-place': 3000, 'judged': 4000, 'plan:fetch:semijoin-filter': 500,
                    'plan:joinstep:FULL JOIN': 200, 'plan:joinstep:LEFT JOIN': 200, 'tag:limit': 300, 'tag:group': 300,
                    'tag:sub:in': 100, 'tag:setop:UNION': 50, 'catalog:api-int2': 150, 'tag:shape:clause-subselect': 60,
                    'tag:shape:in-setop': 50, 'tag:shape:correlated': 30, 'tag:shape:cte-name': 30,
                    'tag:shape:order-item-exhaustive': 5000, 'tag:order-item:position': 900, 'plan:apifetch:order': 170,
                    'tag:order-src:api-in': 12, 'tag:shape:cte-alias': 35},
          'thorough': {'__nontrivial__': 6000, 'multi-place': 20000, 'judged': 20000,
                       'tag:shape:order-item-exhaustive': 5000, 'tag:order-item:position': 900, 'tag:shape:cte-alias': 35}}
N = {'quick': 900, 'thorough': 8000}
PLACES = {'t1': 'int1', 't2': 'int1', 't3': 'int2', 't4': 'int2'}
CFG = model.Cfg(places=PLACES, always_alias=True, correlated=False, cte=True, window=False, star=True,
                limit_needs_total_order=False, subselect_target=True, extra_places={'t1': ['int2']},
                order_by_source=True)
DATA_TABLES = sorted(model.SCHEMA) + ['int2.t1']
CATALOGS = {
    'names': dict(integrations=['int1', 'int2'], default_namespace='mindsdb'),
    'dicts': dict(integrations=[{'name': 'int1', 'class_type': 'sql', 'type': 'data'},
                                {'name': 'int2', 'class_type': 'sql', 'type': 'data'},
                                {'name': 'proj', 'class_type': 'project', 'type': 'project'}],
                  default_namespace='mindsdb'),
    'default-int1': dict(integrations=['int1', 'int2'], default_namespace='int1'),
}
# int2 is an api-type integration (selects from it are split into a fetch and a select over the fetched rows): used by
# api_select_shapes only
API_CATALOGS = {
    'api-int2': dict(integrations=[{'name': 'int1', 'class_type': 'sql', 'type': 'data'},
                                   {'name': 'int2', 'class_type': 'api', 'type': 'data'}],
                     default_namespace='mindsdb'),
}
ALL_CATALOGS = dict(CATALOGS, **API_CATALOGS)
TABLES_OF = {'int1': {'t1', 't2'}, 'int2': {'t1', 't3', 't4'},       # = PLACES + the extra int2.t1 of DATA_TABLES
             'mindsdb': set()}                                       # the default namespace of most catalogs holds no table


def integration_names(cat):
    return [(i['name'] if isinstance(i, dict) else i).lower() for i in ALL_CATALOGS[cat]['integrations']]


def api_integrations(cat):
    return [i['name'].lower() for i in ALL_CATALOGS[cat]['integrations'] if isinstance(i, dict) and i.get('class_type') == 'api']


def prepare(tier):
    import mindsdb_sql.planner  # noqa


def atom_key(n):
    """Qualifier-free image of a comparison atom: (op, column names / constants in order)."""
    from mindsdb_sql.parser import ast
    if isinstance(n, (ast.BinaryOperation, ast.BetweenOperation)):
        parts = []
        for a in n.args:
            if isinstance(a, ast.Identifier):
                parts.append(('col', str(a.parts[-1]).lower()))
            elif isinstance(a, ast.Constant):
                parts.append(('const', repr(a.value)))
            elif isinstance(a, (ast.Select, ast.Union, ast.Intersect, ast.Except, ast.Parameter)):
                parts.append(('subquery', ''))      # a planned sub-select is replaced by Parameter(Result)
            elif isinstance(a, ast.Tuple):
                parts.append(('tuple', len(a.items)))
            else:
                parts.append(('other', type(a).__name__))
        return (n.op, tuple(parts))
    return None


def atom_origins(tree):
    """{atom_key: set of contexts} for every comparison / arithmetic atom of all WHERE and ON clauses of the
    original statement; context = 'top' or 'under-not' / 'under-or' / 'under-case' / 'under-func' / 'under-arith' /
    'under-cmp', prefixed with 'on:<JOIN TYPE>:' for join conditions."""
    from mindsdb_sql.parser import ast
    from vf.oracles.struct import walk
    out = {}

    def rec(n, ctx, prefix):
        if n is None:
            return
        if isinstance(n, ast.BinaryOperation) and n.op == 'and':
            for a in n.args:
                rec(a, ctx, prefix)
            return
        k = atom_key(n)
        if k is not None:
            out.setdefault(k, set()).add(prefix + ctx)
        if isinstance(n, ast.BinaryOperation) and n.op == 'or':
            sub = 'under-or'
        elif isinstance(n, ast.UnaryOperation) and n.op == 'not':
            sub = 'under-not'
        elif isinstance(n, ast.Case):
            sub = 'under-case'
            for c, r in n.rules:
                rec(c, sub, prefix); rec(r, sub, prefix)
            rec(n.arg, sub, prefix); rec(n.default, sub, prefix)
            return
        elif isinstance(n, ast.Function):
            sub = 'under-func'
        elif isinstance(n, ast.BinaryOperation) and n.op in ('+', '-', '*', '/', '%', '||'):
            sub = 'under-arith'
        elif isinstance(n, (ast.BinaryOperation, ast.BetweenOperation, ast.UnaryOperation, ast.TypeCast)):
            sub = 'under-cmp'
        else:
            return
        if ctx not in ('top',):
            sub = ctx if ctx != 'under-cmp' else sub      # the outermost non-conjunctive context wins
        for a in (getattr(n, 'args', None) or ([n.arg] if isinstance(n, ast.TypeCast) else [])):
            rec(a, sub, prefix)

    for n in walk(tree):
        if isinstance(n, ast.Select) and n.where is not None:
            rec(n.where, 'top', '')
        if isinstance(n, ast.Join) and n.condition is not None:
            rec(n.condition, 'top', 'on:' + (n.join_type or 'JOIN').upper() + ':')
    return out


def plan_features(plan, tree):
    """Tags describing the plan mechanisms that known findings are about (computed from the plan, not the text)."""
    from mindsdb_sql.planner import steps as S
    from mindsdb_sql.parser import ast
    from vf.oracles.struct import walk
    out = set()
    fetches = [s for s in plan.steps if type(s).__name__ == 'FetchDataframeStep']
    joins = [s for s in plan.steps if type(s).__name__ == 'JoinStep']
    for st_ in plan.steps:
        if type(st_).__name__ == 'SubSelectStep' and st_.table_name is not None and joins \
                and getattr(st_.query, 'where', None) is not None:
            if any(is_semijoin_filter(n, plan) for n in walk(st_.query.where)):
                out.add('fetch:semijoin-filter')
    for f in fetches:
        q = f.query
        if q is None or type(q).__name__ != 'Select':
            continue
        if joins and (q.limit is not None or q.offset is not None):
            out.add('fetch:limit-under-join')
        if joins and q.order_by:
            out.add('fetch:order-under-join')
        for n in walk(q.where) if q.where is not None else ():
            if is_semijoin_filter(n, plan):
                out.add('fetch:semijoin-filter')
            if isinstance(n, ast.BinaryOperation) and n.op in ('is', 'is not'):
                out.add('fetch:is-null-filter')
        if q.where is not None:
            out.add('fetch:filter')
    origins = atom_origins(tree)
    for st_ in plan.steps:
        if type(st_).__name__ in ('FetchDataframeStep', 'SubSelectStep') and type(st_.query).__name__ == 'Select' \
                and st_.query.where is not None and joins \
                and len(st_.query.targets) == 1 and type(st_.query.targets[0]).__name__ == 'Star':
            stack = [st_.query.where]
            while stack:
                n = stack.pop()
                if isinstance(n, ast.BinaryOperation) and n.op == 'and':
                    stack += list(n.args)
                    continue
                if is_semijoin_filter(n, plan):
                    continue
                if isinstance(n, ast.BinaryOperation) and n.op in ('+', '-', '*', '/', '%', '||'):
                    out.add('pushed:arith-as-filter')
                pre = 'pushed:' if type(st_).__name__ == 'FetchDataframeStep' else 'pushedsub:'
                ctxs = origins.get(atom_key(n))
                if not ctxs:
                    out.add(pre + 'unknown-origin')
                else:
                    # a pushed atom that also occurs as a top-level conjunct is attributed to that occurrence
                    tops = [c for c in ctxs if c == 'top']
                    for c in (tops or sorted(ctxs)):
                        out.add(pre + c)
    for j in joins:
        out.add('joinstep:' + (j.query.join_type or 'JOIN').upper())
    return sorted(out)


def is_semijoin_filter(n, plan):
    """`col IN :result` generated by the join planner: the parameter refers to a `SELECT DISTINCT col` sub-select
    step over another table's fetch (a user-written IN (sub-select) refers to a planned query instead)."""
    from mindsdb_sql.parser import ast
    from mindsdb_sql.planner.step_result import Result
    if not (isinstance(n, ast.BinaryOperation) and n.op == 'in' and isinstance(n.args[1], ast.Parameter)
            and isinstance(n.args[1].value, Result)):
        return False
    for s in plan.steps:
        if s.step_num == n.args[1].value.step_num:
            q = getattr(s, 'query', None)
            return (type(s).__name__ == 'SubSelectStep' and s.table_name is None and q is not None and q.distinct
                    and len(q.targets) == 1 and q.where is None)
    return False


def api_features(plan, cat):
    """What the fetch from an api-type integration was given besides WHERE (the select over the fetched rows applies the
    clauses of the query again)."""
    out = set()
    apis = api_integrations(cat)
    for s in plan.steps:
        if type(s).__name__ == 'FetchDataframeStep' and s.integration in apis and type(s.query).__name__ == 'Select':
            q = s.query
            if not (len(q.targets) == 1 and type(q.targets[0]).__name__ == 'Star'):
                out.add('apifetch:targets')
            if q.limit is not None:
                out.add('apifetch:limit')
            if q.order_by:
                out.add('apifetch:order')
    return out


def select_tables(sel):
    """Identifiers in table position of one Select (leaves of its FROM; nested selects are not entered)."""
    from mindsdb_sql.parser import ast
    out, stack = [], [sel.from_table]
    while stack:
        n = stack.pop()
        if isinstance(n, ast.Join):
            stack += [n.right, n.left]
        elif isinstance(n, ast.Identifier):
            out.append(n)
    return out


def cte_aliases(tree):
    """Aliases under which the statement reads a common table expression (`FROM w AS x` -> x), lower case."""
    from mindsdb_sql.parser import ast
    from vf.oracles.struct import walk
    nodes = list(walk(tree))
    names = {str(c.name.parts[-1]).lower() for n in nodes if isinstance(n, (ast.Select, ast.Union, ast.Intersect, ast.Except))
             for c in (getattr(n, 'cte', None) or [])}
    out = set()
    for n in nodes:
        if isinstance(n, ast.Select):
            for t in select_tables(n):
                if t.alias is not None and len(t.parts) == 1 and str(t.parts[0]).lower() in names:
                    out.add(str(t.alias.parts[-1]).lower())
    return out


def static_defects(plan, orig, cat):
    """Steps that cannot be carried out by their documented meaning, whatever the data: [(site, detail)].
    - a fetch from integration I that names a table of another integration (it sees the tables of I only);
    - a fetch from I that names a table which I does not hold (and which is no CTE of the fetched query);
    - a fetch whose query refers to `q.col` where q is no table or alias of that query (a reference to the enclosing
      query of a sub-select that was planned on its own);
    - a set operation whose operand is a Parameter (results are filled in as values, not as queries);
    - a join condition that uses a bare name that the statement does not contain;
    - a sub-select step over a fetch with an explicit select list that uses a column which is not in that list."""
    from mindsdb_sql.parser import ast
    from vf.oracles.struct import walk
    ints = integration_names(cat)
    out = []
    for s in plan.steps:
        cn = type(s).__name__
        q = getattr(s, 'query', None)
        if q is None or not isinstance(q, ast.ASTNode):
            continue
        nodes = list(walk(q))
        for n in nodes:
            if isinstance(n, (ast.Union, ast.Intersect, ast.Except)) and \
                    (isinstance(n.left, ast.Parameter) or isinstance(n.right, ast.Parameter)):
                out.append(('setop-over-parameters', f'step {s.step_num} ({cn}): operand of {type(n).__name__} is a Parameter'))
        if cn == 'FetchDataframeStep' and isinstance(q, (ast.Select, ast.Union, ast.Intersect, ast.Except)):
            tabs, names, ctes = [], set(), set()
            for n in nodes:
                if isinstance(n, (ast.Select, ast.Union, ast.Intersect, ast.Except)):
                    for c in (getattr(n, 'cte', None) or []):
                        names.add(str(c.name.parts[-1]).lower())
                        ctes.add(str(c.name.parts[-1]).lower())
                if isinstance(n, ast.Select):
                    tabs += select_tables(n)
                    if isinstance(n.from_table, ast.Select) and n.from_table.alias is not None:
                        names.add(str(n.from_table.alias.parts[-1]).lower())
                if isinstance(n, ast.Join):
                    for side in (n.left, n.right):
                        if isinstance(side, ast.Select) and side.alias is not None:
                            names.add(str(side.alias.parts[-1]).lower())
            tab_ids = {id(t) for t in tabs}

            seen_ids = set()

            def missing(n, scope):
                # bare table names that are neither a CTE in scope (a WITH belongs to its select) nor a table of I
                if id(n) in seen_ids:
                    return
                if isinstance(n, (list, tuple, ast.ASTNode)):
                    seen_ids.add(id(n))
                if isinstance(n, (list, tuple)):
                    for x in n:
                        missing(x, scope)
                elif isinstance(n, ast.ASTNode):
                    if isinstance(n, (ast.Select, ast.Union, ast.Intersect, ast.Except)) and getattr(n, 'cte', None):
                        scope = scope | {str(c.name.parts[-1]).lower() for c in n.cte}
                    if isinstance(n, (ast.Union, ast.Intersect, ast.Except)):
                        # `WITH c AS (..) SELECT .. UNION SELECT ..`: the parser keeps the list on the first select,
                        # in the text it stands before the whole compound
                        first = n.left
                        while isinstance(first, (ast.Union, ast.Intersect, ast.Except)):
                            first = first.left
                        if getattr(first, 'cte', None) and not getattr(first, 'parentheses', False):
                            scope = scope | {str(c.name.parts[-1]).lower() for c in first.cte}
                    if isinstance(n, ast.Select):
                        for t in select_tables(n):
                            if len(t.parts) == 1 and isinstance(t.parts[0], str) and t.parts[0].lower() not in scope \
                                    and t.parts[0].lower() not in TABLES_OF[s.integration]:
                                out.append(('fetch-reads-missing-table',
                                            f'step {s.step_num}: fetch from {s.integration} names {t.parts[0]}, which is no table of it'))
                    for k, v in vars(n).items():
                        if k != 'alias' and not k.startswith('_'):
                            missing(v, scope)
            if s.integration in TABLES_OF:
                missing(q, frozenset())
            for t in tabs:
                names.add(str(t.parts[-1]).lower())
                if t.alias is not None:
                    names.add(str(t.alias.parts[-1]).lower())
                if len(t.parts) >= 2 and str(t.parts[0]).lower() in ints and str(t.parts[0]).lower() != s.integration:
                    out.append(('fetch-reads-other-integration',
                                f'step {s.step_num}: fetch from {s.integration} names {".".join(map(str, t.parts))}'))
            for n in nodes:
                if isinstance(n, ast.Identifier) and id(n) not in tab_ids and len(n.parts) >= 2 \
                        and isinstance(n.parts[-2], str) and n.parts[-2].lower() not in names:
                    out.append(('fetch-outer-reference',
                                f'step {s.step_num}: fetch from {s.integration} refers to {".".join(map(str, n.parts))}'))
        if cn == 'JoinStep' and isinstance(q, ast.Join) and q.condition is not None:
            known = {str(n.parts[0]).lower() for n in walk(orig) if isinstance(n, ast.Identifier) and len(n.parts) == 1
                     and isinstance(n.parts[0], str)}
            for n in walk(q.condition):
                if isinstance(n, ast.Identifier) and len(n.parts) == 1 and isinstance(n.parts[0], str) \
                        and n.parts[0].lower() not in known:
                    out.append(('join-condition-invented-name',
                                f'step {s.step_num}: join condition uses a bare name which is not in the statement'))
    fetched = {}        # step_num -> output names of a fetch with an explicit select list
    for s in plan.steps:
        q = getattr(s, 'query', None)
        if type(s).__name__ == 'FetchDataframeStep' and isinstance(q, ast.Select):
            names = []
            for t in q.targets:
                if t.alias is not None:
                    names.append(str(t.alias.parts[-1]).lower())
                elif isinstance(t, ast.Identifier) and isinstance(t.parts[-1], str):
                    names.append(t.parts[-1].lower())
                else:
                    names = None        # a star or an unnamed expression: the names are the engine's business
                    break
            if names is not None:
                fetched[s.step_num] = set(names)
        if type(s).__name__ == 'SubSelectStep' and isinstance(q, ast.Select) \
                and getattr(s.dataframe, 'step_num', None) in fetched \
                and not any(isinstance(n, (ast.Select, ast.Union, ast.Intersect, ast.Except)) and n is not q for n in walk(q)):
            have = fetched[s.dataframe.step_num]
            own = {str(t.alias.parts[-1]).lower() for t in q.targets if t.alias is not None}
            skip = {id(t.alias) for t in walk(q) if isinstance(t, ast.ASTNode) and getattr(t, 'alias', None) is not None}
            for part, ok in ((q.targets, have), (q.where, have), (q.group_by, have | own), (q.having, have | own),
                             (q.order_by, have | own)):
                for n in walk(part) if part is not None else ():
                    if isinstance(n, ast.Identifier) and id(n) not in skip and isinstance(n.parts[-1], str) \
                            and n.parts[-1].lower() not in ok:
                        out.append(('subselect-column-not-fetched',
                                    f'step {s.step_num}: uses {".".join(map(str, n.parts))}, step {s.dataframe.step_num} returns {sorted(have)}'))
    seen, uniq = set(), []
    for site, d in out:
        if site not in seen:
            seen.add(site)
            uniq.append((site, d))
    return uniq


def neutralise(plan, what, orig=None):
    """Copy of the plan with pushed-down mechanisms removed from the per-table fetches (the outer query / join steps
    still apply WHERE, ON, ORDER BY and LIMIT, so a correct plan keeps its meaning)."""
    from mindsdb_sql.parser import ast
    p = copy.deepcopy(plan)
    has_join = any(type(s).__name__ == 'JoinStep' for s in p.steps)
    if 'limit' in what and orig is not None and type(orig).__name__ == 'Select' and orig.offset is not None:
        # the planner *moves* OFFSET into the first fetch (the outer query loses it): put it back
        last = p.steps[-1]
        if type(last).__name__ == 'QueryStep' and last.query.offset is None:
            last.query.offset = copy.deepcopy(orig.offset)
    for s in p.steps:
        if type(s).__name__ == 'SubSelectStep' and has_join and s.table_name is not None \
                and ('filters' in what or 'semijoin' in what):
            q = s.query
            if len(q.targets) == 1 and type(q.targets[0]).__name__ == 'Star' and not q.group_by and not q.order_by \
                    and q.limit is None and not q.distinct:
                # the `SELECT * WHERE <pushed conjuncts>` wrapper of a joined sub-select / CTE
                if 'filters' in what:
                    q.where = None
                elif q.where is not None:
                    q.where = strip_semijoin(q.where, plan)
            continue
        if type(s).__name__ != 'FetchDataframeStep' or type(s.query).__name__ != 'Select' or not has_join:
            continue
        q = s.query
        star_fetch = len(q.targets) == 1 and type(q.targets[0]).__name__ == 'Star'
        if not star_fetch:
            continue          # only the per-table `SELECT * FROM t` fetches of the join planner
        if 'limit' in what:
            q.limit = None; q.offset = None; q.order_by = None
        if 'filters' in what:
            q.where = None
        elif 'semijoin' in what and q.where is not None:
            q.where = strip_semijoin(q.where, plan)
    return p


def strip_semijoin(n, plan):
    from mindsdb_sql.parser import ast
    if isinstance(n, ast.BinaryOperation) and n.op == 'and':
        a, b = strip_semijoin(n.args[0], plan), strip_semijoin(n.args[1], plan)
        if a is None:
            return b
        if b is None:
            return a
        return ast.BinaryOperation('and', args=[a, b])
    if is_semijoin_filter(n, plan):
        return None
    return n


def verdict(truth, got, unlimited, meta):
    oc = meta.get('order_cols') or []
    if unlimited is not None:
        ms_u, ms_g = engine.multiset(unlimited), engine.multiset(got)
        if len(got) != len(truth):
            return f'wrong cardinality under LIMIT: {len(got)} vs {len(truth)}: {got[:6]} vs {truth[:6]}'
        if any(ms_g[r] > ms_u[r] for r in ms_g):
            return f'rows not in the unlimited result: {got[:6]} (unlimited {unlimited[:8]})'
        if oc:
            ka = [tuple(r[i] for i in oc) for r in truth]
            kb = [tuple(r[i] for i in oc) for r in got]
            if ka != kb:
                return f'sort keys differ under LIMIT: {ka[:6]} vs {kb[:6]}'
        return None
    if oc and meta.get('total_order'):
        return engine.compare(truth, got, True)
    d = engine.compare(truth, got, False)
    if d is None and oc:
        ka = [tuple(r[i] for i in oc) for r in truth]
        kb = [tuple(r[i] for i in oc) for r in got]
        if ka != kb:
            d = f'sort keys differ: {ka[:6]} vs {kb[:6]}'
    return d


def judge(case, col):
    from mindsdb_sql import parse_sql
    from mindsdb_sql.planner import plan_query
    from mindsdb_sql.exceptions import PlanningException
    sql, data, meta, cat = case['sql'], case['data'], case['meta'], case['catalog']
    tags = list(meta.get('tags', []))
    cfg = {'catalog': cat}
    classes = ['catalog:' + cat] + ['tag:' + t for t in tags]
    tables = model.engine_tables(data, PLACES)
    G = engine.connect(tables, attach=['int1', 'int2'])
    try:
        _, truth = engine.run(G, sql)
        unlimited = None
        if meta.get('limit') and not meta.get('total_order') and meta.get('sql_unlimited'):
            _, unlimited = engine.run(G, meta['sql_unlimited'])
    except sqlite3.Error as e:
        col.excluded('ground truth not executable: ' + str(e)[:50])
        return []
    try:
        tree = parse_sql(sql, 'mindsdb')
    except Exception as e:
        col.excluded('not parsed: ' + site_of(e))
        return []
    orig = copy.deepcopy(tree)
    try:
        plan = plan_query(tree, **ALL_CATALOGS[cat])
    except (PlanningException, NotImplementedError) as e:
        import os
        if os.environ.get('VF_INTERP_AS_FAILURE'):
            return [findings.record('refused', str(e)[:30], tags, cfg, str(e), sql)]
        col.excluded('planner refuses: ' + str(e)[:40])
        col.case((cat, sql), False, classes + ['refused'])
        return []
    except Exception as e:
        col.excluded('planner internal error (C09): ' + site_of(e))
        return []
    places = set(meta.get('places', []))
    if len(places) >= 2:
        classes.append('multi-place')
    defects = static_defects(plan, orig, cat)
    if defects:
        pf = sorted(set(plan_features(plan, orig)) | api_features(plan, cat))
        out = [findings.record('step-not-executable', site, sorted(set(tags) | set(pf)), cfg,
                               f'{d}; steps: {[type(s).__name__ for s in plan.steps]}', sql) for site, d in defects]
        col.case((cat, sql), False, classes + ['step-not-executable'] + ['defect:' + site for site, _ in defects])
        return out
    conns = {}

    def fetch_conn(integ):
        if integ not in conns:
            sub = {(None, t): v for (db, t), v in tables.items() if db == integ}
            if not sub:
                raise planexec.InterpError(f'fetch from unknown integration {integ!r}')
            conns[integ] = engine.connect(sub)
        return conns[integ]

    pre = []
    it = StrictInterp(fetch_conn)
    try:
        rel = it.run(plan)
    except planexec.NestedQuery as e:
        out = [findings.record('step-not-executable', 'nested-query-in-step', sorted(set(tags)), cfg,
                               f'{e}; steps: {[type(s).__name__ for s in plan.steps]}', sql)]
        col.case((cat, sql), False, classes + ['step-not-executable'])
        return out
    except UnknownQualifier as e:
        # a JoinStep / QueryStep addresses a frame by a name that no result of the plan was given
        feat = 'unknown-qualifier:' + ('alias-of-cte' if e.qualifier in cte_aliases(orig) else 'other')
        pre = [findings.record('step-not-executable', 'qualifier-names-no-frame', sorted(set(tags) | {feat}), cfg,
                               f'{e}; steps: {[type(s).__name__ for s in plan.steps]}', sql)]
        classes += ['step-not-executable', 'defect:qualifier-names-no-frame', feat]
        # the rows are judged all the same, under the lenient reading (the frame is found by the column name where
        # that is unambiguous), so that this defect does not hide what else the plan does
        it = planexec.Interp(fetch_conn)
        try:
            rel = it.run(plan)
        except (planexec.InterpError, RecursionError):
            col.case((cat, sql), False, classes)
            return pre
    except planexec.InterpError as e:
        import os
        if str(e).startswith('fetch failed on ') and 'no such column' in str(e):
            # the query sent to an integration names a column that none of its tables in the query has
            pf = sorted(set(plan_features(plan, orig)) | api_features(plan, cat))
            out = [findings.record('step-not-executable', 'fetch-names-missing-column', sorted(set(tags) | set(pf)), cfg,
                                   f'{e}; steps: {[type(s).__name__ for s in plan.steps]}', sql)]
            col.case((cat, sql), False, classes + ['step-not-executable', 'defect:fetch-names-missing-column'])
            return out
        if os.environ.get('VF_INTERP_AS_FAILURE'):
            return [findings.record('interp-error', str(e)[:30], tags, cfg, f'{e}; steps: {[type(s).__name__ for s in plan.steps]}', sql)]
        col.excluded('interpreter: ' + str(e)[:60])
        col.case((cat, sql), False, classes + ['not-interpreted'])
        return []
    except RecursionError:
        col.excluded('recursion')
        return []
    got = rel.rows
    pf = sorted(set(plan_features(plan, orig)) | api_features(plan, cat))
    classes += ['plan:' + f for f in pf] + ['judged']
    out = list(pre)
    d = verdict(truth, got, unlimited, meta)
    if d:
        # which pushed-down mechanism is responsible?  re-interpret the plan with mechanisms neutralised
        needs = 'unexplained'
        for what in (('semijoin',), ('limit',), ('semijoin', 'limit'), ('filters',), ('filters', 'limit')):
            try:
                rel2 = type(it)(fetch_conn).run(neutralise(plan, what, orig))
            except planexec.InterpError:
                continue
            if verdict(truth, rel2.rows, unlimited, meta) is None:
                needs = '+'.join(what)
                break
        if needs == 'unexplained' and any(f.startswith('apifetch:') for f in pf):
            needs = 'api-fetch'
        classes.append('mismatch-explained-by:' + needs)
        out.append(findings.record('rows-differ', 'pushdown:' + needs, sorted(set(tags) | set(pf)), cfg,
                                   f'{d}; steps: {[type(s).__name__ for s in plan.steps]}; log: {it.log[-4:]}', sql))
    nfetch = len({s.integration for s in plan.steps if type(s).__name__ == 'FetchDataframeStep'})
    col.case((cat, sql, str(data)), nfetch >= 2 and len(truth) >= 1, classes,
             {'sql': sql, 'catalog': cat, 'steps': [type(s).__name__ for s in plan.steps], 'rows': len(truth)})
    return out


ALL_TABLES = [('int1', 't1'), ('int2', 't1'), ('int1', 't2'), ('int2', 't3'), ('int2', 't4')]


@st.composite
def limit_shapes(draw):
    """Join chains with ORDER BY on one table's (qualified) column and LIMIT [OFFSET]: the shapes whose ORDER BY /
    LIMIT the join planner may push into the first fetch.  Same-named tables in different integrations are likely."""
    n = draw(st.integers(2, 3))
    tabs = [draw(st.sampled_from(ALL_TABLES)) for _ in range(n)]
    als = [f'x{i + 1}' for i in range(n)]
    tags = {'shape:limit'}
    if len({t for _, t in tabs}) < len(tabs):
        tags.add('table:same-name-other-place')
    frm = f'{tabs[0][0]}.{tabs[0][1]} AS {als[0]}'
    for i in range(1, n):
        jk = draw(st.sampled_from(['LEFT JOIN', 'LEFT JOIN', 'LEFT JOIN', 'JOIN', 'LEFT OUTER JOIN']))
        tags.add('join:' + jk)
        li = draw(st.integers(0, i - 1))
        frm += f' {jk} {tabs[i][0]}.{tabs[i][1]} AS {als[i]} ON ({als[li]}.a = {als[i]}.a)'
    oi = draw(st.sampled_from([0] + list(range(n))))     # the first table's column more often: that is what gets pushed
    ocol = draw(st.sampled_from([c for c, t in model.SCHEMA[tabs[oi][1]] if t == 'int']))
    tcols = [f'{als[oi]}.{ocol} AS c0']
    for i in range(n):
        c = draw(st.sampled_from([c for c, t in model.SCHEMA[tabs[i][1]] if t == 'int']))
        tcols.append(f'{als[i]}.{c} AS c{i + 1}')
    where = ''
    if draw(st.integers(0, 2)) == 0:
        wi = draw(st.integers(0, n - 1))
        where = f' WHERE ({als[wi]}.a {draw(st.sampled_from([">", "<=", "!="]))} {draw(st.integers(0, 2))})'
        tags.add('where')
    dr = draw(st.sampled_from(['', ' DESC', ' ASC']))
    base = f'SELECT {", ".join(tcols)} FROM {frm}{where} ORDER BY {als[oi]}.{ocol}{dr}'
    lim = f' LIMIT {draw(st.integers(1, 3))}'
    if draw(st.integers(0, 3)) == 0:
        lim += f' OFFSET {draw(st.integers(0, 2))}'
        tags.add('offset')
    tags |= {'order', 'order:source-column', 'limit', 'limit:partial-order'}
    meta = {'order_cols': [0], 'total_order': False, 'limit': True, 'sql_unlimited': base, 'tags': sorted(tags),
            'places': sorted({q for q, _ in tabs}), 'tables': sorted({f'{q}.{t}' for q, t in tabs}), 'types': ['int'] * (n + 1)}
    return {'sql': base + lim, 'meta': meta}


@st.composite
def outer_chain_shapes(draw):
    """Chains of three or four tables with a RIGHT / FULL join *behind* the first join and a WHERE conjunct (null test or
    comparison) on one of the earlier tables: whether a filter may go into a table's fetch depends on every later join
    that can NULL-fill that table, not only on its neighbour."""
    n = draw(st.integers(2, 4))
    tabs = [draw(st.sampled_from(ALL_TABLES)) for _ in range(n)]
    als = [f'x{i + 1}' for i in range(n)]
    tags = {'shape:outer-chain'}
    frm = f'{tabs[0][0]}.{tabs[0][1]} AS {als[0]}'
    late = draw(st.integers(min(2, n - 1), n - 1))     # position of the join that is certainly an outer join
    for i in range(1, n):
        if i == late:
            jk = draw(st.sampled_from(['RIGHT JOIN', 'FULL JOIN', 'FULL OUTER JOIN', 'LEFT JOIN', 'LEFT OUTER JOIN']))
        else:
            jk = draw(st.sampled_from(['JOIN', 'LEFT JOIN', 'INNER JOIN', 'RIGHT JOIN', 'FULL JOIN']))
        tags.add('join:' + jk)
        li = draw(st.integers(0, i - 1))
        frm += f' {jk} {tabs[i][0]}.{tabs[i][1]} AS {als[i]} ON ({als[li]}.a = {als[i]}.a)'
    tcols = []
    for i in range(n):
        c = draw(st.sampled_from([c for c, t in model.SCHEMA[tabs[i][1]] if t == 'int']))
        tcols.append(f'{als[i]}.{c} AS c{i}')
    conj = []
    for _ in range(draw(st.integers(1, 2))):
        wi = draw(st.integers(0, n - 1))
        wc = draw(st.sampled_from([c for c, t in model.SCHEMA[tabs[wi][1]] if t == 'int']))
        kind = draw(st.sampled_from(['is-null', 'is-null', 'is-not-null', 'cmp', 'truth', 'truth']))
        if kind == 'truth':
            # NULL passes IS NOT TRUE / IS NOT FALSE: as dangerous below an outer join as IS NULL
            conj.append(f'({als[wi]}.{wc} IS {draw(st.sampled_from(["NOT ", "NOT ", ""]))}{draw(st.sampled_from(["TRUE", "FALSE"]))})')
            tags.add('istruth')
        elif kind == 'cmp':
            conj.append(f'({als[wi]}.{wc} {draw(st.sampled_from(["=", ">", "<=", "!="]))} {draw(st.integers(0, 2))})')
        else:
            conj.append(f'({als[wi]}.{wc} IS {"NOT " if kind == "is-not-null" else ""}NULL)')
            tags.add('null-test')
    tags.add('where')
    sql = f'SELECT {", ".join(tcols)} FROM {frm} WHERE ' + ' AND '.join(conj)
    meta = {'order_cols': [], 'total_order': False, 'limit': False, 'tags': sorted(tags),
            'places': sorted({q for q, _ in tabs}), 'tables': sorted({f'{q}.{t}' for q, t in tabs}), 'types': ['int'] * n}
    return {'sql': sql, 'meta': meta}


@st.composite
def nested_cte_shapes(draw):
    """The same CTE name defined in two nested selects of one statement (each WITH belongs to its own select): the
    two definitions have different bodies over different integrations."""
    a = draw(st.sampled_from([('int1', 't1'), ('int1', 't2')]))
    b = draw(st.sampled_from([('int2', 't3'), ('int2', 't4'), ('int2', 't1')]))
    name = draw(st.sampled_from(['w', 'w', 'cte0', 't1']))
    ca = draw(st.sampled_from([c for c, t in model.SCHEMA[a[1]] if t == 'int']))
    cb = draw(st.sampled_from([c for c, t in model.SCHEMA[b[1]] if t == 'int']))
    wa = f'WITH {name} AS (SELECT y.{ca} AS c0 FROM {a[0]}.{a[1]} AS y) SELECT * FROM {name}'
    wb = f'WITH {name} AS (SELECT z.{cb} AS c0 FROM {b[0]}.{b[1]} AS z) SELECT * FROM {name}'
    kind = draw(st.sampled_from(['join', 'join', 'in-in', 'from-in']))
    tags = {'shape:nested-cte', 'cte', 'cte:same-name-twice', 'sub:from' if kind != 'in-in' else 'sub:in'}
    if kind == 'join':
        jk = draw(st.sampled_from(['JOIN', 'LEFT JOIN']))
        sql = f'SELECT q1.c0 AS c0, q2.c0 AS c1 FROM ({wa}) AS q1 {jk} ({wb}) AS q2 ON (q1.c0 = q2.c0)'
        types = ['int', 'int']
        tags.add('join:' + jk)
    elif kind == 'in-in':
        t = draw(st.sampled_from([('int1', 't1'), ('int2', 't3')]))
        sql = (f'SELECT x1.a AS c0 FROM {t[0]}.{t[1]} AS x1 WHERE (x1.a IN (WITH {name} AS (SELECT y.{ca} AS c0 FROM {a[0]}.{a[1]} AS y) '
               f'SELECT c0 FROM {name})) AND (x1.a NOT IN (WITH {name} AS (SELECT z.{cb} AS c0 FROM {b[0]}.{b[1]} AS z '
               f'WHERE (z.{cb} IS NOT NULL)) SELECT c0 FROM {name}))')
        types = ['int']
    else:
        sql = (f'SELECT q1.c0 AS c0 FROM ({wa}) AS q1 WHERE (q1.c0 IN (WITH {name} AS (SELECT z.{cb} AS c0 FROM {b[0]}.{b[1]} AS z) '
               f'SELECT c0 FROM {name}))')
        types = ['int']
    meta = {'order_cols': [], 'total_order': False, 'limit': False, 'tags': sorted(tags), 'places': ['int1', 'int2'],
            'tables': sorted({f'{a[0]}.{a[1]}', f'{b[0]}.{b[1]}'}), 'types': types}
    return {'sql': sql, 'meta': meta}


@st.composite
def star_over_subselect(draw):
    """`SELECT [DISTINCT] * FROM (<join over two integrations>) AS q [WHERE ...] [LIMIT n]`: the outer query adds only one
    clause to the sub-select's result (the planner decides per clause whether an outer step is needed)."""
    a, b = draw(st.sampled_from([('int1', 't1'), ('int1', 't2')])), draw(st.sampled_from([('int2', 't3'), ('int2', 't4'), ('int2', 't1')]))
    ca = draw(st.sampled_from([c for c, t in model.SCHEMA[a[1]] if t == 'int']))
    cb = draw(st.sampled_from([c for c, t in model.SCHEMA[b[1]] if t == 'int']))
    jk = draw(st.sampled_from(['JOIN', 'LEFT JOIN', 'INNER JOIN']))
    inner = f'SELECT x1.{ca} AS c0, x2.{cb} AS c1 FROM {a[0]}.{a[1]} AS x1 {jk} {b[0]}.{b[1]} AS x2 ON (x1.a = x2.a)'
    extra = draw(st.sampled_from(['distinct', 'distinct', 'where', 'limit', 'none']))
    tags = {'shape:star-over-subselect', 'sub:from', 'star', 'join:' + jk, 'outer:' + extra}
    sql = f'SELECT {"DISTINCT " if extra == "distinct" else ""}* FROM ({inner}) AS q1'
    meta = {'order_cols': [], 'total_order': False, 'limit': False}
    if extra == 'where':
        sql += f' WHERE (q1.c0 {draw(st.sampled_from([">", "<=", "="]))} {draw(st.integers(0, 2))})'
    elif extra == 'limit':
        meta['sql_unlimited'] = sql
        meta['limit'] = True
        sql += f' LIMIT {draw(st.integers(1, 3))}'
        tags |= {'limit', 'limit:unordered'}
    if extra == 'distinct':
        tags.add('distinct')
    meta.update({'tags': sorted(tags), 'places': sorted({a[0], b[0]}), 'tables': sorted({f'{a[0]}.{a[1]}', f'{b[0]}.{b[1]}'}),
                 'types': ['int', 'int']})
    return {'sql': sql, 'meta': meta}


INT1_TABLES = [('int1', 't1'), ('int1', 't2')]
INT2_TABLES = [('int2', 't3'), ('int2', 't4'), ('int2', 't1')]


def int_cols(t):
    return [c for c, ty in model.SCHEMA[t[1]] if ty == 'int']


@st.composite
def api_select_shapes(draw):
    """Selects from one table of the api-type integration int2 (catalog api-int2) with the clauses that the planner
    divides between the fetch and the select over the fetched rows: aggregates, GROUP BY, DISTINCT, renamed / computed
    targets, ORDER BY a column / an alias / a column that is not selected, LIMIT, OFFSET.  A conjunct
    `IN (select from int1)` makes the plan read both integrations."""
    t = draw(st.sampled_from(INT2_TABLES))
    ca, cb = int_cols(t)[0], int_cols(t)[1]
    kind = draw(st.sampled_from(['agg', 'group', 'group', 'distinct', 'offset', 'plain', 'expr', 'order-unselected']))
    tags = {'shape:api-select', 'api:' + kind}
    distinct, group, orders = '', '', []          # orders: (text, output index or None)
    if kind == 'agg':
        fn = draw(st.sampled_from(['max', 'min', 'sum', 'count']))
        tcols = ['count(*)', f'{fn}(x1.{cb})']
        tags.add('group')
    elif kind == 'group':
        fn = draw(st.sampled_from(['count(*)', f'sum(x1.{cb})', f'max(x1.{cb})', f'count(x1.{cb})']))
        tcols = [f'x1.{ca}', fn]
        group = f' GROUP BY x1.{ca}'
        orders = [(f'x1.{ca}', 0), ('c0', 0), ('c1', 1)]
        tags.add('group')
    elif kind == 'distinct':
        c = draw(st.sampled_from([ca, cb]))
        tcols, distinct = [f'x1.{c}'], 'DISTINCT '
        orders = [(f'x1.{c}', 0), ('c0', 0)]
        tags.add('distinct')
    elif kind in ('offset', 'plain'):
        tcols = [f'x1.{ca}', f'x1.{cb}']
        orders = [(f'x1.{ca}', 0), (f'x1.{cb}', 1), ('c0', 0), ('c1', 1)]
    elif kind == 'expr':
        tcols = [f'(x1.{ca} + 1)', f'x1.{cb}']
        orders = [(f'x1.{ca}', 0), ('c0', 0), (f'x1.{cb}', 1), ('c1', 1)]      # x + 1 is ordered like x
    else:
        tcols = [f'x1.{ca}']
        orders = [(f'x1.{cb}', None)]
    if draw(st.integers(0, 1)) == 0:
        tcols = [f'{t_} AS c{i}' for i, t_ in enumerate(tcols)]
        tags.add('api:renamed-targets')
    else:
        orders = [o for o in orders if o[0].startswith('x1.')]
    conj = []
    if draw(st.integers(0, 2)) == 0:
        conj.append(f'(x1.{draw(st.sampled_from([ca, cb]))} {draw(st.sampled_from([">", "<=", "!=", "="]))} {draw(st.integers(0, 2))})')
    if draw(st.integers(0, 1)) == 0:
        u = draw(st.sampled_from(INT1_TABLES))
        conj.append(f'(x1.{ca} {draw(st.sampled_from(["", "", "NOT "]))}IN (SELECT s2.{draw(st.sampled_from(int_cols(u)))} FROM {u[0]}.{u[1]} AS s2))')
        tags.add('sub:in')
    where = (' WHERE ' + ' AND '.join(conj)) if conj else ''
    if conj:
        tags.add('where')
    base = f'SELECT {distinct}{", ".join(tcols)} FROM {t[0]}.{t[1]} AS x1{where}{group}'
    meta = {'order_cols': [], 'total_order': False, 'limit': False}
    sql = base
    ordered = bool(orders) and (kind in ('offset', 'order-unselected') or draw(st.integers(0, 3)) > 0)
    if ordered:
        picked, seen = [], set()
        for _ in range(draw(st.integers(1, 2))):
            o = draw(st.sampled_from(orders))
            if o[1] not in seen:
                seen.add(o[1])
                picked.append(o)
        dr = draw(st.sampled_from(['', '', ' DESC']))
        base += ' ORDER BY ' + ', '.join(txt + dr for txt, _ in picked)
        sql = base
        tags.add('order')
        if any(txt.startswith('x1.') for txt, _ in picked):
            tags.add('order:source-column')
        if None not in seen:
            meta['order_cols'] = [i for _, i in picked]
            meta['total_order'] = len(seen) == len(tcols)
    if kind != 'order-unselected' and kind != 'agg' and (kind == 'offset' or draw(st.integers(0, 2)) > 0):
        sql = base + f' LIMIT {draw(st.integers(1, 3))}'
        tags.add('limit')
        meta['limit'] = True
        meta['sql_unlimited'] = base
        if not ordered:
            tags.add('limit:unordered')
        elif not meta['total_order']:
            tags.add('limit:partial-order')
        if kind == 'offset' or draw(st.integers(0, 4)) == 0:
            sql += f' OFFSET {draw(st.integers(0, 2))}'
            tags.add('offset')
    meta.update({'tags': sorted(tags), 'places': ['int2'] + (['int1'] if 'sub:in' in tags else []),
                 'tables': [f'{t[0]}.{t[1]}'], 'types': ['int'] * len(tcols)})
    return {'sql': sql, 'meta': meta}


@st.composite
def clause_subselect_shapes(draw):
    """A sub-select over the other integration in HAVING, GROUP BY, ORDER BY or JOIN ... ON (the planner looks for
    nested selects in the select list and WHERE); the query reads a table, a join or a sub-select."""
    a = draw(st.sampled_from(INT1_TABLES))
    b = draw(st.sampled_from(INT2_TABLES))
    if draw(st.integers(0, 1)) == 0:
        a, b = b, a
    ca, cb = draw(st.sampled_from(int_cols(a))), draw(st.sampled_from(int_cols(b)))
    pos = draw(st.sampled_from(['having', 'having', 'group-by', 'order-by', 'order-by', 'on', 'on']))
    frm = draw(st.sampled_from(['table', 'table', 'join', 'subselect'])) if pos != 'on' else 'join'
    tags = {'shape:clause-subselect', 'sub:' + pos, 'from:' + frm}
    fn = draw(st.sampled_from(['min', 'max', 'count', 'sum']))
    scalar = f'(SELECT {fn}(s9.{cb}) FROM {b[0]}.{b[1]} AS s9)'
    if frm == 'table':
        src = f'{a[0]}.{a[1]} AS x1'
    elif frm == 'subselect':
        src = f'(SELECT y1.{ca} AS {ca} FROM {a[0]}.{a[1]} AS y1) AS x1'
        tags.add('sub:from')
    else:
        c = draw(st.sampled_from(INT1_TABLES + INT2_TABLES))
        jk = draw(st.sampled_from(['JOIN', 'LEFT JOIN', 'INNER JOIN']))
        tags.add('join:' + jk)
        on = '(x1.a = x2.a)'
        if pos == 'on':
            side = draw(st.sampled_from(['x1', 'x2']))
            if draw(st.integers(0, 1)) == 0:
                extra = f'({side}.a {draw(st.sampled_from(["", "NOT "]))}IN (SELECT s9.{cb} FROM {b[0]}.{b[1]} AS s9))'
            else:
                extra = f'({side}.a {draw(st.sampled_from([">=", "<", "="]))} {scalar})'
            on = f'({on} AND {extra})'
        src = f'{a[0]}.{a[1]} AS x1 {jk} {c[0]}.{c[1]} AS x2 ON {on}'
    col = f'x1.{ca}' if frm != 'join' else 'x1.a'
    meta = {'order_cols': [], 'total_order': False, 'limit': False}
    if pos == 'having':
        h = draw(st.sampled_from([f'({col} {draw(st.sampled_from([">", "<=", "="]))} {scalar})',
                                  f'(count(*) {draw(st.sampled_from([">=", "<", "="]))} {scalar})']))
        sql = f'SELECT {col} AS c0, count(*) AS c1 FROM {src} GROUP BY {col} HAVING {h}'
        types = ['int', 'int']
        tags |= {'group', 'having'}
    elif pos == 'group-by':
        sql = f'SELECT count(*) AS c0, min({col}) AS c1 FROM {src} GROUP BY ({col} {draw(st.sampled_from([">", "<=", "="]))} {scalar})'
        types = ['int', 'int']
        tags.add('group')
    elif pos == 'order-by':
        key = f'({scalar} - {col})'
        sql = f'SELECT {col} AS c0, {key} AS c1 FROM {src} ORDER BY {key}{draw(st.sampled_from(["", " DESC"]))}'
        types = ['int', 'int']
        meta['order_cols'] = [1]
        tags |= {'order', 'sub:target'}
    else:
        sql = f'SELECT x1.a AS c0, x2.a AS c1 FROM {src}'
        types = ['int', 'int']
    meta.update({'tags': sorted(tags), 'places': ['int1', 'int2'], 'tables': sorted({f'{a[0]}.{a[1]}', f'{b[0]}.{b[1]}'}),
                 'types': types})
    return {'sql': sql, 'meta': meta}


@st.composite
def in_setop_shapes(draw):
    """`x [NOT] IN (select UNION / UNION ALL / INTERSECT / EXCEPT select)` with the operands in two integrations (a set
    operation as a nested query: it has to be planned as a whole)."""
    t = draw(st.sampled_from(INT1_TABLES + INT2_TABLES))
    l = draw(st.sampled_from(INT1_TABLES + INT2_TABLES))
    r = draw(st.sampled_from([x for x in INT1_TABLES + INT2_TABLES if x[0] != l[0]]))
    op = draw(st.sampled_from(['UNION', 'UNION', 'UNION ALL', 'INTERSECT', 'EXCEPT']))
    neg = draw(st.sampled_from(['', '', 'NOT ']))
    cl, cr, ct = draw(st.sampled_from(int_cols(l))), draw(st.sampled_from(int_cols(r))), draw(st.sampled_from(int_cols(t)))
    wl = f' WHERE (s2.{cl} IS NOT NULL)' if draw(st.integers(0, 1)) == 0 else ''
    wr = f' WHERE (s3.{cr} {draw(st.sampled_from([">", "<=", "!="]))} {draw(st.integers(0, 2))})' if draw(st.integers(0, 2)) == 0 else ''
    sub = f'SELECT s2.{cl} FROM {l[0]}.{l[1]} AS s2{wl} {op} SELECT s3.{cr} FROM {r[0]}.{r[1]} AS s3{wr}'
    tags = {'shape:in-setop', 'sub:in', 'sub:in-setop', 'setop:' + op, 'where'}
    if draw(st.integers(0, 2)) == 0:
        u = draw(st.sampled_from(INT1_TABLES + INT2_TABLES))
        jk = draw(st.sampled_from(['JOIN', 'LEFT JOIN']))
        tags.add('join:' + jk)
        sql = (f'SELECT x1.{ct} AS c0, x2.a AS c1 FROM {t[0]}.{t[1]} AS x1 {jk} {u[0]}.{u[1]} AS x2 ON (x1.a = x2.a) '
               f'WHERE (x1.{ct} {neg}IN ({sub}))')
        types = ['int', 'int']
    else:
        sql = f'SELECT x1.{ct} AS c0 FROM {t[0]}.{t[1]} AS x1 WHERE (x1.{ct} {neg}IN ({sub}))'
        types = ['int']
    meta = {'order_cols': [], 'total_order': False, 'limit': False, 'tags': sorted(tags), 'places': ['int1', 'int2'],
            'tables': sorted({f'{x[0]}.{x[1]}' for x in (t, l, r)}), 'types': types}
    return {'sql': sql, 'meta': meta}


@st.composite
def correlated_shapes(draw):
    """A sub-select over the other integration that refers to a column of the enclosing query (IN, EXISTS, scalar
    comparison): it cannot be fetched on its own."""
    a = draw(st.sampled_from(INT1_TABLES))
    b = draw(st.sampled_from(INT2_TABLES))
    if draw(st.integers(0, 1)) == 0:
        a, b = b, a
    ca, cb = draw(st.sampled_from(int_cols(a))), draw(st.sampled_from(int_cols(b)))
    corr = f'(s2.a {draw(st.sampled_from(["=", "=", "<", "!="]))} x1.{ca})'
    kind = draw(st.sampled_from(['in', 'exists', 'not-exists', 'scalar']))
    if kind == 'in':
        cond = f'(x1.{ca} {draw(st.sampled_from(["", "NOT "]))}IN (SELECT s2.{cb} FROM {b[0]}.{b[1]} AS s2 WHERE {corr}))'
    elif kind == 'scalar':
        cond = f'(x1.{ca} {draw(st.sampled_from([">=", "<", "="]))} (SELECT max(s2.{cb}) FROM {b[0]}.{b[1]} AS s2 WHERE {corr}))'
    else:
        cond = f'({"NOT " if kind == "not-exists" else ""}EXISTS (SELECT s2.{cb} FROM {b[0]}.{b[1]} AS s2 WHERE {corr}))'
    tags = {'shape:correlated', 'sub:correlated-other-place', 'sub:' + kind, 'where'}
    if draw(st.integers(0, 2)) == 0:
        u = draw(st.sampled_from(INT1_TABLES + INT2_TABLES))
        jk = draw(st.sampled_from(['JOIN', 'LEFT JOIN']))
        tags.add('join:' + jk)
        sql = f'SELECT x1.{ca} AS c0, x2.a AS c1 FROM {a[0]}.{a[1]} AS x1 {jk} {u[0]}.{u[1]} AS x2 ON (x1.a = x2.a) WHERE {cond}'
        types = ['int', 'int']
    else:
        sql = f'SELECT x1.{ca} AS c0 FROM {a[0]}.{a[1]} AS x1 WHERE {cond}'
        types = ['int']
    meta = {'order_cols': [], 'total_order': False, 'limit': False, 'tags': sorted(tags), 'places': ['int1', 'int2'],
            'tables': sorted({f'{a[0]}.{a[1]}', f'{b[0]}.{b[1]}'}), 'types': types}
    return {'sql': sql, 'meta': meta}


@st.composite
def cte_name_shapes(draw):
    """Who a bare table name denotes (catalog default-int1, so a bare t1 / t2 is a table of int1): a CTE is found
    whatever the case of its name, and only inside the select that declares it: kinds
    case = `WITH T2 AS (..) SELECT .. FROM t2`; leak-where / leak-from = the name is used once inside the WITH select
    (the CTE) and once outside of it (the table)."""
    name = draw(st.sampled_from(['t1', 't2', 't2']))
    # (a body that reads the table of the same name is left out: with the integration cut off, the fetched text
    # defines the CTE by itself)
    b = draw(st.sampled_from([x for x in INT1_TABLES + INT2_TABLES if x[1] != name]))
    m = draw(st.sampled_from(INT1_TABLES + INT2_TABLES))
    cb, cm = draw(st.sampled_from(int_cols(b))), draw(st.sampled_from(int_cols(m)))
    kind = draw(st.sampled_from(['case', 'leak-where', 'leak-where', 'leak-from']))
    tags = {'shape:cte-name', 'cte', 'cte:named-like-default-table'}
    body = f'SELECT z.{cb} AS a FROM {b[0]}.{b[1]} AS z'
    if kind == 'case':
        spell = draw(st.sampled_from([name.upper(), name.capitalize()]))
        d, u = (spell, name) if draw(st.integers(0, 1)) == 0 else (name, spell)
        tags.add('cte:case-differs')
        # (not joined: the columns of a joined CTE are known to the executor under the CTE's name, not the alias)
        w = f' WHERE (y.a {draw(st.sampled_from([">", "<=", "!="]))} {draw(st.integers(0, 2))})' if draw(st.integers(0, 2)) == 0 else ''
        sql = f'WITH {d} AS ({body}) SELECT y.a AS c0 FROM {u} AS y{w}'
        types = ['int']
    else:
        tags.add('cte:used-out-of-scope')
        inner = f'WITH {name} AS ({body}) SELECT y.a AS a FROM {name} AS y'
        outer = f'(SELECT w.a FROM {name} AS w)'
        if kind == 'leak-where':
            op = draw(st.sampled_from(['OR', 'AND']))
            tags |= {'sub:in', 'where'}
            if op == 'OR':
                tags.add('or')
            sql = (f'SELECT x1.{cm} AS c0 FROM {m[0]}.{m[1]} AS x1 WHERE ((x1.{cm} IN ({inner})) {op} '
                   f'(x1.{cm} {draw(st.sampled_from(["", "NOT "]))}IN {outer}))')
        else:
            tags |= {'sub:from', 'sub:in', 'where'}
            sql = f'SELECT q.a AS c0 FROM ({inner}) AS q WHERE (q.a {draw(st.sampled_from(["", "NOT "]))}IN {outer})'
        types = ['int']
    meta = {'order_cols': [], 'total_order': False, 'limit': False, 'tags': sorted(tags), 'places': ['int1', 'int2'],
            'tables': sorted({f'{b[0]}.{b[1]}', f'{m[0]}.{m[1]}', 'int1.' + name}), 'types': types}
    return {'sql': sql, 'meta': meta}


@st.composite
def cases(draw):
    extra = draw(st.integers(0, 39))
    if extra in (6, 7):
        c, catalog = draw(c08_shapes.order_item_shapes())
        # more rows than LIMIT asks for
        c['data'] = draw(model.table_data(DATA_TABLES, max_rows=6, min_rows=2))
        c['catalog'] = catalog or draw(st.sampled_from(sorted(CATALOGS)))
        return c
    if extra == 8:
        c = draw(c08_shapes.cte_alias_shapes())
        c['data'] = draw(model.table_data(DATA_TABLES, max_rows=4, min_rows=1))
        c['catalog'] = draw(st.sampled_from(sorted(CATALOGS)))
        return c
    if extra < 4:
        shape = [api_select_shapes, api_select_shapes, clause_subselect_shapes, in_setop_shapes][extra]
        c = draw(shape())
        c['data'] = draw(model.table_data(DATA_TABLES, max_rows=5, min_rows=1))
        c['catalog'] = 'api-int2' if shape is api_select_shapes else draw(st.sampled_from(sorted(CATALOGS)))
        return c
    if extra == 5 and draw(st.integers(0, 1)) == 0:
        c = draw(cte_name_shapes())
        c['data'] = draw(model.table_data(DATA_TABLES, max_rows=4, min_rows=1))
        c['catalog'] = 'default-int1'
        return c
    if extra == 4 and draw(st.integers(0, 1)) == 0:
        c = draw(correlated_shapes())
        c['data'] = draw(model.table_data(DATA_TABLES, max_rows=4, min_rows=1))
        c['catalog'] = draw(st.sampled_from(sorted(CATALOGS)))
        return c
    if draw(st.integers(0, 15)) == 0:
        c = draw(star_over_subselect())
        c['data'] = draw(model.table_data(DATA_TABLES))
        c['catalog'] = draw(st.sampled_from(sorted(CATALOGS)))
        return c
    if draw(st.integers(0, 23)) == 0:
        c = draw(nested_cte_shapes())
        c['data'] = draw(model.table_data(DATA_TABLES, max_rows=4, min_rows=1))
        c['catalog'] = draw(st.sampled_from(sorted(CATALOGS)))
        return c
    if draw(st.integers(0, 11)) == 0:
        c = draw(outer_chain_shapes())
        c['data'] = draw(model.table_data(DATA_TABLES, max_rows=4, min_rows=1))
        c['catalog'] = draw(st.sampled_from(sorted(CATALOGS)))
        return c
    if draw(st.integers(0, 7)) == 0:
        c = draw(limit_shapes())
        # more rows than LIMIT asks for: a fetch that is cut short has to show in the result
        c['data'] = draw(model.table_data(DATA_TABLES, max_rows=6, min_rows=2))
        c['catalog'] = draw(st.sampled_from(sorted(CATALOGS)))
        return c
    c = draw(model.queries(CFG))
    c['data'] = draw(model.table_data(DATA_TABLES))
    c['catalog'] = draw(st.sampled_from(sorted(CATALOGS)))
    return c


def run_shard(col, k, nshards, tier, seed):
    n = 0
    for i, c in enumerate(c08_shapes.order_item_space()):
        n += 1
        if i % nshards == k:
            for rec in judge(c, col):
                col.fail(rec, c)
    if k == 0:
        col.exhaustive_parts.append(f'{n} ordered selects: (one table of an api-type integration | a join over two integrations, four '
                                    'catalogs) x select-list order x target forms (plain / renamed / computed) x ORDER BY item '
                                    '(position, column, alias, -column, column + 0, abs(column), alias + 0) on each target x '
                                    'ASC / DESC x (LIMIT 2 | LIMIT 1 | LIMIT 1 OFFSET 1 | no LIMIT) over two fixed table contents')
    hyp.explore(col, cases(), judge, N[tier], seed, shrink_key=lambda r: (r['kind'], r['site'][:40]))
