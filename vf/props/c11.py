"""C11 — a query on one SQL integration is pushed down whole and unchanged in meaning."""
import copy, json, re, sqlite3
from hypothesis import strategies as st

from vf import findings, hyp
from vf.gens import model
from vf.oracles import engine, refprint
from vf.oracles.struct import struct
from vf.props.c02 import site_of

PROPERTY = 'C11'
RULE = ('cases = (query from the typed SQL model whose tables all live in integration int1, with random spelling of the '
        'qualifier, optional table aliases incl. aliases equal to the integration name, 2- and 3-part column names; '
        'table contents; catalog shape); judged: plan == exactly one fetch step for int1; the pushed query executed on '
        'a database holding int1\'s tables returns what the original text returns on an engine with int1 ATTACH-ed '
        '(order-aware); the pushed tree differs from the original only by qualifier removal and AS <column> on bare '
        'targets; non-trivial = join / sub-select / CTE / set operation / shadowing alias and a non-empty result')
ASSUMPTIONS = ['sqlite3 is the reference engine; the pushed query is printed by an own fully-parenthesising printer '
               '(O-print), not by the library', 'catalog: int1 is a SQL integration (not api), default namespace mindsdb']
FLOORS = {'quick': {'__nontrivial__': 600, 'single-fetch': 2500, 'tag:sub:from': 400, 'tag:cte': 100,
                    'tag:alias:shadows-qualifier': 100, 'tag:col:3-part': 100, 'catalog:dicts': 600, 'tag:shape:scope': 150},
          'thorough': {'__nontrivial__': 6000, 'single-fetch': 25000}}
N = {'quick': 350, 'thorough': 5000}
PLACES = {t: 'int1' for t in model.SCHEMA}


def spell(draw, q):
    return draw(st.sampled_from([q, q, q.upper(), q.capitalize()]))


CFG = model.Cfg(places=PLACES, always_alias=False, qualifier_spelling=spell, shadow_aliases=['int1'],
                qualified_columns=True)
CATALOGS = {
    'names': dict(integrations=['int1'], default_namespace='mindsdb'),
    'names2': dict(integrations=['int1', 'int2'], default_namespace='mindsdb'),
    'dicts': dict(integrations=[{'name': 'int1', 'class_type': 'sql', 'type': 'data'},
                                {'name': 'int2', 'class_type': 'api', 'type': 'data'},
                                {'name': 'proj', 'class_type': 'project', 'type': 'project'}],
                  default_namespace='mindsdb'),
    'nodefault': dict(integrations=['int1']),
}


# catalogs that also know models whose <project>.<name> collides with a <schema>.<table> of the integration
MODEL_META = [{'name': 'pred', 'integration_name': 'mindsdb'}, {'name': 'tbl', 'integration_name': 'proj'}]
CATALOGS['with-models'] = dict(integrations=['int1', 'int2'], default_namespace='mindsdb',
                               predictor_metadata=[dict(m) for m in MODEL_META])
CATALOGS['with-models-dicts'] = dict(
    integrations=[{'name': 'int1', 'class_type': 'sql', 'type': 'data'}, {'name': 'proj', 'class_type': 'project', 'type': 'project'}],
    default_namespace='mindsdb', predictor_metadata=[dict(m) for m in MODEL_META])


@st.composite
def schema_shapes(draw):
    """Single-integration queries over schema-qualified tables (int1.<schema>.<table>); the schema/table names are
    sometimes those of a registered model.  Judged structurally only (no 3-part names in the reference engine)."""
    q = draw(st.sampled_from(['int1', 'INT1', 'Int1']))
    sch, tb = draw(st.sampled_from([('mindsdb', 'pred'), ('proj', 'tbl'), ('sch', 't1'), ('public', 'pred'), ('mindsdb', 't2')]))
    al = draw(st.sampled_from(['', ' AS x', ' x']))
    ref = 'x' if al else f'{sch}.{tb}'
    cols = draw(st.sampled_from([f'{ref}.a AS c0, {ref}.b AS c1', '*', f'{ref}.a', f'count(*) AS c0', f'{q}.{sch}.{tb}.a AS c0' if not al else f'{ref}.b AS c0']))
    where = draw(st.sampled_from(['', f' WHERE ({ref}.a = 1)', f' WHERE ({ref}.a > 1)', f' WHERE (({ref}.a = 1) AND ({ref}.b < 3))',
                                  f' WHERE ({ref}.a IN (SELECT s.a FROM {q}.{sch}.t9 AS s))']))
    tail = draw(st.sampled_from(['', ' LIMIT 2', f' ORDER BY {ref}.a', f' GROUP BY {ref}.a' if cols.startswith('count') else '']))
    shape = draw(st.sampled_from(['plain', 'plain', 'join', 'union']))
    sql = f'SELECT {cols} FROM {q}.{sch}.{tb}{al}{where}{tail}'
    if shape == 'join' and al:
        sql = f'SELECT x.a AS c0, y.c AS c1 FROM {q}.{sch}.{tb} AS x JOIN {q}.{sch}.t9 AS y ON (x.a = y.a){where}'
    elif shape == 'union' and cols != '*':
        sql = f'SELECT {ref}.a AS c0 FROM {q}.{sch}.{tb}{al} UNION SELECT z.a AS c0 FROM {q}.sch.t8 AS z'
    tags = ['shape:schema-qualified'] + (['schema:collides-with-model'] if (sch, tb) in (('mindsdb', 'pred'), ('proj', 'tbl')) else [])
    return {'sql': sql, 'meta': {'order_cols': [], 'total_order': False, 'limit': False, 'tags': tags, 'structure_only': True},
            'data': {}, 'catalog': draw(st.sampled_from(['with-models', 'with-models-dicts', 'names', 'dicts']))}


@st.composite
def correlated_alias_shapes(draw):
    """The outer table's alias is spelled like the integration and a nested select refers to it (correlation): the
    qualifier of that reference is an alias, not the integration, at every depth."""
    q = draw(st.sampled_from(['int1', 'int1', 'INT1', 'Int1']))
    al = draw(st.sampled_from(['int1', 'int1', 'INT1']))
    outer_t, inner_t = draw(st.sampled_from([('t1', 't2'), ('t2', 't1'), ('t1', 't3'), ('t3', 't4'), ('t1', 't1')]))
    oc = draw(st.sampled_from([c for c, t in model.SCHEMA[outer_t] if t == 'int']))
    ic = draw(st.sampled_from([c for c, t in model.SCHEMA[inner_t] if t == 'int']))
    cmp_ = draw(st.sampled_from(['=', '=', '<', '>=']))
    # both tables have a column `a`: cutting the outer alias off `int1.a` makes it bind to the inner table
    corr = f'(u.{ic} {cmp_} {al}.a)'
    kind = draw(st.sampled_from(['exists', 'not-exists', 'in', 'scalar-target', 'scalar-where', 'nested-twice', 'cte-named',
                                 'cte-named']))
    if kind == 'cte-named':
        # not an alias but a CTE is called like the integration, and its columns are referred to through that name
        jk = draw(st.sampled_from(['JOIN', 'LEFT JOIN']))
        sql = (f'WITH {al} AS (SELECT y.a AS a, y.{oc} AS v FROM {q}.{outer_t} AS y) SELECT {al}.v AS c0, u.{ic} AS c1 '
               f'FROM {al} {jk} {q}.{inner_t} AS u ON ({al}.a = u.a)')
        tags = ['shape:correlated-alias', 'cte', 'cte:named-like-integration', 'join:' + jk]
        return {'sql': sql, 'meta': {'order_cols': [], 'total_order': False, 'limit': False, 'tags': tags, 'types': ['int', 'int'],
                                     'tables': sorted({outer_t, inner_t}), 'places': ['int1']},
                'data': draw(model.table_data(min_rows=1)), 'catalog': draw(st.sampled_from(sorted(CATALOGS)))}
    inner_from = f'{q}.{inner_t} AS u'
    if kind == 'exists':
        where = f' WHERE EXISTS (SELECT 1 FROM {inner_from} WHERE {corr})'
    elif kind == 'not-exists':
        where = f' WHERE NOT EXISTS (SELECT 1 FROM {inner_from} WHERE {corr})'
    elif kind == 'in':
        where = f' WHERE ({al}.{oc} IN (SELECT u.a FROM {inner_from} WHERE {corr}))'
    elif kind == 'scalar-where':
        where = f' WHERE ((SELECT count(*) FROM {inner_from} WHERE {corr}) > 0)'
    elif kind == 'nested-twice':
        where = (f' WHERE EXISTS (SELECT 1 FROM {inner_from} WHERE (u.a IN (SELECT v.a FROM {q}.{outer_t} AS v '
                 f'WHERE (v.a = {al}.a))))')
    else:
        where = ''
    tg = f'{al}.{oc} AS c0, {al}.a AS c1'
    types = ['int', 'int']
    if kind == 'scalar-target':
        tg += f', (SELECT count(*) FROM {inner_from} WHERE {corr}) AS c2'
        types.append('int')
    sql = f'SELECT {tg} FROM {q}.{outer_t} AS {al}{where}'
    tags = ['shape:correlated-alias', 'alias:shadows-qualifier', 'sub:correlated', 'sub:' + kind]
    return {'sql': sql, 'meta': {'order_cols': [], 'total_order': False, 'limit': False, 'tags': tags, 'types': types,
                                 'tables': sorted({outer_t, inner_t}), 'places': ['int1']},
            'data': draw(model.table_data(min_rows=1)), 'catalog': draw(st.sampled_from(sorted(CATALOGS)))}


@st.composite
def scope_shapes(draw):
    """Qualified stars (int1.t1.*, alias.*), WITH clauses that are not at the top of the statement (inside a derived table,
    a join operand, an IN sub-select) and WITH in front of a parenthesised set operation -- all inside one integration."""
    q = draw(st.sampled_from(['int1', 'int1', 'INT1', 'Int1']))
    kind = draw(st.sampled_from(['star-3part', 'star-3part-join', 'star-alias', 'cte-derived', 'cte-join-operand', 'cte-in-subselect',
                                 'cte-setop-paren', 'cte-setop-paren-nested']))
    t, u = draw(st.sampled_from([('t1', 't2'), ('t2', 't3'), ('t3', 't1'), ('t4', 't2')]))
    tc = [c for c, ty in model.SCHEMA[t]]
    uc = [c for c, ty in model.SCHEMA[u] if c != 'a'][0]
    cmp_ = draw(st.sampled_from(['>', '>=', '<', '=']))
    k = draw(st.integers(0, 2))
    truth = None
    types = None
    tags = ['shape:scope', 'scope:' + kind]
    if kind == 'star-3part':
        sql = f'SELECT {q}.{t}.* FROM {q}.{t} WHERE ({q}.{t}.a {cmp_} {k})'
        truth = f'SELECT {t}.* FROM {q}.{t} WHERE ({q}.{t}.a {cmp_} {k})'       # SQLite has no schema.table.*
        types = [ty for _, ty in model.SCHEMA[t]]
    elif kind == 'star-3part-join':
        jk = draw(st.sampled_from(['JOIN', 'LEFT JOIN']))
        sql = f'SELECT {q}.{t}.*, x.{uc} AS c9 FROM {q}.{t} {jk} {q}.{u} AS x ON ({q}.{t}.a = x.a)'
        truth = f'SELECT {t}.*, x.{uc} AS c9 FROM {q}.{t} {jk} {q}.{u} AS x ON ({q}.{t}.a = x.a)'
        types = [ty for _, ty in model.SCHEMA[t]] + ['int']
        tags.append('join:' + jk)
    elif kind == 'star-alias':
        sql = f'SELECT y.*, x.{uc} AS c9 FROM {q}.{t} AS y JOIN {q}.{u} AS x ON (y.a = x.a) WHERE (y.a {cmp_} {k})'
        types = [ty for _, ty in model.SCHEMA[t]] + ['int']
        tags.append('join:JOIN')
    elif kind == 'cte-derived':
        sql = (f'SELECT s.a AS c0 FROM (WITH c AS (SELECT y.a AS a FROM {q}.{t} AS y WHERE (y.a {cmp_} {k})) '
               f'SELECT c.a AS a FROM c) AS s')
        types = ['int']
        tags += ['cte', 'sub:from']
    elif kind == 'cte-join-operand':
        jk = draw(st.sampled_from(['JOIN', 'LEFT JOIN']))
        sql = (f'SELECT x.{uc} AS c0, s.a AS c1 FROM {q}.{u} AS x {jk} (WITH c AS (SELECT y.a AS a FROM {q}.{t} AS y '
               f'WHERE (y.a {cmp_} {k})) SELECT c.a AS a FROM c) AS s ON (x.a = s.a)')
        types = ['int', 'int']
        tags += ['cte', 'sub:from', 'join:' + jk]
    elif kind == 'cte-in-subselect':
        sql = (f'SELECT x.a AS c0, x.{uc} AS c1 FROM {q}.{u} AS x WHERE (x.a IN (WITH c AS (SELECT y.a AS a FROM {q}.{t} AS y '
               f'WHERE (y.a {cmp_} {k})) SELECT c.a AS a FROM c))')
        types = ['int', 'int']
        tags += ['cte', 'sub:in']
    else:
        op = draw(st.sampled_from(['UNION', 'UNION ALL', 'INTERSECT', 'EXCEPT']))
        body = f'SELECT c.a AS c0 FROM c {op} SELECT x.a AS c0 FROM {q}.{u} AS x'
        cte = f'WITH c AS (SELECT y.a AS a FROM {q}.{t} AS y WHERE (y.a {cmp_} {k}))'
        types = ['int']
        tags += ['cte', 'setop:' + op]
        if kind == 'cte-setop-paren':
            sql = f'{cte} ({body})'
            truth = f'{cte} {body}'           # SQLite has no parenthesised compound select
        else:
            sql = f'SELECT z.a AS c0, z.{uc} AS c1 FROM {q}.{u} AS z WHERE (z.a IN ({cte} ({body})))'
            truth = f'SELECT z.a AS c0, z.{uc} AS c1 FROM {q}.{u} AS z WHERE (z.a IN ({cte} {body}))'
            types = ['int', 'int']
            tags.append('sub:in')
    meta = {'order_cols': [], 'total_order': False, 'limit': False, 'tags': tags, 'types': types, 'tables': sorted({t, u}),
            'places': ['int1']}
    if truth:
        meta['truth_sql'] = truth
    return {'sql': sql, 'meta': meta, 'data': draw(model.table_data(min_rows=1)), 'catalog': draw(st.sampled_from(sorted(CATALOGS)))}


def prepare(tier):
    import mindsdb_sql.planner  # noqa


_INT = ['int1']          # name of the integration in the statement that is planned (see `rename`)
OTHER_NAMES = ['reviews', 'profiles', 'pg_views', 'myfiles', 'files2', 'views_db', 'information', 'mindsdb2', 'log', 'x']


def rename(text, name):
    """the statement with the integration int1 called `name` (same letter-case style at every occurrence)"""
    def sub(m):
        w = m.group(0)
        return name.upper() if w.isupper() else name.capitalize() if w[0].isupper() else name
    return re.sub(r'\bint1\b', sub, text, flags=re.I)


def rename_catalog(kw, name):
    return json.loads(json.dumps(kw).replace('"int1"', json.dumps(name)))


def allowed_edit_diff(a, b, path, out, in_targets=False):
    """Compare original tree node a with pushed node b; record differences other than the two allowed edits."""
    from mindsdb_sql.parser.ast.base import ASTNode
    if isinstance(a, ASTNode) and isinstance(b, ASTNode):
        if type(a) is not type(b):
            out.append(f'{path}: {type(a).__name__} -> {type(b).__name__}')
            return
        va, vb = vars(a), vars(b)
        for k in sorted(set(va) | set(vb)):
            x, y = va.get(k), vb.get(k)
            if type(a).__name__ == 'Identifier' and k == 'parts':
                if x != y and not (len(x) > 1 and isinstance(x[0], str) and x[0].lower() == _INT[0]
                                   and struct(x[1:]) == struct(y)):
                    out.append(f'{path}.parts: {x} -> {y}')
                continue
            if type(a).__name__ == 'Identifier' and k == 'alias' and x is None and y is not None and in_targets:
                if not (type(y).__name__ == 'Identifier' and y.parts == [va['parts'][-1]]):
                    out.append(f'{path}.alias: None -> {y.parts}')
                continue
            allowed_edit_diff(x, y, f'{path}.{k}', out, in_targets=(k == 'targets' and type(a).__name__ == 'Select'))
    elif isinstance(a, (list, tuple)) and isinstance(b, (list, tuple)):
        if len(a) != len(b):
            out.append(f'{path}: length {len(a)} -> {len(b)}')
            return
        for i, (x, y) in enumerate(zip(a, b)):
            allowed_edit_diff(x, y, f'{path}[{i}]', out, in_targets)
    elif isinstance(a, dict) and isinstance(b, dict):
        for k in sorted(set(a) | set(b), key=str):
            allowed_edit_diff(a.get(k), b.get(k), f'{path}[{k!r}]', out, False)
    else:
        if struct(a) != struct(b):
            out.append(f'{path}: {a!r} -> {b!r}')


def judge(case, col):
    from mindsdb_sql import parse_sql
    from mindsdb_sql.planner import plan_query
    from mindsdb_sql.planner.steps import FetchDataframeStep
    from mindsdb_sql.exceptions import PlanningException
    sql, data, meta, cat = case['sql'], case['data'], case['meta'], case['catalog']
    tags = list(meta.get('tags', []))
    cfg = {'catalog': cat}
    classes = ['catalog:' + cat] + ['tag:' + t for t in tags]
    structure_only = bool(meta.get('structure_only'))
    if not structure_only:
        G = engine.connect(model.engine_tables(data, PLACES), attach=['int1'])
        try:
            # SQLite has no <schema>.<table>.* : the ground truth reads <table>.* (all tables live in the one attached schema)
            names_t, truth = engine.run(G, meta.get('truth_sql') or re.sub(r'(?i)\bint1\.(\w+)\.\*', r'\1.*', sql))
        except sqlite3.Error as e:
            col.excluded('ground truth not executable: ' + str(e)[:50])
            return []
    # what is planned: the same statement with the integration called differently (names that contain the names of
    #  MindsDB's pseudo-databases, ...); the ground truth above does not depend on that name
    iname = case.get('integration') or 'int1'
    _INT[0] = iname
    kw = CATALOGS[cat]
    if iname != 'int1':
        sql = rename(sql, iname)
        kw = rename_catalog(kw, iname)
        cfg['integration'] = iname
        classes.append('integration:renamed')
    try:
        tree = parse_sql(sql, 'mindsdb')
    except Exception as e:
        col.excluded('not parsed: ' + site_of(e))
        return []
    orig = copy.deepcopy(tree)
    out = []
    try:
        plan = plan_query(tree, **copy.deepcopy(kw))
    except (PlanningException, NotImplementedError) as e:
        out.append(findings.record('planning-refused', type(e).__name__, tags, cfg, str(e)[:200], sql))
        col.case((cat, sql), False, classes + ['refused'])
        return out
    except Exception as e:
        col.excluded('planner internal error (C09): ' + site_of(e))
        return []
    steps = plan.steps
    if not (len(steps) == 1 and isinstance(steps[0], FetchDataframeStep) and steps[0].integration == iname
            and steps[0].raw_query is None):
        out.append(findings.record('not-single-fetch', '+'.join(type(s).__name__ for s in steps)[:120], tags, cfg,
                                   f'integrations={[getattr(s, "integration", None) for s in steps]}', sql))
        col.case((cat, sql), False, classes + ['not-single-fetch'])
        return out
    classes.append('single-fetch')
    q = steps[0].query
    # (3) structural: only the two allowed edit kinds
    diffs = []
    allowed_edit_diff(orig, q, '$', diffs)
    if diffs:
        out.append(findings.record('structural-change', diffs[0].split(':')[0].split('.')[-1][:40], tags, cfg,
                                   '; '.join(diffs[:3]), sql))
    if structure_only:
        col.case((cat, sql), True, classes + ['structure-only'], {'sql': sql, 'catalog': cat, 'pushed': str(q)})
        return out
    # (2) execution
    D = engine.connect(model.engine_tables(data, {}))
    try:
        pushed = refprint.Printer().query(q)
    except refprint.Unsupported as e:
        col.excluded('O-print: ' + str(e))
        return out
    try:
        names_p, got = engine.run(D, pushed)
    except sqlite3.Error as e:
        out.append(findings.record('pushed-not-executable', 'sqlite', tags, cfg, f'{e}; pushed: {pushed}', sql))
        col.case((cat, sql, str(data)), False, classes)
        return out
    oc = meta.get('order_cols') or []
    if oc and meta.get('total_order'):
        d = engine.compare(truth, got, True)
    else:
        d = engine.compare(truth, got, False)
        if d is None and oc:
            ka = [tuple(r[i] for i in oc) for r in truth]
            kb = [tuple(r[i] for i in oc) for r in got]
            if ka != kb:
                d = f'sort keys differ: {ka[:6]} vs {kb[:6]}'
    if d:
        out.append(findings.record('rows-differ', 'execution', tags, cfg, f'{d}; pushed: {pushed}', sql))
    elif [n.lower() for n in names_t] != [n.lower() for n in names_p]:
        out.append(findings.record('column-names-differ', 'execution', tags, cfg,
                                   f'{names_t} vs {names_p}; pushed: {pushed}', sql))
    interesting = any(t.startswith(('join:', 'sub:', 'cte', 'setop:', 'alias:shadows')) for t in tags)
    col.case((cat, sql, str(data)), interesting and len(truth) >= 1, classes,
             {'sql': sql, 'pushed': pushed, 'rows': len(truth), 'catalog': cat})
    return out


@st.composite
def cases(draw):
    if draw(st.integers(0, 9)) == 0:
        return draw(schema_shapes())
    if draw(st.integers(0, 11)) == 0:
        return draw(correlated_alias_shapes())
    if draw(st.integers(0, 9)) == 0:
        return draw(scope_shapes())
    c = draw(model.queries(CFG))
    c['data'] = draw(model.table_data())
    c['catalog'] = draw(st.sampled_from(sorted(CATALOGS)))
    if draw(st.integers(0, 3)) == 0:
        c['integration'] = draw(st.sampled_from(OTHER_NAMES))
    return c


def run_shard(col, k, nshards, tier, seed):
    hyp.explore(col, cases(), judge, N[tier], seed, shrink_key=lambda r: (r['kind'], r['site'][:40]))
