"""C12 — prepared statements bind `?` placeholders in left-to-right textual order, like inline literals.

Cases are *histories* on one QueryPlanner: prepare(template) / info() / execute(values) / execute(wrong count) /
prepare(other); the model is the last prepared template.  A template (vf/gens/holes.py) is printed twice: with `?` in
the holes and with the literal of v_i in the i-th hole of the text.  The oracle never consults the library's walker:
the expected plan is `plan_query(parse(inlined text))` on a fresh planner with the same catalog, the expected bound
tree is `parse(inlined text)`.
"""
import copy, json, re
from hypothesis import strategies as st

from vf import findings, hyp
from vf.gens import holes, c12_shapes as shapes, c12_more as more
from vf.oracles.struct import struct, walk
from vf.props.c02 import site_of

PROPERTY = 'C12'
RULE = ('cases = histories of 2..8 (thorough ..20) calls on one QueryPlanner drawn from prepare(template) / info() / '
        'execute(values) / execute(wrong number of values, or no value list at all for n >= 1) / prepare(other template) '
        '/ on an executed statement also execute again with other values, info(), wrong count / prepare of the same tree '
        'object once more (n >= 1), the model being the last prepared template; plus a fixed list of histories over the '
        'shapes of vf/gens/c12_shapes.py (chains of 3..4 set operations flat or with a parenthesised pair, WITH before / '
        'on a set operation, UPDATE SET naming a column twice; these are also drawn at random, 5 of 20 statements); '
        'values include None (printed NULL, 1 in 10); templates come from an own generator with holes in select list (incl. aliased and parenthesised '
        'holes), WHERE, JOIN ON, CASE operand/WHEN/THEN/ELSE, function arguments incl. substring(x FROM ?), IN lists, '
        'BETWEEN bounds, sub-selects on either side of a join / in WHERE / scalar, set operations, CTEs, INSERT VALUES '
        '(1-3 rows) and INSERT..SELECT, UPDATE SET / FROM / WHERE, DELETE, CREATE TABLE (select), GROUP BY / HAVING / '
        'ORDER BY, window PARTITION/ORDER, predictor selects; from vf/gens/c12_more.py: a hole under one or two minus signs '
        'in any of these positions (numbers only), SHOW .. WHERE / SET name = value / CREATE KNOWLEDGE_BASE .. FROM (select) '
        '(statements the planner does not plan: count, count check and bound tree are judged), selects joining a '
        'time-series model (catalog ts), a bounded list of further shapes (CTE referenced twice / in DML / in a sub-select, '
        '`? OVER`, window frame, substring(? FROM ? FOR ?), `? :: type`, row tuples, `a IN ?`, implicit join, 4 tables, '
        'sub-selects on the 2nd and 3rd join, UNION .. ORDER BY, USING, UPDATE .. ON keys, CREATE OR REPLACE TABLE / '
        'CREATE TABLE t SELECT), prepare whose column steps are never run, executions dropped unconsumed; '
        'values = ints (negative too), 2-decimal floats, booleans, strings without backslashes (quote characters '
        'included); judged: reported parameter count == n; steps of execute_steps(values) == steps of '
        'plan_query(parse(inlined text)) (PlanStep == and structural identity); no Parameter(?) left; wrong count raises '
        'PlanningException; non-trivial = a history that executes a template with n >= 2 holes in >= 2 different clauses '
        'and whose plans (or, when both paths refuse to plan, bound trees) were compared; distinct by the whole history')
ASSUMPTIONS = ['the parser is trusted to build the same tree for the `?` text and the inlined text except at the holes '
               '(cross-checked per case: every difference must be Parameter -> Constant(v) and the multiset of v must be '
               'the value list, otherwise the case is dropped and counted)',
               'mindsdb dialect only; placeholders in LIMIT/OFFSET and in table position are outside the grammar / the '
               'property\'s expression positions; a hole directly under a unary minus takes numbers only (the '
               'parser rejects a minus sign before a string or NULL, so no inlined statement exists for other values) and its '
               'inlined image is the folded constant (`- ?` with 5 is compared with Constant(-5), as the parser reads `-5`)',
               'for SHOW / SET / CREATE KNOWLEDGE_BASE (plan_query refuses the statement kind, execute_steps yields no steps) '
               'only the reported count, the count check and the bound tree (utils.fill_query_params) are judged',
               'a prepare refused with an exception is judged only against preparing the inlined statement (same '
               'exception type = consistent refusal), unless the exception is not a PlanningException and plan_query plans '
               'the inlined statement (a crash, not a refusal)',
               'a prepared statement stays prepared: it can be executed any number of times (each time judged against '
               'the inlined text of that value list, also a statement without placeholders) and asked for its parameters '
               'after an execution; the same tree is prepared again only when it has placeholders and has not been planned unbound',
               'a SET list naming a column twice loses an assignment in the parser: when a placeholder goes with it the '
               'reported count is judged (n placeholders are in the statement) and nothing further',
               'when both paths refuse to plan (same exception type) the bound tree (utils.fill_query_params on a fresh '
               'parse) is compared with the tree of the inlined text instead']
_Q = {'__nontrivial__': 1411, 'exec:plans-compared': 1810, 'exec:nontrivial': 1520, 'clause:target': 1270,
      'clause:where': 1500, 'clause:on': 660, 'clause:group': 490, 'clause:having': 490, 'clause:order': 610,
      'clause:set': 250, 'clause:values': 140, 'pos:case-operand': 270, 'pos:case-when': 310,
      'pos:case-then': 360, 'pos:case-else': 190, 'pos:func-arg': 280, 'pos:func-from-arg': 110,
      'pos:in-list': 880, 'pos:between': 560, 'scope:sub-left': 190, 'scope:sub-right': 180,
      'scope:sub-where': 360, 'deco:alias': 660, 'tag:insert:rows=2': 30, 'tag:insert:rows=3': 30,
      'tag:stmt:update': 280, 'tag:stmt:delete': 80, 'op:info': 750, 'op:wrong-count': 750, 'wrong:fewer': 450,
      'wrong:more': 230, 'hist:exec-on-reused-planner': 1000, 'hist:exec-after-wrong-count': 410,
      'hist:prepare-over-unexecuted': 680, 'val:int-negative': 900, 'val:float': 1100, 'val:str': 1350,
      'n=0': 120, 'hist:re-execute': 190, 'hist:same-tree-again-after-exec': 110, 'hist:info-after-exec': 85,
      'hist:wrong-count-after-exec': 80, 'wrong:none': 90, 'val:NoneType': 730, 'tag:setop:chain': 360,
      'tag:cte:on-setop': 140, 'tag:cte:before-setop': 55, 'tag:setop-chain:flat': 155,
      'tag:setop-chain:paren-left': 45, 'tag:setop-chain:paren-right': 35, 'tag:setop-chain:n=4': 70,
      'prepare:placeholder-dropped-by-parser': 100, 'hist:cte-name-of-earlier-statement': 40,
      'tag:update:set-column-twice': 15,
      # hunting wave (vf/gens/c12_more.py)
      'catalog:ts': 80, 'deco:under-minus': 430, 'deco:under-minus:2': 170, 'exec:statement-kind-not-planned': 25,
      'hist:execution-abandoned': 230, 'hist:prepare-steps-not-consumed': 310, 'tag:cte:twice': 85,
      'tag:stmt:extra': 200, 'tag:stmt:ts': 40, 'tag:stmt:unplanned': 220, 'tag:unplanned:kb': 16,
      'tag:unplanned:set': 60, 'tag:unplanned:show': 150, 'val:bool': 540, 'tag:ts:latest': 6, 'tag:ts:between': 6,
      'tag:ts:under-insert': 4, 'tag:ts:under-create': 7}
# classes that come (almost) only from the fixed list of histories: the same floor in both tiers
_QF = {'tag:ts:no-group': 2, 'tag:expr:row-tuples': 2, 'tag:update:on-keys': 2, 'tag:create:bare-select': 2,
       'tag:create:or-replace': 2, 'tag:join:sub-second-third': 3, 'tag:join:implicit': 3, 'tag:join:4': 3,
       'tag:expr:in-operand': 3, 'tag:expr:func-from-for': 3, 'tag:expr:cast-colons': 2, 'tag:expr:window-frame': 3,
       'tag:expr:func-distinct': 2, 'tag:cte:in-dml': 10, 'tag:cte:in-sub': 3, 'tag:cte:setop-body': 4,
       'tag:having:in-between': 2, 'tag:pred:using': 4, 'tag:cte:name-not-defined': 6}
FLOORS = {'quick': dict(_Q, **_QF), 'thorough': dict({k: 10 * v for k, v in _Q.items()}, **_QF)}
N = {'quick': 520, 'thorough': 7800}
MAX_OPS = {'quick': 8, 'thorough': 20}
MAX_DEPTH = {'quick': 2, 'thorough': 3}

COLS = [{'name': c, 'type': 'int'} for c in holes.ALL_COLUMNS] + [{'name': 'p', 'type': 'int'}] \
    + [{'name': f'c{i}', 'type': 'str'} for i in range(1, 400)]
_CATALOGS = {
    'names': dict(integrations=['int1', 'int2'], default_namespace='mindsdb'),
    'dicts': dict(integrations=[{'name': 'int1', 'class_type': 'sql', 'type': 'data'},
                                {'name': 'int2', 'class_type': 'sql', 'type': 'data'},
                                {'name': 'proj', 'class_type': 'project', 'type': 'project'}],
                  default_namespace='mindsdb'),
    'default-int1': dict(integrations=['int1', 'int2'], default_namespace='int1'),
    'api': dict(integrations=[{'name': 'int1', 'class_type': 'api', 'type': 'data'},
                              {'name': 'int2', 'class_type': 'sql', 'type': 'data'}], default_namespace='mindsdb'),
    'predictor': dict(integrations=['int1', 'int2'], default_namespace='mindsdb', predictor_namespace='mindsdb',
                      predictor_metadata=[{'name': 'pred', 'integration_name': 'mindsdb'}]),
    'ts': dict(integrations=['int1', 'int2'], default_namespace='mindsdb', predictor_namespace='mindsdb',
               predictor_metadata=[{'name': 'tp', 'integration_name': 'mindsdb', 'timeseries': True, 'window': 10,
                                    'horizon': 3, 'order_by_column': 'a', 'group_by_columns': ['b']},
                                   {'name': 'tp0', 'integration_name': 'mindsdb', 'timeseries': True, 'window': 5,
                                    'horizon': 1, 'order_by_column': 'a', 'group_by_columns': []},
                                   {'name': 'pred', 'integration_name': 'mindsdb'}]),
}
CATALOG_NAMES = ['names', 'names', 'names', 'dicts', 'dicts', 'default-int1', 'default-int1', 'api', 'api', 'predictor',
                 'predictor', 'ts']
PREDICTOR_CATALOGS = ('predictor', 'ts')
MECHANISM_TAGS = shapes.MECHANISM_TAGS + more.MECHANISM_TAGS


def catalog(name):
    return copy.deepcopy(_CATALOGS[name])      # the planner writes into predictor metadata dicts


def prepare(tier):
    import mindsdb_sql.planner  # noqa


# ------------------------------------------------------------------------------------------------ fake executor
def answer(step):
    """What an executor would answer to the column-discovery steps of prepare (as the repo's FakeExecutor does)."""
    from mindsdb_sql.planner import steps
    if isinstance(step, steps.GetTableColumns):
        key = ('int', step.table, step.table)
        return {'values': [], 'columns': {key: copy.deepcopy(COLS)}, 'tables': [key]}
    if isinstance(step, steps.GetPredictorColumns):
        name = step.predictor.parts[-1]
        key = ('int', name, name)
        return {'values': [], 'columns': {key: copy.deepcopy(COLS)}, 'tables': [key]}
    return None


def drive_prepare(pl, tree):
    for step in pl.prepare_steps(tree):
        step.set_result(answer(step))


# ------------------------------------------------------------------------------------------------ structural diffs
def all_diffs(a, b, path='$', out=None, limit=40):
    """Every difference between two struct() images as (path, a_part, b_part); does not descend below a class change."""
    if out is None:
        out = []
    if a == b or len(out) >= limit:
        return out
    if not (isinstance(a, tuple) and isinstance(b, tuple) and a and b) or a[0] != b[0]:
        out.append((path, a, b))
        return out
    tag = a[0]
    if tag == 'node':
        if a[1] != b[1]:
            out.append((path, a, b))
            return out
        fa, fb = dict(a[2:]), dict(b[2:])
        for k in sorted(set(fa) | set(fb)):
            if k not in fa or k not in fb:
                out.append((f'{path}<{a[1]}>.{k}', fa.get(k, 'MISSING'), fb.get(k, 'MISSING')))
            else:
                all_diffs(fa[k], fb[k], f'{path}<{a[1]}>.{k}', out, limit)
        return out
    if tag == 'dict':
        da, db = dict(a[1:]), dict(b[1:])
        if set(da) != set(db):
            out.append((path + '.keys', a, b))
            return out
        for k in sorted(da, key=repr):
            all_diffs(da[k], db[k], f'{path}[{k[-1]!r}]', out, limit)
        return out
    if tag in ('list', 'tuple', 'set', 'frozenset'):
        if len(a) != len(b):
            out.append((path + '.len', a, b))
            return out
        for i, (x, y) in enumerate(zip(a[1:], b[1:])):
            all_diffs(x, y, f'{path}[{i}]', out, limit)
        return out
    out.append((path, a, b))
    return out


_IDNAME = re.compile(r't_\d+')


def canon(img, names=None, drop_exists_query=False):
    """Image with the planner's id()-derived sub-select names (`t_<id(node)>`, plan_join.py) replaced by one opaque
    handle `t_#` (addresses are reused between the separately planned parts of one statement, so neither the names nor
    their pattern of repetition is reproducible; the sub-select itself hangs on the Identifier and is compared);
    optionally without the second reference EXISTS / NOT EXISTS keep to their sub-select."""
    if names is None:
        names = {}
    if not isinstance(img, tuple):
        return img
    if len(img) == 2 and img[0] == 'str' and isinstance(img[1], str):
        if _IDNAME.fullmatch(img[1]):
            names[img[1]] = 't_#'
            return ('str', 't_#')
        return img
    if drop_exists_query and img and img[0] == 'node' and img[1] in ('Exists', 'NotExists'):
        img = img[:2] + tuple(f for f in img[2:] if f[0] != 'query')
    return tuple(canon(x, names, drop_exists_query) for x in img)


def _cls(img):
    return img[1] if isinstance(img, tuple) and len(img) > 1 and img[0] == 'node' else None


def diff_site(d):
    """Where a difference sits: 'Class.field' of the innermost node on the path, or 'ClassA!=ClassB'."""
    path, a, b = d
    ca, cb = _cls(a), _cls(b)
    if ca and cb and ca != cb:
        return f'{ca}!={cb}'
    m = re.findall(r'<(\w+)>\.(\w+)', path)
    if m:
        return f'{m[-1][0]}.{m[-1][1]}' + ('.len' if path.endswith('.len') else '')
    return 'steps' + ('.len' if path.endswith('.len') else '')


def short(x, n=150):
    s = repr(x)
    return s if len(s) <= n else s[:n] + '…'


def check_inlining(timg, eimg, values):
    """Generator soundness: the inlined tree is the template tree with Constant(v) in place of the Parameter nodes and
    the multiset of the v is the value list.  Returns None when sound, else a reason."""
    ds = all_diffs(canon(timg, drop_exists_query=True), canon(eimg, drop_exists_query=True), limit=200)
    seen = []
    for path, a, b in ds:
        signs = minus_chain(a) if _cls(b) == 'Constant' else None
        if signs:
            # `- ?` against `-5`: the parser reads the sign as part of the number
            fa, fb = dict(a[2:]), dict(b[2:])
            v = fb.get('value')
            if fa.get('alias') != fb.get('alias') or fa.get('parentheses') != fb.get('parentheses'):
                return f'decoration differs at {path}'
            if v[0] not in ('int', 'float'):
                return f'unexpected folded literal at {path}'
            num = float(v[1]) if v[0] == 'float' else v[1]
            seen.append(struct(-num if signs % 2 else num))
            continue
        if _cls(a) != 'Parameter' or _cls(b) not in ('Constant', 'NullConstant'):
            return f'difference outside the holes at {path}'
        fa, fb = dict(a[2:]), dict(b[2:])
        if fa.get('alias') != fb.get('alias') or fa.get('parentheses') != fb.get('parentheses'):
            return f'decoration differs at {path}'
        if fa.get('value') != ('str', '?') or fb.get('with_quotes') != ('bool', True):
            return f'unexpected hole image at {path}'
        if (_cls(b) == 'NullConstant') != (fb.get('value') == ('NoneType', None)):
            return f'unexpected NULL image at {path}'
        seen.append(fb.get('value'))
    want = [struct(v) for v in values]
    if sorted(seen, key=repr) != sorted(want, key=repr):
        return f'{len(seen)} literal(s) found in the holes for {len(want)} value(s)'
    return None


def minus_chain(img, leaf='Parameter'):
    """Number of minus signs when img is `- .. - <leaf>` (leaf and inner signs bare: no alias, no parentheses), else None."""
    n = 0
    while _cls(img) == 'UnaryOperation':
        f = dict(img[2:])
        args = f.get('args')
        if f.get('op') != ('str', '-') or not isinstance(args, tuple) or len(args) != 2:
            return None
        if n and (f.get('alias') != ('NoneType', None) or f.get('parentheses') != ('bool', False)):
            return None
        img = args[1]
        n += 1
    if not n or _cls(img) != leaf:
        return None
    f = dict(img[2:])
    if f.get('alias') != ('NoneType', None) or f.get('parentheses') != ('bool', False):
        return None
    return n


def lost_decorations(ds):
    """If every difference is 'the bound Constant has no alias / no parentheses where the literal has one': which."""
    lost = set()
    for path, a, b in ds:
        if path.endswith('<Constant>.alias') and a == ('NoneType', None) and _cls(b) == 'Identifier':
            lost.add('alias')
        elif path.endswith('<Constant>.parentheses') and a == ('bool', False) and b == ('bool', True):
            lost.add('paren')
        else:
            return None
    return lost or None


def binding_tags(ds, values):
    """Mechanism tags for tree-level differences (got = bound by the library, expected = parsed inlined text)."""
    tags = set()
    vimgs = [struct(v) for v in values]
    for path, a, b in ds:
        if _cls(a) == 'Parameter':
            tags.add('binding:left-unbound')
        elif _cls(b) == 'Constant' and minus_chain(a, 'Constant'):
            tags.add('binding:sign-not-folded')
        elif _cls(b) == 'Constant' and minus_chain(a, 'Parameter'):
            tags.add('binding:left-unbound')
        elif _cls(a) == 'Constant' and _cls(b) == 'NullConstant' and dict(a[2:]).get('value') == ('NoneType', None):
            tags.add('binding:null-as-constant')
        elif path.endswith('<Constant>.value'):
            tags.add('binding:value-of-another-hole' if a in vimgs else 'binding:foreign-value')
        elif path.endswith('<Constant>.alias'):
            tags.add('binding:alias-lost')
        elif path.endswith('<Constant>.parentheses'):
            tags.add('binding:parentheses-lost')
    return tags


# ------------------------------------------------------------------------------------------------ the oracle
def hole_features(parts):
    hs = holes.holes(parts)
    f = set()
    if any('alias:' in (h.get('d') or '') for h in hs):
        f.add('hole:aliased')
    if any((h.get('d') or '').startswith('paren') for h in hs):
        f.add('hole:parenthesised')
    if any(h.get('neg') for h in hs):
        f.add('hole:under-minus')
    return f


def clauses_of(parts):
    return sorted({h['h'] for h in holes.holes(parts)})


def template_classes(parts):
    out = set()
    hs = holes.holes(parts)
    for h in hs:
        comps = h['h'].split('/')
        out.add('clause:' + comps[-1])
        for c in comps[:-1]:
            out.add('scope:' + c)
        out.add('pos:' + h['k'])
        d = h.get('d') or ''
        if 'alias:' in d:
            out.add('deco:alias')
        if d.startswith('paren'):
            out.add('deco:paren')
        if h.get('neg'):
            out.add('deco:under-minus')
            out.add('deco:under-minus:%d' % h['neg'])
    n = len(hs)
    out.add('n=0' if n == 0 else 'n=1' if n == 1 else 'n>=2')
    if n >= 5:
        out.add('n>=5')
    return out


def judge_exec(pl, st_, values, etree, cat, cfg, classes):
    """execute(values) on the prepared statement st_ against the inlined text.  Returns (records, compared)."""
    from mindsdb_sql import parse_sql
    from mindsdb_sql.planner import plan_query, utils
    from mindsdb_sql.exceptions import PlanningException
    parts, tpl, n = st_['parts'], st_['tpl'], st_['n']
    inl = shapes.text(parts, values)
    feats = set(st_['feats'])
    out = []
    eimg = struct(etree)
    # the bound tree, observed at utils.fill_query_params on a fresh parse of the `?` text
    try:
        ftree = utils.fill_query_params(parse_sql(tpl), list(values))
        d1 = all_diffs(struct(ftree), eimg)
        fill_exc = None
    except Exception as e:
        d1, fill_exc = [], e
    lost = lost_decorations(d1) if d1 else None
    # the two plans
    exp_exc = got_exc = None
    try:
        exp = plan_query(etree, **catalog(cat)).steps
    except Exception as e:
        exp_exc = e
    vals = list(values)
    try:
        got = list(pl.execute_steps(vals))
    except Exception as e:
        got_exc = e
    if vals != list(values):
        out.append(findings.record('values-mutated', 'execute_steps', feats, cfg, f'{values!r} -> {vals!r}', tpl))
    detail_head = f'values={values!r}; inlined: {inl[:200]}'
    compared = False
    if 'stmt:unplanned' in feats and got_exc is None and not got and isinstance(exp_exc, PlanningException) \
            and str(exp_exc).startswith('Unsupported query type'):
        # a statement kind the planner does not plan (the caller executes it itself): no steps on either path;
        # what binding makes of the tree is observed at utils.fill_query_params
        classes.add('exec:statement-kind-not-planned')
        if fill_exc is not None:
            out.append(findings.record('fill-raises', site_of(fill_exc), feats, cfg, f'{fill_exc!r}; {detail_head}', tpl))
        elif d1:
            out.extend(tree_records('fill-differs', d1, lost, values, feats, cfg, detail_head, tpl))
        return out, fill_exc is None
    if got_exc is None and not got and (exp_exc is not None or exp):
        out.append(findings.record('not-planned', 'execute_steps yields no steps', feats, cfg,
                                   'the prepared statement executes to an empty step list; the inlined statement '
                                   + (f'raises {exp_exc!r}' if exp_exc is not None else
                                      'plans ' + '+'.join(type(s).__name__ for s in exp)) + f'; {detail_head}', tpl))
        return out, False
    if got_exc is not None and exp_exc is not None:
        if type(got_exc) is not type(exp_exc):
            out.append(findings.record('exception-mismatch', f'{type(got_exc).__name__}!={type(exp_exc).__name__}',
                                       feats | binding_tags(d1, values), cfg, f'{got_exc!r} vs {exp_exc!r}; {detail_head}', tpl))
        else:
            classes.add('exec:both-refuse')
            classes.add('refuse:' + type(exp_exc).__name__)
            compared = fill_exc is None
            if fill_exc is not None:
                out.append(findings.record('fill-raises', site_of(fill_exc), feats, cfg,
                                           f'{fill_exc!r}; {detail_head}', tpl))
            elif d1:
                out.extend(tree_records('fill-differs', d1, lost, values, feats, cfg, detail_head, tpl))
        return out, compared
    if got_exc is not None:
        out.append(findings.record('exec-raises', site_of(got_exc), feats | binding_tags(d1, values), cfg,
                                   f'{got_exc!r} (the inlined statement plans); {detail_head}', tpl))
        return out, False
    if exp_exc is not None:
        out.append(findings.record('inline-raises-only', site_of(exp_exc), feats | binding_tags(d1, values), cfg,
                                   f'{exp_exc!r} (the prepared statement plans); {detail_head}', tpl))
        return out, False
    classes.add('exec:plans-compared')
    classes.add('plan:' + '+'.join(sorted({type(s).__name__ for s in exp}))[:80])
    gnames, xnames = {}, {}
    gimg, ximg = canon(struct(got), gnames), canon(struct(exp), xnames)
    if gnames or xnames:
        classes.add('plan:id-named-subselect')
    # no placeholder left
    left = [o for o in walk(got) if type(o).__name__ == 'Parameter' and getattr(o, 'value', None) == '?']
    if left:
        out.append(findings.record('placeholder-left', 'steps', feats, cfg,
                                   f'{len(left)} Parameter(?) in the executed steps; {detail_head}', tpl))
    ds = all_diffs(gimg, ximg)
    try:
        # steps that carry id()-derived names never compare equal between two plannings: structural identity only
        eq = bool(gnames or xnames) or (len(got) == len(exp)
                                        and all((g == e) is True and (e == g) is True for g, e in zip(got, exp)))
    except Exception as e:
        eq = False
        out.append(findings.record('steps-differ', 'PlanStep.__eq__ raises ' + type(e).__name__, feats, cfg,
                                   f'{e!r}; {detail_head}', tpl))
    if not ds:
        if not eq:
            out.append(findings.record('steps-differ', 'PlanStep.__eq__', feats, cfg,
                                       f'structurally identical steps compare unequal; {detail_head}', tpl))
        return out, True
    if lost:
        # hypothesis: the only deviation is the lost alias / parentheses of bound holes
        try:
            neutral = plan_query(parse_sql(shapes.text(parts, values, drop=tuple(lost))), **catalog(cat)).steps
            if canon(struct(neutral)) == gimg:
                classes.add('neutralised:' + '+'.join(sorted(lost)))
                out.append(findings.record(
                    'steps-differ', 'hole-decoration-lost:' + '+'.join(sorted(lost)), feats | binding_tags(d1, values),
                    cfg, f'the executed steps are those of the statement without the '
                         f'{" / ".join(sorted(lost))} of the placeholder(s): first difference {ds[0][0]}: '
                         f'{short(ds[0][1], 60)} vs {short(ds[0][2], 120)}; {detail_head}', tpl))
                return out, True
        except Exception:
            pass
    seen = set()
    tags = binding_tags(d1, values)
    for d in ds:
        s = diff_site(d)
        if s in seen or len(seen) >= 4:
            continue
        seen.add(s)
        out.append(findings.record('steps-differ', s, feats | tags, cfg,
                                   f'{d[0]}: got {short(d[1])} expected {short(d[2])}; {detail_head}', tpl))
    return out, True


def tree_records(kind, d1, lost, values, feats, cfg, detail_head, tpl):
    out = []
    tags = binding_tags(d1, values)
    if lost:
        d = d1[0]
        return [findings.record(kind, 'hole-decoration-lost:' + '+'.join(sorted(lost)), feats | tags, cfg,
                                f'{d[0]}: got {short(d[1], 60)} expected {short(d[2], 120)}; {detail_head}', tpl)]
    seen = set()
    for d in d1:
        s = diff_site(d)
        if s in seen or len(seen) >= 4:
            continue
        seen.add(s)
        out.append(findings.record(kind, s, feats | tags, cfg,
                                   f'{d[0]}: got {short(d[1])} expected {short(d[2])}; {detail_head}', tpl))
    return out


def judge(case, col):
    from mindsdb_sql import parse_sql
    from mindsdb_sql.planner import query_planner, plan_query
    from mindsdb_sql.exceptions import PlanningException
    cat = case['catalog']
    cfg = {'catalog': cat}
    out = []
    classes = {'catalog:' + cat}
    pl = query_planner.QueryPlanner(**catalog(cat))
    cur = None                  # the model: last prepared template
    last_prep = None            # parts / tags / tree object / image of the last prepare (for `same`)
    earlier_ctes = set()        # names of the CTEs of the statements executed before on this planner
    nontrivial = False
    n_exec = 0
    summary = []
    last_op = None
    for op in case['ops']:
        kind = op['op']
        if kind == 'prepare':
            same = bool(op.get('same'))
            if same:
                # the caller prepares the very tree object again that it prepared last (on this planner)
                if last_prep is None or last_prep['n'] == 0:
                    continue
                parts, tags, tree, timg, n = (last_prep[x] for x in ('parts', 'tags', 'tree', 'timg', 'n'))
                tpl = shapes.text(parts)
                was_executed = last_prep['executed']      # execute_steps has run on this tree object
                prev_unexecuted = cur is not None and not cur['executed']
                cur = None
                summary.append('prepare the same tree object again')
                lossy = False
            else:
                parts, tags = op['t'], op.get('tags', [])
                tpl = shapes.text(parts)
                n = len(holes.holes(parts))
                prev_unexecuted = cur is not None and not cur['executed']
                cur = None
                last_prep = None
                summary.append('prepare: ' + tpl)
                try:
                    tree = parse_sql(tpl)
                except Exception as e:
                    col.excluded('template not parsed: ' + site_of(e))
                    continue
                timg = struct(tree)
                k = sum(1 for o in walk(tree) if type(o).__name__ == 'Parameter')
                # a SET list that names a column twice: the parser keeps one assignment per column, a placeholder of
                # the dropped one is not in the tree; still n placeholders are in the statement
                lossy = k < n and 'update:set-column-twice' in tags
                if k != n and not lossy:
                    col.excluded(f'parsed template holds {k} Parameter nodes for {n} holes')
                    continue
            feats = hole_features(parts) | {'stmt:' + type(tree).__name__.lower()} \
                | {t for t in tags if t in MECHANISM_TAGS}
            if same:
                feats.add('hist:same-tree-prepared-again')
                classes.add('hist:same-tree-again')
                if was_executed:
                    feats.add('hist:same-tree-after-exec')
                    classes.add('hist:same-tree-again-after-exec')
            classes.add('op:prepare')
            if lossy:
                classes.add('prepare:placeholder-dropped-by-parser')
            if prev_unexecuted:
                classes.add('hist:prepare-over-unexecuted')
            try:
                if op.get('lazy'):
                    # the caller asks for the parameters only: the column-discovery steps are not run
                    classes.add('hist:prepare-steps-not-consumed')
                    pl.prepare_steps(tree)
                else:
                    drive_prepare(pl, tree)
            except Exception as e:
                # refused: judged against preparing the statement with literals
                probe = shapes.text(parts, list(range(1, n + 1)))
                try:
                    pl2 = query_planner.QueryPlanner(**catalog(cat))
                    drive_prepare(pl2, parse_sql(probe))
                    e2 = None
                except Exception as ex:
                    e2 = ex
                if e2 is not None and type(e2) is type(e):
                    classes.add('prepare:refused-like-inline')
                    classes.add('prepare-refused:' + str(e)[:40])
                    if not isinstance(e, PlanningException):
                        # not a refusal but a crash: the planner itself plans the statement
                        try:
                            plan_query(parse_sql(probe), **catalog(cat))
                            planned = True
                        except Exception:
                            planned = False
                        if planned:
                            classes.add('prepare:crash-on-plannable')
                            out.append(findings.record(
                                'prepare-raises', site_of(e), feats, cfg,
                                f'{e!r}: not a PlanningException (preparing the inlined statement raises the same), '
                                f'while plan_query plans the inlined statement', tpl))
                else:
                    out.append(findings.record('prepare-raises', site_of(e), feats, cfg,
                                               f'{e!r}; preparing the inlined statement: {e2!r}', tpl))
                # the statement object exists all the same (params are collected before the columns)
            cur = {'parts': parts, 'tpl': tpl, 'n': n, 'executed': False, 'feats': feats, 'timg': timg, 'tags': tags}
            if not lossy:
                last_prep = {'parts': parts, 'tags': tags, 'tree': tree, 'timg': timg, 'n': n,
                             'executed': bool(same and was_executed)}
            rec = check_count(pl, cur, cfg, 'after prepare')
            if rec:
                out.append(rec)
            if lossy or (same and rec):
                cur = None          # nothing further to compare: the tree is not the template any more
        elif kind == 'info':
            if cur is None:
                continue
            feats = set(cur['feats'])
            if cur['executed']:
                feats.add('hist:statement-executed-before')
                classes.add('hist:info-after-exec')
            classes.add('op:info')
            if last_op == 'wrong':
                classes.add('hist:info-after-wrong-count')
            summary.append('info')
            rec = check_count(pl, cur, cfg, 'info()', feats)
            if rec:
                out.append(rec)
        elif kind == 'exec':
            values = op['v']
            if cur is None or len(values) != cur['n']:
                continue
            again = cur['executed']
            summary.append(f'execute {values!r}' + (' (again)' if again else ''))
            inl = shapes.text(cur['parts'], values)
            try:
                etree = parse_sql(inl)
            except Exception as e:
                col.excluded('inlined text not parsed: ' + site_of(e))
                continue
            why = check_inlining(cur['timg'], struct(etree), values)
            if why:
                col.excluded('inlined tree is not the template with literals in the holes: ' + why.split(' at ')[0])
                continue
            classes.add('op:exec')
            n_exec += 1
            if n_exec >= 2:
                classes.add('hist:exec-on-reused-planner')
            if last_op == 'wrong':
                classes.add('hist:exec-after-wrong-count')
            st_ = cur
            if again:
                classes.add('hist:re-execute')
                st_ = dict(cur, feats=set(cur['feats']) | {'hist:statement-executed-before'})
            if any(v is None for v in values):
                st_ = dict(st_, feats=set(st_['feats']) | {'value:null'})
            if any(re.search(r'\b(FROM|JOIN) %s\b' % w, cur['tpl']) for w in sorted(earlier_ctes)):
                # a table reference spelled like a CTE of an earlier statement of this planner
                classes.add('hist:cte-name-of-earlier-statement')
                st_ = dict(st_, feats=set(st_['feats']) | {'hist:cte-name-of-earlier-statement'})
            earlier_ctes |= set(re.findall(r'\bWITH (\w+) AS \(', cur['tpl']))
            for v in values:
                classes.add('val:' + type(v).__name__ + ('-negative' if isinstance(v, (int, float)) and v < 0 else ''))
            recs, compared = judge_exec(pl, st_, values, etree, cat, cfg, classes)
            out.extend(recs)
            cur['executed'] = True
            if last_prep is not None:
                last_prep['executed'] = True
            tc = template_classes(cur['parts'])
            classes |= tc
            classes |= {'tag:' + t for t in cur['tags'] if t.startswith(('stmt:', 'sub:', 'setop:', 'pred:', 'insert:',
                                                                          'update:', 'cte', 'expr:', 'setop-chain:',
                                                                          'unplanned:', 'ts:', 'join:', 'having:',
                                                                          'create:'))}
            if compared and cur['n'] >= 2 and len(clauses_of(cur['parts'])) >= 2:
                nontrivial = True
                classes.add('exec:nontrivial')
                if again:
                    classes.add('exec:nontrivial-again')
        elif kind == 'abandon':
            # execute_steps(values) whose step generator is dropped unconsumed / after the first step
            values = op['v']
            if cur is None or len(values) != cur['n']:
                continue
            classes.add('hist:execution-abandoned')
            summary.append(f'execute {values!r}, steps ' + ('not consumed' if not op.get('first') else 'dropped after one'))
            try:
                it = pl.execute_steps(list(values))
                if op.get('first'):
                    next(iter(it), None)
            except Exception:
                pass
            cur['executed'] = True
            if last_prep is not None:
                last_prep['executed'] = True
        elif kind == 'wrong':
            values = op['v']
            if cur is None or (values is None and cur['n'] == 0) or (values is not None and len(values) == cur['n']):
                continue
            feats = set(cur['feats'])
            if cur['executed']:
                feats.add('hist:statement-executed-before')
                classes.add('hist:wrong-count-after-exec')
            classes.add('op:wrong-count')
            if values is None:
                # execute_steps() / execute_steps(None): no values for n >= 1 placeholders
                classes.add('wrong:none')
                site, given = 'given=None', 'no value list'
            else:
                classes.add('wrong:fewer' if len(values) < cur['n'] else 'wrong:more')
                site, given = ('given<n' if len(values) < cur['n'] else 'given>n'), f'{len(values)} value(s)'
            summary.append(f'execute with {given} for {cur["n"]}')
            try:
                list(pl.execute_steps(None if values is None else list(values)))
                out.append(findings.record('wrong-count-accepted', site, feats, cfg,
                                           f'{given} for {cur["n"]} placeholder(s) planned without error',
                                           cur['tpl']))
                cur = last_prep = None      # planned as it is: the caller's tree has been through the planner
            except PlanningException:
                if values is None:
                    # which check refused is not observable: the call may have passed the count check and failed in
                    # planning, i.e. it may have been an execution
                    cur['executed'] = True
                    last_prep = None
            except Exception as e:
                out.append(findings.record('wrong-count-other-exception', site_of(e), feats, cfg,
                                           f'{given} for {cur["n"]} placeholder(s): {e!r}', cur['tpl']))
        last_op = kind
    key = json.dumps([case['catalog']] + [{k: v for k, v in op.items() if k != 'tags'} for op in case['ops']],
                     sort_keys=True)
    col.case(key, nontrivial, sorted(classes), {'catalog': cat, 'history': summary})
    return out


def check_count(pl, cur, cfg, when, feats=None):
    feats = cur['feats'] if feats is None else feats
    try:
        info = pl.get_statement_info()
        k = len(info['parameters'])
    except Exception as e:
        return findings.record('info-raises', site_of(e), feats, cfg, f'{when}: {e!r}', cur['tpl'])
    if k != cur['n']:
        return findings.record('count-mismatch', 'reported<n' if k < cur['n'] else 'reported>n', feats, cfg,
                               f'{when}: {k} parameter(s) reported for {cur["n"]} placeholder(s) in '
                               f'{clauses_of(cur["parts"])}', cur['tpl'])
    return None


# ------------------------------------------------------------------------------------------------ histories
@st.composite
def histories(draw, max_ops=8, max_depth=2):
    cat = draw(st.sampled_from(CATALOG_NAMES))
    nops = draw(st.integers(2, max_ops))
    ops = []
    n = None
    executed = True
    for _ in range(nops):
        if n is None:
            kind = 'prepare'
        elif executed:
            # on an executed statement: mostly the next prepare; else execute it again / info / wrong count / the caller
            # prepares the same tree object once more
            kind = draw(st.sampled_from(['prepare'] * 6 + (['exec', 'exec', 'info', 'wrong', 'same'] if n >= 1
                                                           else ['info', 'exec', 'exec'])))
        else:
            kind = draw(st.sampled_from(['exec'] * 8 + ['info'] * 4 + ['wrong'] * 4 + ['prepare'] * 4
                                        + (['same'] if n >= 1 else [])))
        if kind == 'prepare':
            t = draw(more.template(cat, predictor=(cat in PREDICTOR_CATALOGS), max_depth=max_depth))
            ops.append({'op': 'prepare', 't': t['parts'], 'tags': t['tags']})
            if draw(st.integers(0, 9)) == 0:
                ops[-1]['lazy'] = True
            parts = t['parts']
            n = len(holes.holes(parts))
            executed = False
        elif kind == 'same':
            ops.append({'op': 'prepare', 'same': True})
            executed = False
        elif kind == 'info':
            ops.append({'op': 'info'})
        elif kind == 'exec':
            if draw(st.integers(0, 11)) == 0:
                ops.append({'op': 'abandon', 'v': draw(more.values_for(parts)), 'first': draw(st.booleans())})
            ops.append({'op': 'exec', 'v': draw(more.values_for(parts))})
            executed = True
        else:
            m = draw(st.sampled_from([k for k in range(n + 3) if k != n] + ([None] if n >= 1 else [])))
            ops.append({'op': 'wrong', 'v': None if m is None else draw(shapes.values(m))})
    if not executed:
        ops.append({'op': 'exec', 'v': draw(more.values_for(parts))})
    return {'catalog': cat, 'ops': ops}


def fixed_histories():
    """Bounded list: the shapes of c12_shapes (set-operation chains, WITH before / on a set operation, SET list with a
    column twice) x 3 catalogs x 4 history forms (plain; after an executed CTE statement of the same CTE name; executed
    twice + info + wrong counts; the same tree prepared again after execution)."""
    def H(h, k='operand', d=''):
        return {'h': h, 'k': k, 'd': d}
    head = ['WITH w1 AS ( SELECT a AS c1 , b AS c2 FROM int1.t1 WHERE c =', H('cte/where'), ')']
    # planned step by step (two integrations), so that the planner keeps the result of the CTE
    cte_sel = head + ['SELECT w1.c1 FROM w1 JOIN int2.t3 AS x3 ON x3.a = w1.c1 WHERE w1.c2 =', H('where')]
    stmts = []
    for paren in (True, False):
        for n in (2, 3):
            body = ['SELECT w1.c1 FROM w1 WHERE w1.c2 =', H('union-1/where'), 'UNION SELECT a FROM int1.t2 WHERE c =',
                    H('union-2/where')]
            if n == 3:
                body += ['EXCEPT SELECT d FROM int2.t3 WHERE a =', H('union-3/where')]
            stmts.append((head + (['('] + body + [')'] if paren else body),
                          ['cte:on-setop' if paren else 'cte:before-setop'] + (['setop:chain'] if n == 3 else [])))
    s1 = ['SELECT a FROM int1.t1 WHERE b =', H('union-1/where')]
    s2 = ['SELECT a FROM int1.t2 WHERE c =', H('union-2/where')]
    s3 = ['SELECT d FROM int2.t3 WHERE a =', H('union-3/where')]
    s4 = ['SELECT e FROM int2.t4 WHERE a IN (', H('union-4/where', 'in-list'), ',', H('union-4/where', 'in-list'), ')']
    for o1, o2 in (('UNION', 'UNION'), ('UNION ALL', 'EXCEPT'), ('INTERSECT', 'UNION')):
        stmts.append((s1 + [o1] + s2 + [o2] + s3, ['setop:chain']))
        stmts.append((['('] + s1 + [o1] + s2 + [')', o2] + s3, ['setop:chain']))
        stmts.append((s1 + [o1, '('] + s2 + [o2] + s3 + [')'], ['setop:chain']))
    stmts.append((s1 + ['UNION'] + s2 + ['UNION'] + s3 + ['UNION ALL'] + s4, ['setop:chain']))
    for sets in (['a', 'b', 'a'], ['a', 'a'], ['b', 'a', 'c', 'a'], ['a', 'b', 'b']):
        parts = ['UPDATE int1.t1 SET']
        for i, c in enumerate(sets):
            parts += ([','] if i else []) + [c + ' =', H('set')]
        stmts.append((parts + ['WHERE c =', H('where')], ['update:set-column-twice']))
    stmts.append((['UPDATE int1.t1 SET a = a , b =', H('set'), ', a =', H('set'), 'WHERE c =', H('where')],
                  ['update:set-column-twice']))
    out = []
    for cat in ('names', 'dicts', 'default-int1'):
        for parts, tags in stmts:
            parts = holes.merge_text(parts)
            n = len(holes.holes(parts))
            v1, v2 = list(range(101, 101 + n)), [None, 'x'] + list(range(203, 201 + n))
            prep = {'op': 'prepare', 't': parts, 'tags': tags}
            out.append({'catalog': cat, 'ops': [prep, {'op': 'info'}, {'op': 'exec', 'v': v1}]})
            out.append({'catalog': cat, 'ops': [{'op': 'prepare', 't': holes.merge_text(cte_sel), 'tags': ['cte']},
                                                {'op': 'exec', 'v': [1, 2]}, prep, {'op': 'exec', 'v': v1}]})
            out.append({'catalog': cat, 'ops': [prep, {'op': 'wrong', 'v': None}, {'op': 'exec', 'v': v1},
                                                {'op': 'info'}, {'op': 'wrong', 'v': v1[:-1]},
                                                {'op': 'exec', 'v': v2[:n]}]})
            out.append({'catalog': cat, 'ops': [prep, {'op': 'exec', 'v': v1}, {'op': 'prepare', 'same': True},
                                                {'op': 'info'}, {'op': 'exec', 'v': v2[:n]}]})
    # a table reference spelled like the CTE of the statement executed before, in a statement that does not define it
    # (the results of common table expressions must not outlive their plan)
    for cat in ('names', 'dicts', 'default-int1'):
        for text_ in ('SELECT w1.c1 FROM w1 JOIN int2.t3 AS x3 ON x3.a = w1.c1 WHERE w1.c2 = ?:where',
                      'SELECT x.a FROM int2.t3 AS x JOIN w1 ON x.a = w1.c1 WHERE x.d = ?:where',
                      'SELECT c1 FROM w1 WHERE c2 = ?:where AND c1 > ?:where',
                      'SELECT a FROM int1.t1 WHERE a IN ( SELECT c1 FROM w1 WHERE c2 = ?:sub-where/where ) AND b = ?:where'):
            parts, tags = more.T(text_, ['cte:name-not-defined'])
            v1, _ = more.fixed_values(parts, 101)
            out.append({'catalog': cat, 'ops': [{'op': 'prepare', 't': holes.merge_text(cte_sel), 'tags': ['cte']},
                                                {'op': 'exec', 'v': [1, 2]},
                                                {'op': 'prepare', 't': parts, 'tags': tags}, {'op': 'exec', 'v': v1}]})
    # the shapes of c12_more (hunting wave): 2 history forms each
    for cat, lst in (('names', more.EXTRA + more.UNPLANNED), ('dicts', more.EXTRA + more.UNPLANNED),
                     ('predictor', more.EXTRA_PREDICTOR), ('ts', more.TS + more.EXTRA_PREDICTOR)):
        for parts, tags in lst:
            v1, v2 = more.fixed_values(parts, 101)
            prep = {'op': 'prepare', 't': parts, 'tags': tags}
            out.append({'catalog': cat, 'ops': [prep, {'op': 'info'}, {'op': 'exec', 'v': v1}]})
            out.append({'catalog': cat, 'ops': [dict(prep, lazy=True), {'op': 'wrong', 'v': v1 + [1]},
                                                {'op': 'exec', 'v': v2}, {'op': 'info'}, {'op': 'wrong', 'v': v1[:-1]},
                                                {'op': 'abandon', 'v': v1, 'first': True}, {'op': 'exec', 'v': v1}]})
    return out


def run_shard(col, k, nshards, tier, seed):
    for i, c in enumerate(fixed_histories()):
        if i % nshards == k:
            for r in judge(c, col):
                col.fail(r, c)
    col.exhaustive_parts.append('fixed list of histories: set-operation chains (flat / parenthesised pair left / right), '
                                'WITH before and on a set operation, UPDATE SET naming a column twice, x 3 catalogs x 4 '
                                'history forms; the lists EXTRA / EXTRA_PREDICTOR / UNPLANNED / TS of vf/gens/c12_more.py x 2 '
                                'catalogs x 2 history forms; 4 statements naming the CTE of the statement executed before without defining it '
                                'x 3 catalogs')
    hyp.explore(col, histories(MAX_OPS[tier], MAX_DEPTH[tier]), judge, N[tier], seed,
                shrink_key=lambda r: (r['kind'], r['site'][:40]))
    total = col.evaluations
    dropped = sum(v for kk, v in col.excluded_c.items())
    if total and dropped > 0.05 * (total + dropped) and dropped > 20:
        raise RuntimeError(f'generator unsound: {dropped} dropped operations for {total} histories: '
                           f'{dict(col.excluded_c)}')
