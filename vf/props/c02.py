"""C02 — parse_sql terminates on every input with a tree, a ParsingException or the lexer's LexError."""
import re, signal, traceback
from hypothesis import strategies as st

from vf import findings, hyp
from vf.gens import corpus, grammar, mutate, c02_size

PROPERTY = 'C02'
RULE = ('cases = (dialect, text): coverage-guided byte-level campaign (atheris/libFuzzer, dictionary of all lexemes, 16 processes) + corpus statements, random grammar derivations, single/double token mutations of '
        'both, random lexeme sequences, SQL-flavoured and arbitrary Unicode text, pump inputs (opening lexeme + a 1-3 character fragment repeated 30-70 times; the parse runs under a 30 s watchdog) + bounded-exhaustive: the pump grid (every opening lexeme x every fragment of one character or of two with a backslash x 60 x every closing); every production of each live grammar with every alternative of each of its nonterminals; keywords of those sentences re-spelled with the non-ASCII letters that re.IGNORECASE equates with i / s / k (one per token type x neighbours x variant); size grids (vf/gens/c02_size.py): every chain construct (46 expression chains: operators, casts, NOT / minus, dots, IS / IN / BETWEEN / LIKE, CASE, nested calls, json values ..) repeated up to 2000 characters / parenthesis depth 50 in each of 54 expression positions (incl. the positions where a grammar action rejects and prints the tree) + 36 statement-level lists, and ONE long token (28 kinds: digits around the 4300-digit limit of int() / str() of Python in several scripts, floats, names, quoted names, strings, variables, comments) in each of 70 positions; 47 short tokens of characters nobody types (decimal digits of other scripts, which the \\d of the lexers takes, superscripts / fractions, lone surrogates, NUL, blanks that the lexers do not skip) in the same 70 positions; non-trivial = not verbatim from the '
        'corpus and lexes completely (reaches the parser); distinct by (dialect, text)')
ASSUMPTIONS = ['termination is observed under a 30 s per-case watchdog, not proved',
               'RecursionError is judged only for inputs <= 2000 characters with parenthesis depth <= 50 (the size-chain grid fills exactly this box); '
               'every other internal error is judged on inputs of any length (the statement bounds only RecursionError by size)',
               'quadratic running time (trailing blanks are stripped with a backtracking pattern: 50 000 blanks take 11 s) is not non-termination: the long-token grid stays below 10 000 characters']
FLOORS = {'quick': {'accepted': 2000, 'rejected-at-token': 3000, 'rejected-at-end': 300, 'lexerror': 300,
                    '__nontrivial__': 8000, 'origin:unicode-case': 4000, 'origin:pairs': 8000,
                    'origin:size-chain': 1000, 'origin:size-lexeme': 2000, 'origin:odd-lexeme': 3000, 'origin:pump-grid': 1700},
          'thorough': {'accepted': 20000, 'rejected-at-token': 30000, 'rejected-at-end': 3000, 'lexerror': 3000,
                       '__nontrivial__': 80000, 'origin:unicode-case': 4000, 'origin:pairs': 8000,
                       'origin:size-chain': 5000, 'origin:size-lexeme': 2600, 'origin:odd-lexeme': 3000, 'origin:pump-grid': 1700}}
N = {'quick': 1500, 'thorough': 20000}
WATCHDOG_S = 30

_LEX = {}
_TOK = {}
_CORPUS = set()


class _Timeout(BaseException):
    pass


def _alarm(signum, frame):
    raise _Timeout()


def prepare(tier):
    from mindsdb_sql import get_lexer_parser
    for d in corpus.DIALECTS:
        lexer, parser = get_lexer_parser(d)
        _LEX[d] = type(lexer)
        grammar.get(d)
        bases = []
        for x in corpus.accepted(d) + corpus.rejected(d):
            toks = mutate.source_tokens(_LEX[d], re.sub(r'[\s;]+$', '', x['sql']))
            if toks and len(toks) <= 80:
                bases.append(toks)
        _TOK[d] = bases
    for x in corpus.accepted() + corpus.rejected():
        _CORPUS.add((x['dialect'], x['sql']))
    unicode_case_cases()        # built once, before the fork


def site_of(exc):
    """(ExcType, innermost frame inside mindsdb_sql or sly) as 'Type@module.func'."""
    tb = traceback.extract_tb(exc.__traceback__)
    where = '?'
    for fr in tb:
        fn = fr.filename.replace('\\', '/')
        if '/mindsdb_sql/' in fn or '/sly/' in fn:
            mod = fn.split('/mindsdb_sql/')[-1] if '/mindsdb_sql/' in fn else 'sly/' + fn.split('/sly/')[-1]
            where = mod[:-3].replace('/', '.') + '.' + fr.name
    return f'{type(exc).__name__}@{where}'


_PRINTER_FRAMES = ('__str__', 'to_string', 'get_string')


def recursion_origin(exc):
    """(module.func, source line) of the library frame that started the recursion: the frame that calls the tree printer
    if the recursion is inside the printer, else the innermost frame of one of the grammar files."""
    tb = traceback.extract_tb(exc.__traceback__)
    lib = [fr for fr in tb if '/mindsdb_sql/' in fr.filename.replace('\\', '/') or '/sly/' in fr.filename.replace('\\', '/')]

    def name(fr):
        fn = fr.filename.replace('\\', '/')
        mod = fn.split('/mindsdb_sql/')[-1] if '/mindsdb_sql/' in fn else 'sly/' + fn.split('/sly/')[-1]
        return mod[:-3].replace('/', '.') + '.' + fr.name
    for i, fr in enumerate(lib):
        if fr.name in _PRINTER_FRAMES and fr.filename.replace('\\', '/').endswith('/parser/ast/base.py'):
            if i:
                return name(lib[i - 1]), (lib[i - 1].line or '').strip()
            break
    for fr in reversed(lib):
        if fr.filename.replace('\\', '/').endswith(('/parser.py', 'mindsdb_sql/__init__.py')):
            return name(fr), (fr.line or '').strip()
    return '?', ''


def paren_depth(s):
    d = m = 0
    for ch in s:
        if ch == '(':
            d += 1; m = max(m, d)
        elif ch == ')':
            d = max(0, d - 1)
    return m


def judge(case, col):
    from mindsdb_sql import parse_sql
    from mindsdb_sql.exceptions import ParsingException
    from mindsdb_sql.parser.ast.base import ASTNode
    from sly.lex import LexError
    d, sql = case['dialect'], case['sql']
    shown = sql             # what is stored / shown: the text itself, or its escaped form (lone surrogates can not be written to files)
    if case.get('enc') == 'escape':
        sql = sql.encode('ascii').decode('unicode_escape')
    cfg = {'dialect': d}
    out = []
    classes = ['dialect:' + d, 'origin:' + case.get('origin', '?').split(':')[0]]
    old = signal.signal(signal.SIGALRM, _alarm)
    signal.setitimer(signal.ITIMER_REAL, WATCHDOG_S)
    try:
        try:
            r = parse_sql(sql, d)
            if isinstance(r, ASTNode):
                classes.append('accepted')
            else:
                out.append(findings.record('non-tree-result', type(r).__name__, [], cfg, repr(r)[:200], shown))
        except ParsingException as e:
            msg = str(e)
            if 'unexpected end of query' in msg or 'at EOF' in msg:
                classes.append('rejected-at-end')
            elif 'unknown input' in msg or 'Syntax error at token' in msg:
                classes.append('rejected-at-token')
            else:
                classes.append('rejected-by-action')
        except LexError as e:
            str(e)
            classes.append('lexerror')
        except RecursionError as e:
            if len(sql) <= 2000 and paren_depth(sql) <= 50:
                origin, line = recursion_origin(e)
                out.append(findings.record('internal-error', 'RecursionError', ['from:' + origin], cfg, line, shown))
            else:
                col.excluded('recursion on oversized input')
        except _Timeout:
            raise
        except Exception as e:
            out.append(findings.record('internal-error', site_of(e), [], cfg, f'{type(e).__name__}: {e}'.encode('utf-8', 'backslashreplace').decode('utf-8'), shown))
    except _Timeout:
        out.append(findings.record('no-termination', f'watchdog {WATCHDOG_S}s', [], cfg, '', shown))
    finally:
        signal.setitimer(signal.ITIMER_REAL, 0)
        signal.signal(signal.SIGALRM, old)
    verbatim = (d, sql) in _CORPUS
    reached_parser = 'lexerror' not in classes
    col.case((d, shown), (not verbatim) and reached_parser, classes, {'dialect': d, 'sql': shown, 'outcome': classes[2:]})
    return out


SQLISH = ['select', 'from', 'where', ' ', ' ', '(', ')', ',', '.', "'", '"', '`', '\\', '@', '-', '--', '/*', '*/', '*', '/',
          '1', '0', 'a', 'b', 't', '=', '<', '>', '!', ';', '\n', 'and', 'or', 'not', 'in', 'null', 'create', 'model',
          'join', 'on', 'as', 'order by', 'group by', 'limit', 'case', 'when', 'then', 'end', 'using', '{', '}', '[', ']',
          ':', '%', '+', '->', '->>', '::', '||', '?', '$', 'é', ' ', '\t', 'union', 'insert into', 'values',
          'update', 'set', 'delete', 'show', 'describe', 'between', 'like', 'is', 'cast', 'interval', 'latest']


OPT_KEYS = ['model', 'storage', 'type', 'database', 'agent', 'engine', 'a']
OPT_VALUES = ["''", "'x'", "'a.b'", "'.'", "' '", '1', 'null', 'true', 'a', 'a.b', '"x"', '""', '{"k": 1}', '[1]', '1.5', '`a b`']
OPT_COMMANDS = ['CREATE KNOWLEDGE_BASE kb USING {o}', 'CREATE KNOWLEDGE_BASE kb FROM (select 1) USING {o}', 'CREATE AGENT ag USING {o}',
                'CREATE SKILL sk USING {o}', 'CREATE CHATBOT cb USING {o}', 'UPDATE AGENT ag SET {o}', 'UPDATE SKILL sk SET {o}',
                'UPDATE CHATBOT cb SET {o}', 'CREATE ML_ENGINE e FROM h USING {o}', 'CREATE MODEL m PREDICT p USING {o}',
                'RETRAIN m USING {o}', 'SELECT * FROM t USING {o}', 'CREATE ANOMALY DETECTION MODEL m PREDICT p USING {o}',
                'EVALUATE acc FROM (select 1) USING {o}', 'CREATE DATABASE d USING {o}']
PUMP_ALPHABET = ['\\', "'", '"', '`', 'a', '1', ' ', '\n', '.', '-', '*', '/', '(', ')', ',', '@', '$', '{', '#', '_', 'e', '+', 'é']
PUMP_PREFIX = ['select ', 'select a from t where b = ', '', 'create model m predict p using k = ', 'select a.']
PUMP_OPEN = ["'", '"', '`', '/*', '--', '#', '', '(', '@', '1', '1.', 'a', '$', '{{', 'x = ']
PUMP_CLOSE = ['', '', "'", '"', '`', '*/', ')', ' from t', '\n']
PUMP_GRID_CLOSE = ['', "'", '"', '`', '*/']


@st.composite
def cases(draw, pool='lite'):
    d = draw(st.sampled_from(corpus.DIALECTS))
    gg = grammar.get(d)
    mode = draw(st.sampled_from(['grammar', 'grammar', 'mut-corpus', 'mut-corpus', 'mut-grammar', 'mut-grammar',
                                 'lexemes', 'sqlish', 'unicode'] * 2 + ['pump', 'long']))
    if mode == 'pump':
        # a short fragment repeated many times after an opening lexeme: scanning and parsing time must not explode
        # (the watchdog in judge() turns a parse that does not come back into a `no-termination` record)
        frag = ''.join(draw(st.lists(st.sampled_from(PUMP_ALPHABET), min_size=1, max_size=3)))
        sql = (draw(st.sampled_from(PUMP_PREFIX)) + draw(st.sampled_from(PUMP_OPEN)) + frag * draw(st.integers(30, 70))
               + draw(st.sampled_from(PUMP_CLOSE)))
        return {'dialect': d, 'sql': sql, 'origin': mode}
    if mode == 'long':
        # between the points of the size grids: a chain of any length up to the box, or a token of any length around
        # the 4300-digit limit, in any position
        if draw(st.booleans()):
            build = c02_size.CHAINS[draw(st.sampled_from(sorted(c02_size.CHAINS)))]
            ctx = draw(st.sampled_from(c02_size.CONTEXTS))
            sql = ctx.replace('{X}', build(draw(st.integers(1, c02_size._fit(build, len(ctx) - 3)))))
        else:
            make = c02_size.LEXEMES[draw(st.sampled_from(sorted(c02_size.LEXEMES)))][0]
            sql = draw(st.sampled_from(c02_size.LEXEME_CONTEXTS)).replace('{L}', make(draw(st.integers(2, 5000))))
        return {'dialect': d, 'sql': sql, 'origin': mode}
    if mode == 'grammar':
        toks = draw(gg.sentence(pool=pool))
        sql = ' '.join(toks)
    elif mode in ('mut-corpus', 'mut-grammar'):
        base = draw(st.sampled_from(_TOK[d])) if mode == 'mut-corpus' else draw(gg.sentence(pool=pool))
        kind, toks = draw(mutate.mutation(base, gg.all_lexemes(pool)))
        mode += ':' + kind
        if draw(st.integers(0, 4)) == 0:
            kind, toks = draw(mutate.mutation(toks, gg.all_lexemes(pool)))
        sql = ' '.join(toks)
        if draw(st.integers(0, 5)) == 0:
            sql = draw(mutate.layout(toks))
    elif mode == 'lexemes':
        toks = draw(st.lists(st.sampled_from(gg.all_lexemes(pool)), min_size=1, max_size=12))
        sql = ' '.join(toks)
    elif mode == 'sqlish':
        sql = ''.join(draw(st.lists(st.sampled_from(SQLISH), min_size=1, max_size=25)))
    else:
        sql = draw(st.text(max_size=40))
    return {'dialect': d, 'sql': sql, 'origin': mode}


UC_VARIANTS = [('dotted-I', str.maketrans({'i': '\u0130', 'I': '\u0130'})), ('dotless-i', str.maketrans({'i': '\u0131', 'I': '\u0131'})),
               ('long-s', str.maketrans({'s': '\u017f', 'S': '\u017f'})), ('kelvin', str.maketrans({'k': '\u212a', 'K': '\u212a'}))]
_UC = []


def unicode_case_cases():
    """For every keyword occurrence (token whose text is a plain ASCII word and whose type is not ID) in the production-pair
    sentences: the sentence with that one keyword re-spelled; one representative per (dialect, token type, previous and next
    token type, variant).  Only spellings the lexer still reads as the same token type are kept."""
    if _UC:
        return _UC
    import re as _re
    seen = set()
    for d in corpus.DIALECTS:
        lexcls = _LEX[d]
        for label, toks in grammar.get(d).pair_sentences():
            text = ' '.join(toks)
            try:
                lexed = list(lexcls().tokenize(text))
            except Exception:
                continue
            for j, t in enumerate(lexed):
                src = text[t.index:t.end] if getattr(t, 'end', None) else str(t.value)
                if t.type in ('ID', 'QUOTE_STRING', 'DQUOTE_STRING', 'INTEGER', 'FLOAT') or not _re.fullmatch(r'[A-Za-z_]+', src or ''):
                    continue
                for vname, table in UC_VARIANTS:
                    new = src.translate(table)
                    if new == src:
                        continue
                    key = (d, t.type, lexed[j - 1].type if j else '^', lexed[j + 1].type if j + 1 < len(lexed) else '$', vname)
                    if key in seen:
                        continue
                    sql = text[:t.index] + new + text[t.index + len(src):]
                    try:
                        again = list(lexcls().tokenize(sql))
                    except Exception:
                        continue
                    if len(again) != len(lexed) or again[j].type != t.type:
                        continue            # this spelling is not read as the keyword
                    seen.add(key)
                    _UC.append({'dialect': d, 'sql': sql, 'origin': 'unicode-case'})
    return _UC


FUZZ_RUNS = {'quick': 15000, 'thorough': 100000}


def fuzz_part(col, k, tier, seed):
    """Coverage-guided campaign (atheris / libFuzzer) with the same oracle inside the target; one process per shard,
    pinned by -seed and a run budget (a libFuzzer campaign is only approximately reproducible: the saved failing
    input is the reproducible unit and is judged again here by judge())."""
    import glob, json, os, shutil, subprocess, sys, tempfile
    from vf import lib
    deps = os.path.join(lib.VERIF, '.deps')
    if not os.path.isdir(os.path.join(deps, 'atheris')):
        col.notes.append('atheris not installed (bin/setup installs it into .deps): fuzz part skipped')
        col.excluded('fuzz part skipped: atheris missing')
        return
    out = tempfile.mkdtemp(prefix='vf-c02-fuzz-')
    try:
        env = dict(os.environ, PYTHONPATH=lib.VERIF + os.pathsep + deps, PYTHONHASHSEED='0')
        cmd = ['/venv/bin/python', '-m', 'vf.fuzz.c02_target', out, str(k % 2), f'-runs={FUZZ_RUNS[tier]}',
               f'-seed={(seed % 2 ** 31) or 1}', '-max_len=160', '-print_final_stats=0', f'-artifact_prefix={out}/']
        subprocess.run(cmd, cwd=lib.VERIF, env=env, capture_output=True, text=True, timeout=3600)
        st = {}
        if os.path.exists(os.path.join(out, 'stats.json')):
            st = json.load(open(os.path.join(out, 'stats.json')))
        col.evaluations += st.get('execs', 0)
        for name in ('accepted', 'rejected', 'lexerror'):
            col.classes['fuzz:' + name] += st.get(name, 0)
        col.classes['fuzz:execs'] += st.get('execs', 0)
        for f in sorted(glob.glob(os.path.join(out, 'crash-*.json'))):
            c = json.load(open(f))
            case = {'dialect': c['dialect'], 'sql': c['sql'], 'origin': 'atheris'}
            for rec in judge(case, col):
                col.fail(rec, case)
    except subprocess.TimeoutExpired:
        col.notes.append('fuzz part hit its safety time limit: inconclusive, not a violation')
    finally:
        shutil.rmtree(out, ignore_errors=True)


def run_shard(col, k, nshards, tier, seed):
    fuzz_part(col, k, tier, seed)
    if k == 0:
        for x in corpus.accepted() + corpus.rejected():
            c = {'dialect': x['dialect'], 'sql': x['sql'], 'origin': 'corpus'}
            for rec in judge(c, col):
                col.fail(rec, c)
    # bounded-exhaustive: option lists of the MindsDB commands -- the grammar actions look some keys up by name and
    # build names / nodes from their values: every command x every list of one or two (key, value) pairs
    opts = [f'{kk} = {vv}' for kk in OPT_KEYS for vv in OPT_VALUES]
    lists = opts + [a + ', ' + b for a in opts for b in opts]
    n = 0
    for tpl in OPT_COMMANDS:
        for o in lists:
            n += 1
            if n % nshards == k:
                c = {'dialect': 'mindsdb', 'sql': tpl.replace('{o}', o), 'origin': 'options'}
                for rec in judge(c, col):
                    col.fail(rec, c)
    if k == 0:
        col.exhaustive_parts.append(f'{len(OPT_COMMANDS)} MindsDB commands x all option lists of one or two pairs over '
                                    f'{len(OPT_KEYS)} keys x {len(OPT_VALUES)} values ({n} statements)')
    # bounded-exhaustive: every production of the live grammar with every alternative of each of its nonterminals
    for d in corpus.DIALECTS:
        for label, toks in grammar.get(d).pair_sentences()[k::nshards]:
            c = {'dialect': d, 'sql': ' '.join(toks), 'origin': 'pairs'}
            for rec in judge(c, col):
                col.fail(rec, c)
    # bounded: keywords spelled with the non-ASCII letters that match ASCII letters under re.IGNORECASE (the lexers' flag):
    # U+0130 / U+0131 for i, U+017F for s, U+212A for k.  The token is the keyword, its text is not what str.upper() /
    # .lower() of an ASCII spelling gives -- grammar actions that look the text up meet a spelling they do not know.
    nuc = 0
    for i, c in enumerate(unicode_case_cases()):
        nuc += 1
        if i % nshards == k:
            for rec in judge(c, col):
                col.fail(rec, c)
    if k == 0:
        col.exhaustive_parts.append(f'Unicode-case keyword spellings: {nuc} statements (every keyword token with i / s / k of the '
                                    'production-pair sentences, per dialect x token type x neighbouring token types x variant)')
    # bounded-exhaustive pump grid (the random pump mode meets a given opening x fragment only now and then): every opening
    # lexeme x every one-character fragment and every two-character fragment with a backslash, 60 times, x every closing;
    # the dialects take turns
    frags = PUMP_ALPHABET + ['\\' + ch for ch in PUMP_ALPHABET] + [ch + '\\' for ch in PUMP_ALPHABET if ch != '\\']
    npump = 0
    for op in PUMP_OPEN:
        for fr in frags:
            for cl in PUMP_GRID_CLOSE:
                npump += 1
                if (npump // 3) % nshards == k:
                    c = {'dialect': corpus.DIALECTS[npump % 3], 'sql': 'select ' + op + fr * 60 + cl, 'origin': 'pump-grid'}
                    for rec in judge(c, col):
                        col.fail(rec, c)
    if k == 0:
        col.exhaustive_parts.append(f'pump grid: {len(PUMP_OPEN)} opening lexemes x {len(frags)} fragments (one character; two with a backslash) x 60 '
                                    f'repetitions x {len(PUMP_GRID_CLOSE)} closings, dialects in turn ({npump} statements)')
    # bounded-exhaustive size grids: long in one dimension only (see vf/gens/c02_size.py)
    chains = c02_size.chain_cases(corpus.DIALECTS, full=(tier == 'thorough'))
    lexemes = c02_size.lexeme_cases(corpus.DIALECTS, full=(tier == 'thorough'))
    odd = c02_size.odd_lexeme_cases(corpus.DIALECTS)
    for part in (chains, lexemes, odd):
        for c in part[k::nshards]:
            for rec in judge(c, col):
                col.fail(rec, c)
    if k == 0:
        col.exhaustive_parts.append(f'size-chain grid: {len(c02_size.CHAINS)} chains x {len(c02_size.CONTEXTS)} positions + '
                                    f'{len(c02_size.STATEMENT_CHAINS)} statement lists, largest size within {c02_size.MAX_LEN} characters / depth '
                                    f'{c02_size.MAX_DEPTH}' + (' and half of it, full product' if tier == 'thorough' else '; core chains in every position, the others in every fourth') + f', three dialects ({len(chains)} statements)')
        col.exhaustive_parts.append(f'size-lexeme grid: {len(c02_size.LEXEMES)} kinds of one long token (digit runs of 4300 / 4301 / 9000) x '
                                    f'{len(c02_size.LEXEME_CONTEXTS)} positions, three dialects ({len(lexemes)} statements)')
    if k == 0:
        col.exhaustive_parts.append(f'odd-lexeme grid: {len(c02_size.ODD_LEXEMES)} short tokens of unusual characters (digits of other scripts, number-like non-digits, lone '
                                    f'surrogates, NUL, blanks the lexers do not ignore) x {len(c02_size.LEXEME_CONTEXTS)} positions, three dialects ({len(odd)} statements)')
    hyp.explore(col, cases(), judge, N[tier], seed)
