"""C13 — the AST walker `planner.utils.query_traversal` visits every table, expression and nested query exactly once,
in textual order, with the right is_table / is_target flags, and a returned node replaces exactly the visited node.

Oracle: reference walk O-walk (vf/oracles/walk.py: explicit child fields per node class in textual order) +
O-struct.  Per tree: (a) recording visitor: completeness / exactly-once / order / flags / tree unchanged;
(b) for every visited node k (all of them, bounded by MAXK): a visitor that returns a marker for k only — the tree
afterwards must equal an untouched clone in which every reference to k was redirected to the marker (done by an
independent reflection pass); (c) one pass that replaces all leaf nodes at once.
"""
import collections, itertools, re
from hypothesis import strategies as st

from vf import findings, hyp
from vf.gens import corpus, grammar
from vf.oracles import walk as W
from vf.oracles.struct import struct
from vf.oracles.walk import sdiff as diff
from vf.props.c02 import site_of

PROPERTY = 'C13'
RULE = ('cases = (dialect, text) accepted by parse_sql whose tree is a Select / Union / Intersect / Except / Insert / '
        'Update / Delete / CreateTable: test-suite corpus (all, deterministic), random derivations of the live grammar '
        'from select/union/insert/update/delete/create_table, and a targeted generator of statements that forces CASE '
        'operands, function FROM-arguments, windows, CTEs, sub-selects in every clause, VALUES rows, tuples, casts, '
        'nested joins and set operations; every tree is judged with a recording visitor and with one replacing visitor '
        'per visited node (all nodes, at most 48 per tree) plus one replace-all-leaves pass; non-trivial = tree '
        'contains a join, sub-select, CASE, function FROM-argument, window, CTE, DML or set operation; distinct by '
        'the sequence of (position, node class) of the reference walk')
ASSUMPTIONS = ['textual order is judged twice: against the order of the canonical print of the tree (reference walk) and against the '
               'statement text itself (the visited names and integer / string constants whose spelling occurs exactly once in '
               'the text must be shown in the order of their positions); the grammars accept the clauses of a window only in the '
               'canonical order since e19d97f',
               'LIMIT/OFFSET constants, aliases, USING values, column definitions, CTE names, OrderBy / CTE wrapper '
               'objects and Star inside Identifier.parts are open: visiting them is neither required nor forbidden',
               'Update.keys (UPDATE t ON k FROM (select)) are read as expression nodes (required)',
               'statements other than the eight judged kinds are not judged (the walker only visits their root)',
               'clones for the replacement passes are made by reflection and checked structurally equal to the '
               'parsed tree before use']
_Q = {'__nontrivial__': 650, 'judged': 1900, 'has:join': 780, 'has:subselect': 1000, 'has:case': 120, 'has:case-arg': 45,
      'has:from_arg': 125, 'has:window': 110, 'has:window-partition': 75, 'has:window-order': 75, 'has:cte': 230,
      'has:dml': 600, 'has:setop': 340, 'has:tuple': 450, 'has:typecast': 150, 'has:values': 140, 'has:exists': 90,
      'has:parameter': 650, 'stmt:Insert': 200, 'stmt:Update': 160, 'stmt:Delete': 120, 'stmt:CreateTable': 80,
      'dialect:mysql': 500, 'dialect:sqlite': 500, 'replace-passes': 35000}
# calibrated on seeds 1..5 (quick, 16 shards): <= 1/3 of the minimum seen; thorough draws 11x as many cases
_Q['text-order-judged'] = 1000
FLOORS = {'quick': _Q, 'thorough': {k: v * (5 if k == '__nontrivial__' else 8) for k, v in _Q.items()}}
N = {'quick': 450, 'thorough': 5000}
MAXK = 48
JUDGED = ('Select', 'Union', 'Intersect', 'Except', 'Insert', 'Update', 'Delete', 'CreateTable')
GRAMMAR_STARTS = ('select', 'union', 'insert', 'update', 'delete', 'create_table')
MARK = '__C13_MARKER__'


_STARTS = {}


def prepare(tier):
    for d in corpus.DIALECTS:
        gg = grammar.get(d)
        _STARTS[d] = [s for s in GRAMMAR_STARTS if s in gg.prods]     # sqlite has no create_table
        if not {'select', 'union', 'insert', 'update', 'delete'} <= set(_STARTS[d]):
            raise RuntimeError(f'grammar of {d} lacks a statement nonterminal: {_STARTS[d]}')


def norm_path(p):
    p = re.sub(r'\[\d+\]', '', p).replace('$', '')
    hops = re.findall(r'<(\w+)>\.(\w+)', p)
    return '.'.join(f'{c}.{f}' for c, f in hops[-2:]) or p


def _ids(entries, keep=None):
    return [id(e.node) for e in entries if keep is None or id(e.node) in keep]


def tree_features(R):
    """has:* classes of a tree from its reference walk."""
    f = set()
    for e in R:
        cn = type(e.node).__name__
        if cn == 'Join':
            f.add('has:join')
        if cn in ('Select', 'Union', 'Intersect', 'Except') and e.parent >= 0:
            f.add('has:subselect')
            f.add('subselect-at:' + e.slot)
        if cn in ('Union', 'Intersect', 'Except'):
            f.add('has:setop')
        if cn == 'Case':
            f.add('has:case')
        if e.slot == 'Case.arg':
            f.add('has:case-arg')
        if e.slot == 'Function.from_arg':
            f.add('has:from_arg')
        if cn == 'WindowFunction':
            f.add('has:window')
        if e.slot.startswith('WindowFunction.partition'):
            f.add('has:window-partition')
        if e.slot.startswith('WindowFunction.order_by'):
            f.add('has:window-order')
        if e.slot.startswith('Select.cte'):
            f.add('has:cte')
        if cn in ('Insert', 'Update', 'Delete', 'CreateTable'):
            f.add('has:dml')
        if cn == 'Tuple':
            f.add('has:tuple')
        if cn == 'TypeCast':
            f.add('has:typecast')
        if e.slot == 'Insert.values':
            f.add('has:values')
        if cn in ('Exists', 'NotExists'):
            f.add('has:exists')
        if cn == 'Parameter':
            f.add('has:parameter')
    return f


_LEXCLS = {}


def text_positions(d, sql):
    """{('id', name) | ('const', repr(value)): start index} for every name / literal token whose spelling is unique in the text;
    None when the text cannot be lexed"""
    from vf.gens import mutate
    if d not in _LEXCLS:
        from mindsdb_sql import get_lexer_parser
        _LEXCLS[d] = type(get_lexer_parser(d)[0])
    sp = mutate.lex_spans(_LEXCLS[d], sql)
    if sp is None:
        return None
    out, dup = {}, set()
    for ty, src, i, _ in sp:
        k = None
        if ty == 'ID':
            k = ('id', src[1:-1] if len(src) > 1 and src[0] == '`' == src[-1] else src)
        elif ty == 'INTEGER':
            k = ('const', repr(int(src)))
        elif ty == 'QUOTE_STRING' and "\\" not in src and "''" not in src[1:-1]:
            k = ('const', repr(src[1:-1]))
        if ty == 'DQUOTE_STRING' and len(src) > 1:
            # "x" is a name or a string constant depending on where it stands: its spelling is ambiguous for both
            for kk in (('id', src[1:-1]), ('const', repr(src[1:-1]))):
                out.pop(kk, None)
                dup.add(kk)
        if k is None:
            continue
        if k in out or k in dup:
            out.pop(k, None)
            dup.add(k)
        else:
            out[k] = i
    # a name that is also the spelling of a keyword-ish token elsewhere is not a problem: only ID tokens are keyed
    return out


def leaf_key(node, Identifier, Constant):
    if isinstance(node, Identifier) and node.parts and isinstance(node.parts[0], str):
        return ('id', node.parts[0])
    if type(node) is Constant and isinstance(node.value, (int, str)) and not isinstance(node.value, bool):
        return ('const', repr(node.value))
    return None


NONTRIVIAL = {'has:join', 'has:subselect', 'has:case', 'has:from_arg', 'has:window', 'has:cte', 'has:dml', 'has:setop'}


def judge(case, col):
    from mindsdb_sql import parse_sql
    from mindsdb_sql.exceptions import ParsingException
    from mindsdb_sql.parser.ast.base import ASTNode
    from mindsdb_sql.parser.ast import Constant, Identifier
    from mindsdb_sql.planner.utils import query_traversal
    from sly.lex import LexError
    d, sql = case['dialect'], case['sql']
    origin = case.get('origin', '?').split(':')[0]
    try:
        T = parse_sql(sql, d)
    except (ParsingException, LexError):
        col.case((d, 'rej', sql), False, ['rejected', 'rejected:' + origin])
        return []
    except RecursionError:
        col.excluded('recursion')
        return []
    except Exception:
        col.excluded('internal-error on parse (C02)')
        return []
    stmt = type(T).__name__
    if stmt not in JUDGED:
        col.case((d, 'other', stmt), False, ['not-judged-statement'])
        return []
    cfg = {'dialect': d, 'stmt': stmt}
    out = []

    def marker(target, tag=''):
        # a node of another class than the replaced one, so that a structural diff stops at the node
        if isinstance(target, Constant):
            return Identifier(parts=[MARK + tag])
        return Constant(MARK + tag)

    def rec(kind, site, detail, features=()):
        out.append(findings.record(kind, site, features, cfg, detail, sql))

    R0 = W.ref_walk(T)
    req = {id(e.node) for e in R0}
    mult = collections.Counter(_ids(R0))
    st0 = struct(T)
    P = W.clone(T)                      # pristine clone for the replacement passes
    clone_ok = struct(P) == st0
    feats = tree_features(R0)
    classes = ['judged', 'stmt:' + stmt, 'dialect:' + d, 'origin:' + origin] + sorted(feats)
    classes += sorted({f'at:{e.slot}:{type(e.node).__name__}' for e in R0})
    opens = W.open_nodes(T, req)
    classes += sorted({'open:' + s for o, s in opens if type(o).__name__ not in ('OrderBy', 'CommonTableExpression')})
    if any(m > 1 for m in mult.values()):
        classes.append('shared-node')
    unknown = sorted({type(e.node).__name__ for e in R0
                      if type(e.node).__name__ not in W.LEAF_CLASSES + W.KNOWN_INNER})
    classes += ['unknown-class:' + u for u in unknown]

    # ---- (a) recording visitor
    seen = []

    def cb(node, is_table=False, is_target=False, parent_query=None, **kw):
        seen.append((node, is_table, is_target))
        return None

    crashed = False
    try:
        ret = query_traversal(T, cb)
        if ret is not None:
            rec('return-value', 'root', f'recording visitor: traversal returned {type(ret).__name__}')
    except RecursionError:
        col.excluded('recursion')
        return []
    except Exception as e:
        crashed = True
        rec('crash', site_of(e), f'{type(e).__name__}: {e}')
    st1 = struct(T)
    damaged = st1 != st0
    if damaged and not crashed:
        dd = diff(st0, st1)
        rec('mutates', norm_path(dd[0]), f'visitor returned None everywhere, tree changed: {dd}')
    nonnodes = sorted({type(n).__name__ for n, _, _ in seen if n is None or isinstance(n, (str, int, float, bool, dict))})      # (column definitions are open)
    if nonnodes and not crashed:
        rec('visitor-called-with-non-node', '+'.join(nonnodes), f'the visitor was called with {nonnodes}')
    cnt = collections.Counter(id(n) for n, _, _ in seen)
    visited_idx = []
    dup = False
    if not crashed:
        missing = [cnt[id(e.node)] == 0 for e in R0]
        done = set()
        for i, e in enumerate(R0):
            c = cnt[id(e.node)]
            if c == 0:
                if e.parent < 0 or not missing[e.parent]:
                    rec('missing', e.slot, f'{type(e.node).__name__} at {e.slot} ({e.role}) never visited')
            else:
                visited_idx.append(i)
                if c > mult[id(e.node)] and id(e.node) not in done:
                    done.add(id(e.node))
                    dup = True
                    rec('duplicate', e.slot, f'{type(e.node).__name__} at {e.slot} visited {c} times')
        # flags
        roles = collections.defaultdict(set)
        for e in R0:
            roles[id(e.node)].add(e.role)
        slot_of = {id(e.node): e.slot for e in R0}
        slot_of.update({id(o): 'open:' + s for o, s in opens})
        reach_ids = set(slot_of)
        for node, it, itg in seen:
            if not isinstance(node, ASTNode):
                classes.append('visit-non-node:' + type(node).__name__)
                continue
            if id(node) not in reach_ids:
                rec('foreign-visit', type(node).__name__, 'visitor called with a node that is not part of the tree')
                continue
            rs = roles.get(id(node), {'open'})
            if len(rs) != 1:
                continue
            r = next(iter(rs))
            if r == 'open':
                continue        # visiting a node in an open position is neither required nor forbidden: its flags are not judged
            if bool(it) != (r == 'table'):
                rec('flag', slot_of[id(node)], f'is_table={it} for {type(node).__name__} in role {r}',
                    ['is_table', 'role:' + r])
            if bool(itg) != (r == 'target'):
                rec('flag', slot_of[id(node)], f'is_target={itg} for {type(node).__name__} in role {r}',
                    ['is_target', 'role:' + r])
        # order
        if not dup and all(m == 1 for m in mult.values()):
            vis = {id(R0[i].node) for i in visited_idx}
            O = [id(n) for n, _, _ in seen if id(n) in vis]
            base = _ids(R0, vis)
            if O != base:
                # deviated reference walks are taken on the pristine clone (the traversal may have damaged T) and
                # mapped back to T's nodes through the position in the undeviated walk
                src = P if clone_ok else T
                pos = {id(e.node): i for i, e in enumerate(W.ref_walk(src))}

                def walk_dev(S):
                    return [R0[pos[id(e.node)]] for e in W.ref_walk(src, S)]
                appl = [x for x in W.DEVIATIONS if _ids(walk_dev([x]), vis) != base]
                hit = None
                best = (-1, (), None)
                for n in range(1, len(appl) + 1):
                    for S in itertools.combinations(appl, n):
                        Rs = [e for e in walk_dev(S) if id(e.node) in vis]
                        ids = _ids(Rs)
                        if ids == O:
                            hit = S
                            break
                        p = 0
                        while p < min(len(O), len(ids)) and ids[p] == O[p]:
                            p += 1
                        if p > best[0]:
                            best = (p, S, Rs)
                    if hit:
                        break
                if hit:
                    for x in hit:
                        rec('order', x, f'visiting order differs from textual order by listed deviation {x}')
                else:
                    p, S, Rs = best
                    if Rs is None:
                        p, Rs = 0, [e for e in R0 if id(e.node) in vis]
                        while p < min(len(O), len(base)) and base[p] == O[p]:
                            p += 1
                    exp = Rs[p].slot if p < len(Rs) else 'end'
                    got = slot_of[O[p]] if p < len(O) else 'end'
                    rec('order', f'unexplained:{exp}->{got}',
                        f'at visit #{p}: expected the node at {exp}, visitor got the node at {got} '
                        f'(closest listed deviations: {list(S)})', ['with:' + x for x in S])

    # ---- (a') order against the TEXT itself (independent of the reference walk's own field order): the visited leaf nodes
    # (names, constants) whose spelling occurs exactly once in the statement must come in the order of their positions
    if not crashed:
        pos_of = text_positions(d, sql)
        if pos_of is not None:
            located = []
            for node, _, _ in seen:
                k = leaf_key(node, Identifier, Constant)
                if k is not None and pos_of.get(k) is not None:
                    located.append((pos_of[k], k, node))
            if len(located) >= 2:
                classes.append('text-order-judged')
                for (pa, ka, na), (pb, kb, nb) in zip(located, located[1:]):
                    if pb < pa and id(na) != id(nb):
                        sa_, sb_ = slot_of.get(id(na), '?'), slot_of.get(id(nb), '?')
                        rec('order-vs-text', f'{sa_}->{sb_}',
                            f'{ka[1]!r} (text position {pa}, at {sa_}) is shown to the visitor before {kb[1]!r} (text position {pb}, '
                            f'at {sb_}), which is written earlier', ['text-order'])
                        break

    # ---- (b) replace node k, for every visited k;  (c) replace all leaves
    passes = 0
    if not crashed and clone_ok and not damaged:
        ks = visited_idx
        if len(ks) > MAXK:
            step = len(ks) / MAXK
            ks = sorted({ks[int(j * step)] for j in range(MAXK)})
        bad_slots = set()
        for k in ks:
            slot = R0[k].slot
            if slot in bad_slots:
                continue
            Ta, Tb = W.clone(P), W.clone(P)
            ta, tb = W.ref_walk(Ta)[k].node, W.ref_walk(Tb)[k].node
            ma, mb = marker(ta), marker(tb)

            def cbk(node, is_table=False, is_target=False, parent_query=None, **kw):
                return ma if node is ta else None
            passes += 1
            try:
                ret = query_traversal(Ta, cbk)
            except Exception as e:
                rec('crash', site_of(e), f'replacing {slot}: {type(e).__name__}: {e}', ['replace'])
                bad_slots.add(slot)
                continue
            E = W.replace_everywhere(Tb, tb, mb)
            if k == 0:
                if ret is not ma:
                    rec('replace', 'root', f'replacing the root: traversal returned {type(ret).__name__}')
                    bad_slots.add(slot)
                continue
            sa, se = struct(Ta), struct(E)
            if sa != se:
                dd = diff(se, sa)
                what = 'nothing replaced' if sa == st0 else f'expected vs observed: {dd}'
                rec('replace', slot, f'replacing the {type(tb).__name__} at {slot}: {what}')
                bad_slots.add(slot)
        # (b') nodes in open positions (LIMIT / OFFSET constants, aliases ...) that the walker chose to show to the visitor:
        # whatever is shown can be replaced, and the replacement has to land on that node and nothing else
        shown_open = [j for j, (o, s_) in enumerate(opens) if isinstance(o, ASTNode) and cnt[id(o)] > 0]
        for j in shown_open[:MAXK]:
            slot = 'open:' + opens[j][1]
            Ta, Tb = W.clone(P), W.clone(P)
            oa = W.open_nodes(Ta, {id(e.node) for e in W.ref_walk(Ta)})
            ob = W.open_nodes(Tb, {id(e.node) for e in W.ref_walk(Tb)})
            if len(oa) != len(opens) or len(ob) != len(opens):
                continue
            ta, tb = oa[j][0], ob[j][0]
            ma, mb = marker(ta), marker(tb)

            def cbo(node, is_table=False, is_target=False, parent_query=None, **kw):
                return ma if node is ta else None
            passes += 1
            classes.append('replace-open-position')
            try:
                query_traversal(Ta, cbo)
            except Exception as e:
                rec('crash', site_of(e), f'replacing {slot}: {type(e).__name__}: {e}', ['replace'])
                continue
            E = W.replace_everywhere(Tb, tb, mb)
            sa, se = struct(Ta), struct(E)
            if sa != se:
                dd = diff(se, sa)
                what = 'nothing replaced' if sa == st0 else f'expected vs observed: {dd}'
                rec('replace', slot, f'replacing the {type(tb).__name__} at {slot}: {what}', ['open-position'])
        # (c)
        parents = {e.parent for e in R0}
        leaves = [i for i in visited_idx if i not in parents and i != 0 and mult[id(R0[i].node)] == 1]
        if leaves:
            Ta, Tb = W.clone(P), W.clone(P)
            Ra, Rb = W.ref_walk(Ta), W.ref_walk(Tb)
            ma = {id(Ra[i].node): marker(Ra[i].node, str(i)) for i in leaves}
            hold = [Ra[i].node for i in leaves]

            def cba(node, is_table=False, is_target=False, parent_query=None, **kw):
                return ma.get(id(node))
            passes += 1
            try:
                query_traversal(Ta, cba)
                E = Tb
                for i in leaves:
                    E = W.replace_everywhere(E, Rb[i].node, marker(Rb[i].node, str(i)))
                sa, se = struct(Ta), struct(E)
                if sa != se:
                    dd = diff(se, sa)
                    rec('replace-all-leaves', norm_path(dd[0]), f'expected vs observed: {dd}')
            except Exception as e:
                rec('crash', site_of(e), f'replacing all leaves: {type(e).__name__}: {e}', ['replace-all'])
    elif not clone_ok:
        col.excluded('reflection clone differs from parsed tree')
    col.classes['replace-passes'] += passes
    key = (d, stmt, [(e.slot, type(e.node).__name__) for e in R0])
    col.case(key, bool(feats & NONTRIVIAL), classes,
             {'dialect': d, 'sql': sql, 'visits': len(seen), 'required': len(R0), 'replace_passes': passes})
    return out


@st.composite
def cases(draw, tier='quick'):
    from vf.gens import shapes
    d = draw(st.sampled_from(corpus.DIALECTS))
    mode = draw(st.sampled_from(['grammar', 'grammar', 'shapes', 'shapes', 'shapes']))
    if mode == 'grammar':
        start = draw(st.sampled_from(['select', 'select', 'union'] + _STARTS[d]))
        toks = draw(grammar.get(d).sentence(start=start, budget=st.integers(4, 9 if tier == 'quick' else 12)))
        sql = ' '.join(toks)
        mode += ':' + start
    else:
        sql = draw(shapes.statement(d))
    return {'dialect': d, 'sql': sql, 'origin': mode}


# WITH in front of a parenthesised set operation: the parser keeps the CTE list on the Union node
WITH_SETOP = ['with a as (select x from t where y = 1) (select * from a union select z from u where w = 2)',
              'select * from (with a as (select x from t where y in (select 1)) (select * from a intersect select z from u)) q',
              'with a as (select 1 as k), b as (select k from a) (select * from b except select * from a)',
              'with a as (select case when x > 1 then 2 end as c from t) (select c from a union all select 3)',
              'select case a when 1 then 2 end, case when b then c end from t',
              'with a as (select x from t) ((select * from a) union (select * from a)) union select 1',
              # clause orders the grammars accept: the text decides what comes first (judged by the text-order clause)
              'select sum(a) over (partition by y order by x) from t', 'select sum(a) over (order by x partition by y) from t',
              'select sum(a) over (order by x desc partition by y, z) as w, b from t where c = 1',
              'select k, (select m from u where n = 2) from t where c in (select p from v) order by q',
              'insert into t (c1, c2) select d1, d2 from u where d3 = 7',
              'update t set c1 = v1, c2 = (select m from u) where c3 = 5',
              'update t set c1 = s.v1 from (select v1, v2 from u where v3 = 4) as s where t.c2 = s.v2',
              'delete from t where c1 = 1 and c2 in (select m from u where n = 2)',
              'create table n1 (select a1, a2 from t1 where a3 = 3)',
              'select f(a1, a2) from t1 join t2 on b1 = b2 left join t3 on c1 = c2 where d1 = 1 group by e1 having g1 > 2 order by h1']


def run_shard(col, k, nshards, tier, seed):
    if k == 0:
        for d in corpus.DIALECTS:
            for q in WITH_SETOP:
                c = {'dialect': d, 'sql': q, 'origin': 'with-setop'}
                for r in judge(c, col):
                    col.fail(r, c)
    for i, x in enumerate(corpus.accepted()):
        if i % nshards == k:
            c = {'dialect': x['dialect'], 'sql': x['sql'], 'origin': 'corpus'}
            for r in judge(c, col):
                col.fail(r, c)
    # trees of the production-pair sentences of the live grammars: every statement / expression form the parsers can
    # build is walked at least once
    from vf.gens import grammar
    pstep = 6 if tier == 'quick' else 1
    for d in corpus.DIALECTS:
        for i, (_, toks) in enumerate(grammar.get(d).pair_sentences()):
            if i % pstep == 0 and (i // pstep) % nshards == k:
                c = {'dialect': d, 'sql': ' '.join(toks), 'origin': 'pairs'}
                for r in judge(c, col):
                    col.fail(r, c)
    if k == 0:
        col.exhaustive_parts.append(('every 6th' if pstep > 1 else 'every') + ' accepted production-pair sentence of the three grammars')
        col.exhaustive_parts.append('all accepted corpus statements; within every judged tree: replacement of each '
                                    f'visited node (up to {MAXK} per tree)')
    hyp.explore(col, cases(tier), judge, N[tier], seed)
