"""C15 — a time-series model joined with a data table receives exactly its context window plus the selected rows.

Generated: `SELECT * FROM <data source> JOIN proj.tsm WHERE <time condition> AND <partition filters> [LIMIT n]` in
both join orders, the data source being the table int1.t1 or a sub-select over it (the "dbt" shape the planner's tests
pin), model metadata with window 1..3 and 0..2 group columns, and 1..3 contents of t1 over time values {NULL, 1..5}.
Oracle: the reference row set (vf/oracles/tsexec.reference, written from the statement) against the emitted fetch
queries executed on sqlite3 through the own printer; validity predicate for ties at the window edge.  Rejected shapes
(ORDER BY, GROUP BY, HAVING, OFFSET, filter that involves another column - also inside CAST / CASE) must raise
PlanningException while the same query without the offending element is planned.  Spellings of the same conditions:
value in parentheses (`ts > (LATEST)`), LATEST as first operand, LIMIT 0, column names that contain a dot, and the
order column not a bare operand (`CAST(ts AS int) >= 3`, `3 BETWEEN 2 AND ts`: a refusal is accepted there, a plan
must hand over the rows of the equivalent plain condition).
Hunting wave: LATEST under another operator than `>` / `=` (`ts >= LATEST`, `ts < LATEST`, `ts BETWEEN LATEST AND 5`,
`ts IN (LATEST)`), two-sided ranges (`ts > a AND ts < b`), `NOT ts <= 3`, `(ts > 3 OR ts = 3)` -- a refusal is accepted,
a plan must hand over the rows the condition means (LATEST = the most recent time of the partition); window 0;
conditions qualified with the model's alias (`tb.g = 1`); JOIN ... ON; explicit targets; USING; table / model named
without their database (default namespace); the join as the source of INSERT / CREATE TABLE / as a sub-query.
"""
import copy, sqlite3
from hypothesis import strategies as st

from vf import findings, hyp
from vf.oracles import engine, refprint, tsexec
from vf.props.c02 import site_of

PROPERTY = 'C15'
RULE = ('cases = (query, model metadata, 1..3 contents of int1.t1(id, ts, g, h, v)): SELECT * FROM data JOIN proj.tsm '
        '(either order; JOIN / LEFT JOIN / comma) WHERE conjunction of at most one condition on the order column ts '
        '(>, >=, =, <, <=, BETWEEN, IN, > LATEST, = LATEST, none; operands optionally reversed, value optionally in '
        'parentheses, order column optionally inside CAST / as a bound of BETWEEN) and 0..2 partition '
        'filters (=, IN, ranges) on the model\'s group columns, optional LIMIT (0..5); window 1..3; group columns [], [g], [h], '
        '[g,h]; data = table or sub-select with conditions inside / outside; rows over ts in {NULL,1..5}, g in {1,2} '
        '(rarely NULL), h in {x,y}, column names optionally with a dot (ts.utc, my.grp); plus rejected shapes.  A bounded part enumerates every operator x partition filter '
        'x window x group columns x join order over three fixed tables.  non-trivial = accepted query for which some '
        'partition has more candidate context rows than the window / a tie at the window edge / fewer candidates than '
        'the window, or rows with NULL time exist; or a rejected shape whose base query (same query without the '
        'offending element) is accepted; distinct by (query text, metadata, data).  Hunting wave: LATEST under the other '
        'operators (>=, <, <=, BETWEEN bound, IN item), two conditions on the order column (ts > a AND ts < b), NOT / OR '
        'spellings of a comparison, window 0, conditions qualified with the model\'s alias, JOIN .. ON, explicit targets, '
        'USING, table / model named through the default namespace, the join as source of INSERT / CREATE TABLE / '
        'as a sub-query')
ASSUMPTIONS = ['step semantics (FetchDataframeStep, MultipleSteps union, MapReduceStep with $var[col] substitution) are '
               'read from planner/steps.py and tests/test_planner/test_ts_predictor.py; the executor lives elsewhere',
               'union = concatenation (a row fetched twice counts as handed over twice)',
               'sqlite3 evaluates the emitted fetch queries (printed by the own fully parenthesising printer)',
               'open where the statement is silent: NULL partition keys are not judged; for `ts = t` the output filter '
               '`ts > t` pinned by the repo tests is accepted; for `ts IN (...)` any context rows not newer than the '
               'largest listed time are accepted; order of the handed rows is not judged; a condition in which the '
               'order column is not a bare operand (inside CAST, as a bound of BETWEEN) may be refused with '
               'PlanningException, and when it is planned only the presence of an output filter is judged, not its text; '
               'the same holds for LATEST under an operator other than > / = (meaning when planned: the most recent time '
               'of the partition), for two conditions on the order column, and for NOT / OR spellings of one comparison; '
               'a condition qualified with the alias of the model (`tb.g = 1`) is read as the user\'s partition / time filter']
FLOORS = {'quick': {'__nontrivial__': 4000, 'accepted': 4500, 'reject': 1800, 'src:subselect': 1500, 'model:left': 2500,
                    'groups:0': 1000, 'groups:2': 2500, 'limit': 4000, 'window:3': 1900, 'letter-case-differs': 1500,
                    'time:between': 550, 'time:=latest': 550, 'time:>latest': 550, 'time:in': 550, 'time:=': 550,
                    'time:>': 550, 'time:>=': 550, 'time:<': 550, 'time:<=': 550, 'time:none': 550,
                    'time:reversed-operands': 300, 'pf:=': 1700, 'pf:in': 1600, 'sub:cond@outer': 200,
                    'data:tie-at-window-edge': 500, 'data:fewer-candidates-than-window': 1300,
                    'data:more-candidates-than-window': 800, 'data:no-rows-before-bound': 900, 'data:null-time': 2200,
                    'reject:order-by': 50, 'reject:group-by': 50, 'reject:having': 50, 'reject:offset': 50,
                    'reject:other-col': 50, 'reject:other-col-rhs': 50, 'reject:other-col-in-list': 50,
                    'reject:ungrouped-partition-col': 50, 'reject:other-col-cast': 50, 'reject:other-col-case': 50,
                    'limit:0': 600, 'time-value:parenthesised': 400, 'time:latest-first-operand': 150,
                    'time-form:cast': 150, 'time-form:between-3rd': 15, 'time-form:between-2nd': 15,
                    'colname:dotted': 300,
                    # hunting wave (calibrated at 6 shards, the smallest configuration in use)
                    'time-latest:other-operator': 280, 'time:range': 70, 'time-form:not': 45, 'time-form:or-eq': 22,
                    'window:0': 260, 'qualifier:model-alias': 200, 'join:on-clause': 130, 'targets:columns': 170,
                    'using': 150, 'names:table-default-ns': 150, 'names:model-default-ns': 130,
                    'wrap:insert': 70, 'wrap:create-table': 70, 'wrap:subquery': 70},
          'thorough': {}}
FLOORS['thorough'] = {k: 10 * v for k, v in FLOORS['quick'].items()}   # 12.5 x the random part of quick
N = {'quick': 1200, 'thorough': 15000}

TS_VALUES = [None, 1, 2, 3, 4, 5]
# LATEST combined with an operator the statement does not list (it lists `> LATEST` and `= LATEST`)
OTHER_LATEST = ['>=latest', '<latest', '<=latest', 'between-latest-lo', 'between-latest-hi', 'in-latest']
NEG = {'>': '<=', '>=': '<', '<': '>=', '<=': '>'}
CLAUSE_SHAPES = ['order-by', 'group-by', 'having', 'group-by+having', 'offset']
WHERE_SHAPES = ['other-col', 'other-col-rhs', 'other-col-or', 'other-col-in-list', 'other-col-func',
                'other-col-isnull', 'other-col-not', 'ungrouped-partition-col', 'other-col-cast', 'other-col-case']
VARIANTS = {
    'order-by': ['order by {A}ts', 'order by {A}ts desc', 'order by {A}v'],
    'group-by': ['group by {A}g', 'group by {A}ts'],
    'having': ['having {A}g = 1'],
    'group-by+having': ['group by {A}g having {A}g = 1'],
    'offset': ['limit 2 offset 1', 'limit 5 offset 2'],
    'other-col': ['{A}v = 1', '{A}v > 0', '{A}v in (0, 1)', '{A}v between 0 and 1', '1 = {A}v', '{A}id <= 3'],
    'other-col-rhs': ['{A}g = {A}v', '{A}g >= {A}id'],
    'other-col-or': ['({A}g = 1 or {A}v = 1)', '({A}v = 0 or {A}g = 2)'],
    'other-col-in-list': ['{A}g in ({A}v, 1)', '{A}g in (2, {A}id)'],
    'other-col-func': ['abs({A}v) > 0'],
    'other-col-isnull': ['{A}v is null', '{A}v is not null'],
    'other-col-not': ['not {A}v = 1'],
    'ungrouped-partition-col': ['{A}{U} = {UV}', '{A}{U} in ({UV})'],
    # the other column sits inside a node that is not an operation (CAST / CASE), on either side / in a list
    'other-col-cast': ['cast({A}v as int) = 1', '1 = cast({A}v as int)', 'cast({A}id as int) in (1, 2)',
                       '{A}ts in (cast({A}v as int), 1)', '{A}ts between 1 and cast({A}v as int)'],
    'other-col-case': ['case when {A}v = 1 then 1 else 0 end = 1', '{A}ts >= case when {A}v = 1 then 2 else 3 end',
                       '{A}ts <= case {A}v when 1 then 2 else 3 end'],
}


def prepare(tier):
    import mindsdb_sql.planner  # noqa


# --------------------------------------------------------------------------------------------- case -> SQL text
def lit(x):
    return "'" + x + "'" if isinstance(x, str) else repr(x)


def real_name(case, name):
    """Name of the canonical column ts / g / h in this case (`colnames` renames them, e.g. to names with a dot)."""
    return (case.get('colnames') or {}).get(name, name)


def cond_text(c, A, upper=False, names=None):
    """SQL text of one time / partition condition; A = qualifier with trailing dot (or '').

    Spellings of the same condition: `rev` = operands the other way round, `paren` = the value in parentheses
    (`ts > (LATEST)`), `form` = the order column is not a bare operand of the comparison: 'cast' = CAST(ts AS int) op v,
    'between-3rd' = `v BETWEEN v-1 AND ts` (= ts >= v), 'between-2nd' = `v BETWEEN ts AND v+1` (= ts <= v)."""
    name = 'ts' if c['kind'] == 'time' else c['col']
    name = (names or {}).get(name, name)
    name = name.upper() if upper else name
    col = A + ('`' + name + '`' if '.' in name else name)
    op, v = c['op'], c.get('v', [])
    par = (lambda x: '(' + x + ')') if c.get('paren') else (lambda x: x)
    form = c.get('form')
    if form == 'cast':
        return f'cast({col} as int) {op} {lit(v[0])}'
    if form == 'between-3rd':
        return f'{lit(v[0])} between {lit(v[0] - 1)} and {col}'
    if form == 'between-2nd':
        return f'{lit(v[0])} between {col} and {lit(v[0] + 1)}'
    if form == 'not':                            # NOT ts <= 3  (= ts > 3)
        return f'not {col} {NEG[op]} {lit(v[0])}'
    if form == 'or-eq':                          # (ts > 3 OR ts = 3)  (= ts >= 3)
        return f'({col} {op[0]} {lit(v[0])} or {col} = {lit(v[0])})'
    if op == 'range':                            # ts > a AND ts < b, either part first
        lo, hi = f'{col} {c["lo_op"]} {lit(v[0])}', f'{col} {c["hi_op"]} {lit(v[1])}'
        return f'{hi} and {lo}' if c.get('hi_first') else f'{lo} and {hi}'
    if op == 'between-latest-lo':
        return f'{col} between LATEST and {lit(v[0])}'
    if op == 'between-latest-hi':
        return f'{col} between {lit(v[0])} and LATEST'
    if op == 'in-latest':
        return f'{col} in ({", ".join([lit(x) for x in v] + ["LATEST"])})'
    if op == 'between':
        return f'{col} between {lit(v[0])} and {lit(v[1])}'
    if op == 'in':
        return f'{col} in ({", ".join(lit(x) for x in v)})'
    if op.endswith('latest'):
        o = op[:-6]
        return f'{par("LATEST")} {tsexec.flip(o)} {col}' if c.get('rev') else f'{col} {o} {par("LATEST")}'
    if c.get('rev'):
        return f'{par(lit(v[0]))} {op} {col}'
    return f'{col} {op} {par(lit(v[0]))}'


def conj(parts, nest):
    if not parts:
        return ''
    if nest == 'right' and len(parts) > 2:
        s = parts[-1]
        for i, p in enumerate(reversed(parts[:-1])):
            s = f'{p} and ({s})' if i else f'{p} and {s}'
        return s
    return ' and '.join(parts)


WRAPS = {'insert': 'insert into int1.t9 ({})', 'create-table': 'create table int1.t9 ({})',
         'subquery': 'select * from ({}) as x'}


def build_sql(case, with_reject=True):
    """The join query, optionally as the source of INSERT / CREATE TABLE or as a sub-query (`wrap`)."""
    sql = build_join_sql(case, with_reject)
    return WRAPS[case['wrap']].format(sql) if case.get('wrap') else sql


def build_join_sql(case, with_reject=True):
    rej = case.get('reject') if with_reject else None
    sub = case['source'] == 'subselect'
    data_q = 'ta.' if case.get('outer_alias', True) else ('t1.' if not sub else '')
    # conditions of the outer query may also be qualified with the model's alias (`tb.g = 1`)
    outer_q = 'tb.' if case.get('qual') == 'model' else data_q
    names = case.get('names')
    tname = 't1' if names == 'table-default-ns' else 'int1.t1'
    inner_q = 't.' if case.get('inner_alias') else ''
    inner, outer = [], []
    for c in case['conds']:
        at = c.get('at', 'outer') if sub else 'outer'
        (inner if at == 'inner' else outer).append(cond_text(c, inner_q if at == 'inner' else outer_q,
                                                              case.get('upper_cols', False), case.get('colnames')))
    tail_inner = tail_outer = ''
    if rej is not None:
        at = rej.get('at', 'outer') if sub else 'outer'
        A = inner_q if at == 'inner' else outer_q
        ungrouped = [x for x in ('g', 'h') if x not in case['groups']]
        U = ungrouped[0] if ungrouped else 'v'
        text = VARIANTS[rej['shape']][rej.get('variant', 0) % len(VARIANTS[rej['shape']])]
        text = text.replace('{A}', A).replace('{U}', U).replace('{UV}', {'g': '1', 'h': "'x'", 'v': '1'}[U])
        if rej['shape'] in CLAUSE_SHAPES:
            if at == 'inner':
                tail_inner = ' ' + text
            else:
                tail_outer = ' ' + text
        else:
            lst = inner if at == 'inner' else outer
            lst.insert(min(rej.get('pos', 0), len(lst)), text)
    if sub:
        iw = conj(inner, case.get('nest', 'left'))
        data = '(select * from ' + tname + (' as t' if case.get('inner_alias') else '') + \
               (' where ' + iw if iw else '') + tail_inner + ')' + (' as ta' if case.get('outer_alias', True) else '')
    else:
        data = tname + (' as ta' if case.get('outer_alias', True) else '')
    model = ('tsm' if names == 'model-default-ns' else 'proj.tsm') + ' as tb'
    left, right = (model, data) if case['model_left'] else (data, model)
    jt = case.get('join', 'join')
    frm = f'{left}, {right}' if jt == ',' else f'{left} {jt} {right}'
    if case.get('on') and jt != ',' and data_q and case['groups']:
        gname = real_name(case, case['groups'][0])
        gname = '`' + gname + '`' if '.' in gname else gname
        frm += f' on {data_q}{gname} = tb.{gname}'
    ow = conj(outer, case.get('nest', 'left'))
    targets = f'{data_q}id, tb.v' if case.get('targets') and data_q else '*'
    sql = f'select {targets} from {frm}' + (' where ' + ow if ow else '')
    using = ' using a = 1' if case.get('using') else ''
    if rej is not None and rej['shape'] == 'offset' and tail_outer:
        return sql + tail_outer + using          # `limit n offset m` replaces the plain LIMIT
    sql += tail_outer                            # GROUP BY / HAVING / ORDER BY go before LIMIT
    if case.get('limit') is not None:
        sql += f' limit {case["limit"]}'
    return sql + using


def catalog(case):
    up = case.get('upper_meta')
    nm = lambda c: real_name(case, c).upper() if up else real_name(case, c)
    info = {'timeseries': True, 'window': case['window'], 'order_by_column': nm('ts'),
            'group_by_columns': [nm(c) for c in case['groups']]}
    dns = {'table-default-ns': 'int1', 'model-default-ns': 'proj'}.get(case.get('names'), 'mindsdb')
    if case.get('meta_form', 'list') == 'list':
        return dict(integrations=['int1'], default_namespace=dns,
                    predictor_metadata=[dict(info, name='tsm', integration_name='proj')])
    return dict(integrations=['int1'], predictor_namespace='proj', default_namespace=dns,
                predictor_metadata={'tsm': info})


# --------------------------------------------------------------------------------------------- the oracle
def soft(time):
    """Condition outside the forms the statement lists: a refusal is in order, a plan must hand over the right rows."""
    return time is not None and bool(time.get('form') or time['op'] in OTHER_LATEST or time['op'] == 'range')


def part_reference(R, time):
    """(S, cand, mode) of one partition (R = its rows with a time, partition filters applied) for LATEST under another
    operator (LATEST = the most recent time of the partition) and for a two-sided range; see tsexec.reference."""
    op, v = time['op'], time.get('v', [])
    cmp = {'>': lambda a, b: a > b, '>=': lambda a, b: a >= b, '<': lambda a, b: a < b, '<=': lambda a, b: a <= b}
    if op == 'range':
        lo = lambda r: cmp[time['lo_op']](r[1], v[0])
        hi = lambda r: cmp[time['hi_op']](r[1], v[1])
        return [r for r in R if lo(r) and hi(r)], [r for r in R if not lo(r)], 'exact'
    mx = max([r[1] for r in R], default=None)
    if op == '>=latest':
        return [r for r in R if r[1] == mx], [r for r in R if r[1] < mx], 'exact'
    if op == '<latest':
        return [r for r in R if r[1] < mx], None, 'exact'
    if op == '<=latest':
        return list(R), None, 'exact'
    if op == 'between-latest-lo':
        return [r for r in R if mx <= r[1] <= v[0]], [r for r in R if r[1] < mx], 'exact'
    if op == 'between-latest-hi':
        return [r for r in R if v[0] <= r[1]], [r for r in R if r[1] < v[0]], 'exact'
    if op == 'in-latest':
        return [r for r in R if r[1] == mx or r[1] in v], list(R), 'open'
    raise ValueError(op)


def reference_ext(rows, groups, pfs, time):
    if time is None or not (time['op'] in OTHER_LATEST or time['op'] == 'range'):
        return tsexec.reference(rows, groups, pfs, time)
    base = tsexec.reference(rows, groups, pfs, None)      # per partition: S = R
    return {k: part_reference(R, time) for k, (R, _, _) in base.items()}


def otf_norm(n, tsname='ts'):
    """Qualifier-free normal form (op, values) of an output_time_filter node."""
    if n is None:
        return ('none', [])

    def is_col(x):
        return tsexec.cname(x) == 'Identifier' and str(x.parts[-1]).lower() == tsname

    def const(x):
        return tsexec.cname(x) == 'Constant'
    cn = tsexec.cname(n)
    if cn == 'BetweenOperation':
        a, b, c = n.args
        if is_col(a) and const(b) and const(c):
            return ('between', [b.value, c.value])
    if cn == 'BinaryOperation':
        a, b = n.args
        if is_col(a):
            if tsexec.cname(b) == 'Latest':
                return (n.op + 'latest', [])
            if const(b):
                return (n.op, [b.value])
            if tsexec.cname(b) == 'Tuple' and all(const(x) for x in b.items):
                return (n.op, [x.value for x in b.items])
        if is_col(b) and const(a) and n.op in ('>', '<', '>=', '<=', '='):
            return (tsexec.flip(n.op), [a.value])
    return ('?', [str(n)])


def features_of(case):
    sub = case['source'] == 'subselect'
    f = ['src:' + case['source']]
    if sub:
        for c in case['conds']:
            if c.get('at', 'outer') == 'outer' and not c['op'].endswith('latest'):
                f.append('outer-nonlatest-cond')
    rej = case.get('reject')
    if rej:
        f.append('reject:' + rej['shape'])
        if sub:
            f.append('reject-at:' + rej.get('at', 'outer'))
    f += spelling_tags(case)
    return sorted(set(f))


def spelling_tags(case):
    """Mechanism tags (features and classes): how the condition / limit / column names are spelled."""
    f = []
    time = next((x for x in case['conds'] if x['kind'] == 'time'), None)
    if time is not None:
        if time.get('paren'):
            f.append('time-value:parenthesised')
        if time.get('form'):
            f.append('time-form:' + time['form'])
        if time.get('rev') and time['op'].endswith('latest'):
            f.append('time:latest-first-operand')
        if time['op'] in OTHER_LATEST:
            f.append('time-latest:other-operator')
    if case.get('qual') == 'model':
        f.append('qualifier:model-alias')
    if case.get('on') and case.get('join', 'join') != ',' and case['groups'] and \
            (case.get('outer_alias', True) or case['source'] == 'table'):
        f.append('join:on-clause')
    if case.get('targets') and (case.get('outer_alias', True) or case['source'] == 'table'):
        f.append('targets:columns')
    if case.get('using'):
        f.append('using')
    if case.get('names'):
        f.append('names:' + case['names'])
    if case.get('wrap'):
        f.append('wrap:' + case['wrap'])
    if case.get('limit') == 0:
        f.append('limit:0')
    if case.get('colnames'):
        f.append('colname:dotted')
    return f


def classes_of(case):
    c = ['src:' + case['source'], 'window:%d' % case['window'], 'groups:%d' % len(case['groups']),
         'model:' + ('left' if case['model_left'] else 'right'), 'join:' + case.get('join', 'join'),
         'meta:' + case.get('meta_form', 'list') + (':upper' if case.get('upper_meta') else '')]
    if bool(case.get('upper_meta')) != bool(case.get('upper_cols')):
        c.append('letter-case-differs')
    time = next((x for x in case['conds'] if x['kind'] == 'time'), None)
    c.append('time:' + (time['op'] if time else 'none'))
    if time and time.get('rev'):
        c.append('time:reversed-operands')
    for x in case['conds']:
        if x['kind'] == 'pf':
            c.append('pf:' + x['op'])
    if not any(x['kind'] == 'pf' for x in case['conds']):
        c.append('pf:none')
    if case.get('limit') is not None:
        c.append('limit')
    c += spelling_tags(case)
    if case['source'] == 'subselect':
        ats = {x.get('at', 'outer') for x in case['conds']}
        c += ['sub:cond@' + a for a in sorted(ats)]
    return c


def plan_case(case, sql):
    from mindsdb_sql import parse_sql
    from mindsdb_sql.planner import plan_query
    tree = parse_sql(sql, 'mindsdb')
    return plan_query(tree, **catalog(case))


def judge(case, col):
    from mindsdb_sql.exceptions import PlanningException
    sql = build_sql(case)
    cfg = {'groups': len(case['groups']), 'model': 'left' if case['model_left'] else 'right'}
    feats = features_of(case)
    classes = classes_of(case)
    rej = case.get('reject')
    key = (sql, case['window'], case['groups'], case.get('upper_meta'), case.get('meta_form'), case['data'])
    cnames = case.get('colnames') or {}
    tsname = real_name(case, 'ts').lower()
    real_groups = [real_name(case, g).lower() for g in case['groups']]

    time = next((c for c in case['conds'] if c['kind'] == 'time'), None)
    tfeats = ['time:' + (time['op'] if time else 'none')] + (['time:reversed-operands'] if time and time.get('rev') else [])

    def rec(kind, site, detail, extra=()):
        # the time operator separates root causes only where rows / the output filter are judged
        fs = set(feats) | set(extra) | (set(tfeats) if kind in ('rows', 'output-filter', 'partitions') else set())
        return findings.record(kind, site, sorted(fs), cfg, detail, sql)

    # ---- rejected shapes
    if rej is not None:
        base_sql = build_sql(case, with_reject=False)
        try:
            plan_case(case, base_sql)
        except PlanningException as e:
            col.excluded('base query of a rejected shape is refused: ' + str(e)[:40])
            return []
        except Exception as e:
            col.excluded('base query of a rejected shape: ' + site_of(e))
            return []
        out = []
        try:
            plan_case(case, sql)
            out.append(rec('not-rejected', 'reject:' + rej['shape'],
                           f'planned without PlanningException although the query has {rej["shape"]}'))
            classes.append('reject-outcome:planned')
        except PlanningException:
            classes.append('reject-outcome:PlanningException')
        except Exception as e:
            out.append(rec('rejected-with-other-exception', site_of(e), f'{type(e).__name__}: {e}'))
            classes.append('reject-outcome:other-exception')
        col.case(key, True, classes + ['reject', 'reject:' + rej['shape']],
                 {'sql': sql, 'window': case['window'], 'groups': case['groups'], 'expect': 'PlanningException'})
        return out

    # ---- accepted shapes
    try:
        plan = plan_case(case, sql)
    except PlanningException as e:
        if soft(time):
            # the order column is not a bare operand / LATEST under another operator / two conditions / NOT / OR:
            # outside the listed condition forms, a refusal is in order
            # (handing over rows that are not those of the equivalent plain condition is not)
            col.case(key, False, classes + ['refused-time-form'])
            return []
        col.case(key, False, classes + ['refused'])
        return [rec('refused', site_of(e), f'PlanningException: {e}')]
    except Exception as e:
        col.case(key, False, classes + ['internal-error'])
        return [rec('internal-error', site_of(e), f'{type(e).__name__}: {e}')]
    out = []
    steps_txt = [tsexec.cname(s) for s in plan.steps]
    try:
        loc = tsexec.locate(plan)
    except tsexec.ShapeError as e:
        col.case(key, False, classes + ['plan-shape'])
        return [rec('plan-shape', e.where, f'{e}; steps {steps_txt}')]

    groups = case['groups']
    pfs = [c for c in case['conds'] if c['kind'] == 'pf']
    want_mapreduce = len(groups) > 0
    if want_mapreduce != (loc['part'] is not None):
        out.append(rec('plan-shape', 'data-step', f'{len(groups)} group columns but data step is '
                                                   f'{tsexec.cname(loc["data"])}; steps {steps_txt}'))
    for f in loc['fetches'] + ([loc['part']] if loc['part'] is not None else []):
        if str(f.integration).lower() != 'int1':
            out.append(rec('plan-shape', 'fetch-integration', f'fetch goes to integration {f.integration!r}'))
            break

    # dataflow after the data step: model <- data; join(data, model) in the user's order; limit after the join
    app, data = loc['apply'], loc['data']
    exp_f = tsexec.semantic_time(time)
    got_f = otf_norm(app.output_time_filter, tsname)
    if soft(time):
        if app.output_time_filter is None:
            out.append(rec('output-filter', 'output_time_filter',
                           f'user condition {exp_f} (spelled {cond_text(time, "", False, cnames)}) but no output_time_filter'))
    elif not (got_f == exp_f or (exp_f[0] == '=' and got_f == ('>', exp_f[1]))):
        out.append(rec('output-filter', 'output_time_filter',
                       f'user condition {exp_f} but output_time_filter is {app.output_time_filter!s} {got_f}'))
    jn = None
    if len(loc['joins']) != 1:
        out.append(rec('plan-shape', 'join-step', f'{len(loc["joins"])} JoinStep; steps {steps_txt}'))
    else:
        jn = loc['joins'][0]
        sides = (getattr(jn.left, 'step_num', None), getattr(jn.right, 'step_num', None))
        exp_sides = (app.step_num, data.step_num) if case['model_left'] else (data.step_num, app.step_num)
        if sides != exp_sides or jn.step_num < app.step_num:
            out.append(rec('join-sides', 'join-step', f'JoinStep joins results {sides}, expected {exp_sides} '
                                                      f'(data={data.step_num}, model={app.step_num})'))
    lim = case.get('limit')
    ls = loc['limits']
    if lim is None:
        if ls:
            out.append(rec('limit', 'limit-step', f'no LIMIT requested but {ls[0]}'))
    else:
        ok = False
        if len(ls) == 1 and jn is not None:
            l0 = ls[0]
            lv = getattr(l0.limit, 'value', l0.limit)
            ov = getattr(l0.offset, 'value', l0.offset)
            ok = (lv == lim and not ov and getattr(l0.dataframe, 'step_num', None) == jn.step_num
                  and l0.step_num > jn.step_num)
        if not ok:
            out.append(rec('limit', 'limit-step', f'LIMIT {lim} requested; limit steps: {[str(x) for x in ls]}; '
                                                  f'steps {steps_txt}'))

    # ---- rows, per data set
    traits = set()
    null_keys = 0
    for di, rows in enumerate(case['data']):
        rows = [tuple(r) for r in rows]
        ref = reference_ext(rows, groups, pfs, time)
        conn = engine.connect({(None, 't1'): ([refprint.qid(real_name(case, c)) for c in tsexec.COLS], rows)})
        ex = tsexec.Exec(conn)
        try:
            parts, names = ex.partitions(loc)
            if loc['part'] is not None:
                lower = [str(n).lower() for n in names]
                if sorted(lower) != sorted(real_groups):
                    raise tsexec.ShapeError('partition-step', f'partition fetch returns columns {names}, '
                                                              f'group columns are {real_groups}')
                idx = [lower.index(g) for g in real_groups]
                parts = [(var, tuple(k[i] for i in idx)) for var, k in parts]
            obs_keys = [k for _, k in parts]
            exp_keys = list(ref)
            if any(None in k for k in obs_keys + exp_keys):
                null_keys += 1
            ok_obs = [k for k in obs_keys if None not in k]
            ok_exp = [k for k in exp_keys if None not in k]
            if len(set(ok_obs)) != len(ok_obs):
                out.append(rec('partitions', 'partition-fetch', f'data set {di}: duplicate partitions {ok_obs}'))
            if set(ok_obs) != set(ok_exp):
                out.append(rec('partitions', 'partition-fetch',
                               f'data set {di} rows {rows}: partitions fetched {sorted(set(ok_obs), key=repr)}, '
                               f'selected by the non-time filters {sorted(ok_exp, key=repr)}; log {ex.log[-1:]}'))
            seen = set()
            for var, k in parts:
                if None in k or k not in ref or k in seen:
                    continue
                seen.add(k)
                got = ex.handed(loc, var)
                S, cand, mode = ref[k]
                v = tsexec.valid(got, S, cand, mode, case['window'])
                if v:
                    out.append(rec('rows', v[0], f'data set {di} rows {rows} partition {k}: {v[1]}; handed '
                                                 f'{sorted(got, key=repr)}; queries {ex.log[-len(loc["fetches"]):]}'))
                    break
        except tsexec.ShapeError as e:
            out.append(rec('plan-shape', e.where, f'{e}; steps {steps_txt}'))
        except KeyError as e:
            out.append(rec('plan-shape', 'data-step', f'$var refers to column {e} that the partition fetch does not return'))
        except refprint.Unsupported as e:
            out.append(rec('fetch-not-executable', 'printer:' + str(e)[:40], f'{e}; steps {[str(s)[:200] for s in plan.steps]}'))
        except sqlite3.Error as e:
            out.append(rec('fetch-not-executable', 'sqlite:' + str(e)[:40], f'{e}; log {ex.log[-2:]}'))
        finally:
            conn.close()
        judged = {k: v for k, v in ref.items() if None not in k}
        traits |= tsexec.data_traits(judged, case['window']) - ({'data:tie-at-window-edge'} if case['window'] == 0 else set())
        if any(r[1] is None for r in rows):
            traits.add('data:null-time')
        if not rows:
            traits.add('data:empty-table')
        if groups and not judged:
            traits.add('data:no-partition-selected')
        if out:
            break
    if null_keys:
        col.excluded('partitions with a NULL key are not judged', null_keys)
    nontrivial = bool(traits & {'data:more-candidates-than-window', 'data:tie-at-window-edge',
                                'data:fewer-candidates-than-window', 'data:null-time'})
    col.case(key, nontrivial, classes + sorted(traits) + ['accepted'],
             {'sql': sql, 'window': case['window'], 'groups': groups, 'data': case['data'][:1],
              'steps': steps_txt, 'traits': sorted(traits)})
    # one record per (kind, site)
    uniq, seen = [], set()
    for r in out:
        s = (r['kind'], r['site'])
        if s not in seen:
            seen.add(s)
            uniq.append(r)
    return uniq


# --------------------------------------------------------------------------------------------- generators
TIME_OPS = ['none', '>', '>=', '=', '<', '<=', 'between', 'in', '>latest', '=latest']
# drawn once in 9: LATEST under another operator, two conditions on the order column
RARE_TIME_OPS = OTHER_LATEST + ['range', 'range', 'range']


@st.composite
def time_conds(draw):
    op = draw(st.sampled_from(TIME_OPS))
    t = st.integers(0, 6)
    if draw(st.integers(0, 8)) == 0:
        op = draw(st.sampled_from(RARE_TIME_OPS))
    if op == 'none':
        return None
    if op == 'range':
        return {'kind': 'time', 'op': op, 'v': [draw(t), draw(t)], 'lo_op': draw(st.sampled_from(['>', '>='])),
                'hi_op': draw(st.sampled_from(['<', '<='])), 'hi_first': draw(st.booleans())}
    if op in ('between-latest-lo', 'between-latest-hi'):
        return {'kind': 'time', 'op': op, 'v': [draw(t)]}
    if op == 'in-latest':
        return {'kind': 'time', 'op': op, 'v': draw(st.lists(st.integers(1, 5), min_size=0, max_size=2))}
    if op.endswith('latest'):
        c = {'kind': 'time', 'op': op}
        sp = draw(st.integers(0, 5))             # spellings: `ts > (LATEST)`, `LATEST < ts`, `(LATEST) < ts`
        if sp in (0, 1):
            c['paren'] = True
        if sp in (1, 2):
            c['rev'] = True
        return c
    if op == 'between':
        return {'kind': 'time', 'op': op, 'v': [draw(t), draw(t)]}
    if op == 'in':
        return {'kind': 'time', 'op': op, 'v': draw(st.lists(st.integers(1, 5), min_size=1, max_size=3))}
    c = {'kind': 'time', 'op': op, 'v': [draw(t)], 'rev': draw(st.integers(0, 7)) == 7}
    sp = draw(st.integers(0, 9))
    if sp == 0:
        c['paren'] = True                        # `ts > (3)`
    elif sp == 1:
        c['rev'] = False
        c['form'] = draw(st.sampled_from(['cast'] + {'>=': ['between-3rd', 'or-eq'], '<=': ['between-2nd', 'or-eq']}.get(op, [])
                                         + (['not'] if op in NEG else [])))
    return c


def pf_conds(col):
    vals = [1, 1, 2, 2, 3] if col == 'g' else ['x', 'x', 'y', 'y', 'z']
    v = st.sampled_from(vals)
    return st.one_of(
        st.builds(lambda x: {'kind': 'pf', 'col': col, 'op': '=', 'v': [x]}, v),
        st.builds(lambda x, rev: {'kind': 'pf', 'col': col, 'op': '=', 'v': [x], 'rev': rev}, v,
                  st.sampled_from([False, False, True])),
        st.builds(lambda xs: {'kind': 'pf', 'col': col, 'op': 'in', 'v': xs}, st.lists(v, min_size=1, max_size=3)),
        st.builds(lambda xs: {'kind': 'pf', 'col': col, 'op': 'in', 'v': xs}, st.lists(v, min_size=1, max_size=3)),
        st.builds(lambda op, x, rev: {'kind': 'pf', 'col': col, 'op': op, 'v': [x], 'rev': rev},
                  st.sampled_from(['>', '>=', '<', '<=']), v, st.sampled_from([False, False, False, True])),
        st.builds(lambda a, b: {'kind': 'pf', 'col': col, 'op': 'between', 'v': [a, b]}, v, v),
    )


@st.composite
def tables(draw):
    n = draw(st.integers(0, 10))
    rows = []
    gvals = draw(st.sampled_from([[1, 2], [1, 2], [1, 2], [1], [1, 2, None]]))
    tsv = draw(st.sampled_from([TS_VALUES, TS_VALUES, [None, 2, 3], [3, 4, 5], [1, 2, 3, 4, 5]]))
    for i in range(n):
        rows.append([i + 1, draw(st.sampled_from(tsv)), draw(st.sampled_from(gvals)),
                     draw(st.sampled_from(['x', 'y'])), draw(st.sampled_from([0, 1]))])
    return rows


@st.composite
def cases(draw):
    groups = draw(st.sampled_from([[], ['g'], ['g'], ['h'], ['g', 'h'], ['g', 'h'], ['h', 'g']]))
    case = {'window': draw(st.sampled_from([0, 1, 1, 1, 2, 2, 2, 3, 3, 3])), 'groups': groups,
            'upper_meta': draw(st.sampled_from([False, False, False, True])),
            'upper_cols': draw(st.sampled_from([False, False, False, True])),
            'meta_form': draw(st.sampled_from(['list', 'list', 'dict'])),
            'model_left': draw(st.booleans()),
            'join': draw(st.sampled_from(['join', 'join', 'join', 'left join', ','])),
            'source': draw(st.sampled_from(['table', 'table', 'table', 'subselect'])),
            'nest': draw(st.sampled_from(['left', 'left', 'right'])),
            'limit': draw(st.sampled_from([None, None, None, 0, 0, 1, 2, 3, 5])),
            'outer_alias': True, 'reject': None}
    conds = []
    tc = draw(time_conds())
    if tc is not None:
        conds.append(tc)
    npf = draw(st.integers(0, 2)) if groups else 0
    for _ in range(npf):
        conds.append(draw(pf_conds(draw(st.sampled_from(groups)))))
    conds = draw(st.permutations(conds))
    sub = case['source'] == 'subselect'
    if sub:
        case['inner_alias'] = draw(st.booleans())
        # where the conditions live: all inside (dbt shape), LATEST outside (pinned by test_dbt_latest), or anywhere
        mode = draw(st.sampled_from(['inner', 'inner', 'latest-outer', 'latest-outer', 'any']))
        for c in conds:
            if mode == 'inner':
                c['at'] = 'inner'
            elif mode == 'latest-outer':
                c['at'] = 'outer' if c['op'].endswith('latest') else 'inner'
            else:
                c['at'] = draw(st.sampled_from(['inner', 'outer']))
        if all(c.get('at') == 'inner' for c in conds):
            case['outer_alias'] = draw(st.booleans())
    else:
        case['outer_alias'] = draw(st.sampled_from([True, True, True, False]))
    case['conds'] = list(conds)
    # other spellings around the conditions: model's alias as qualifier, JOIN .. ON, explicit targets, USING,
    # table / model named without their database
    extra = draw(st.integers(0, 19))
    if extra == 0 and case['outer_alias']:
        case['qual'] = 'model'
    elif extra == 1:
        case['on'] = True
    elif extra == 2:
        case['targets'] = True
    elif extra == 3:
        case['using'] = True
    elif extra in (4, 5):
        case['names'] = 'table-default-ns' if extra == 4 else 'model-default-ns'
    elif extra in (6, 7):
        case['wrap'] = draw(st.sampled_from(sorted(WRAPS)))
    if draw(st.integers(0, 4)) == 0:
        shapes = CLAUSE_SHAPES + WHERE_SHAPES
        if len(groups) == 2:
            shapes = [s for s in shapes if s != 'ungrouped-partition-col']
        shape = draw(st.sampled_from(shapes))
        case['reject'] = {'shape': shape, 'variant': draw(st.integers(0, 5)), 'pos': draw(st.integers(0, 3)),
                          'at': draw(st.sampled_from(['inner', 'outer'])) if sub else 'outer'}
        if case['reject']['at'] == 'outer':
            case['outer_alias'] = True
        case['data'] = []
    else:
        case['data'] = draw(st.lists(tables(), min_size=1, max_size=3))
        if draw(st.integers(0, 11)) == 0:
            case['colnames'] = draw(st.sampled_from(DOTTED))
    return case


# three fixed contents for the bounded part: ties / NULL times / short partitions / nothing before the bound / empty
FIXED = [
    [[1, 1, 1, 'x', 0], [2, 2, 1, 'x', 1], [3, 2, 1, 'x', 0], [4, 3, 1, 'x', 1], [5, 3, 1, 'x', 0], [6, 3, 1, 'x', 1],
     [7, 4, 1, 'x', 0], [8, 5, 1, 'x', 1], [9, None, 1, 'x', 0], [10, 3, 2, 'x', 0], [11, 3, 2, 'x', 1],
     [12, 5, 1, 'y', 0], [13, None, 2, 'y', 1]],
    [[1, 4, 1, 'x', 0], [2, 5, 1, 'x', 1], [3, 1, 2, 'y', 0], [4, 1, 2, 'y', 1], [5, 1, 2, 'y', 0], [6, 2, 2, 'y', 1],
     [7, 4, 2, 'y', 1], [8, 4, 2, 'y', 0]],
    [],
]


# column names that contain a dot (the order column and / or the group columns)
DOTTED = [{'ts': 'ts.utc'}, {'g': 'my.grp'}, {'ts': 'ts.utc', 'g': 'my.grp', 'h': 'h.part'}]


def bounded_space():
    times = [None] + [{'kind': 'time', 'op': op, 'v': [3]} for op in ('>', '>=', '=', '<', '<=')] + \
            [{'kind': 'time', 'op': 'between', 'v': [3, 4]}, {'kind': 'time', 'op': 'in', 'v': [2, 4]},
             {'kind': 'time', 'op': '>latest'}, {'kind': 'time', 'op': '=latest'}]
    base = {'upper_meta': False, 'meta_form': 'list', 'join': 'join', 'nest': 'left', 'outer_alias': True,
            'reject': None}
    n_plain = len(times)
    # other spellings of the same conditions: value in parentheses, LATEST first, order column not a bare operand
    times += [{'kind': 'time', 'op': '>latest', 'paren': True}, {'kind': 'time', 'op': '=latest', 'paren': True},
              {'kind': 'time', 'op': '>latest', 'rev': True}, {'kind': 'time', 'op': '>latest', 'rev': True, 'paren': True},
              {'kind': 'time', 'op': '>=', 'v': [3], 'paren': True}, {'kind': 'time', 'op': '=', 'v': [3], 'paren': True}] + \
             [{'kind': 'time', 'op': op, 'v': [3], 'form': 'cast'} for op in ('>', '>=', '=', '<=')] + \
             [{'kind': 'time', 'op': '>=', 'v': [3], 'form': 'between-3rd'},
              {'kind': 'time', 'op': '<=', 'v': [3], 'form': 'between-2nd'}] + \
             [{'kind': 'time', 'op': op, 'v': [3]} for op in OTHER_LATEST] + \
             [{'kind': 'time', 'op': '>=latest', 'rev': True}, {'kind': 'time', 'op': '<latest', 'rev': True}] + \
             [{'kind': 'time', 'op': 'range', 'v': [2, 4], 'lo_op': lo, 'hi_op': hi, 'hi_first': hf}
              for lo, hi, hf in (('>', '<', False), ('>=', '<=', True), ('>', '<=', True))] + \
             [{'kind': 'time', 'op': op, 'v': [3], 'form': 'not'} for op in ('>', '>=', '<', '<=')] + \
             [{'kind': 'time', 'op': op, 'v': [3], 'form': 'or-eq'} for op in ('>=', '<=')]
    # (1) accepted shapes: table source and the sub-select ("dbt") shape with the conditions inside
    for source in ('table', 'subselect'):
        for groups in ([], ['g'], ['g', 'h']):
            pfl = [None]
            if groups:
                pfl += [{'kind': 'pf', 'col': 'g', 'op': '=', 'v': [2]}, {'kind': 'pf', 'col': 'g', 'op': 'in', 'v': [1, 2]}]
            for ti, tc in enumerate(times):
                for pf in pfl:
                    for window in (0, 1, 2, 3):
                        for left in (False, True):
                            if window == 0 and (source == 'subselect' or ti >= n_plain or left):
                                continue            # window 0: every plain condition x partition filter, table source
                            if source == 'subselect' and window == 2:
                                continue
                            if ti >= n_plain and (window == 3 or (pf is not None and pf['op'] == 'in')):
                                continue            # spellings: windows 1, 2 and partition filter none / =
                            conds = [copy.deepcopy(c) for c in (tc, pf) if c is not None]
                            for c in conds:
                                if source == 'subselect':
                                    c['at'] = 'outer' if c['op'].endswith('latest') and window == 3 else 'inner'
                            yield dict(base, window=window, groups=groups, model_left=left, source=source,
                                       inner_alias=True, limit=(0 if window == 1 else 2) if left else None,
                                       conds=conds, data=FIXED)
    # (1b) order / group columns whose names contain a dot: every plain time condition x group columns
    for colnames in DOTTED:
        for groups in ([], ['g'], ['g', 'h']):
            for tc in times[:n_plain]:
                conds = [copy.deepcopy(c) for c in (tc, {'kind': 'pf', 'col': 'g', 'op': '=', 'v': [1]} if groups else None)
                         if c is not None]
                yield dict(base, window=2, groups=groups, model_left=False, source='table', inner_alias=True,
                           limit=None, conds=conds, data=FIXED[:2], colnames=colnames)
    # (1c) spellings around the conditions: model's alias as qualifier, JOIN .. ON, explicit targets, USING, table /
    #      model named without their database: every plain time condition x group columns x join order
    for extra in ({'qual': 'model'}, {'on': True}, {'targets': True}, {'using': True}, {'names': 'table-default-ns'},
                  {'names': 'model-default-ns'}, {'wrap': 'insert'}, {'wrap': 'create-table'}, {'wrap': 'subquery'}):
        for groups in ([], ['g'], ['g', 'h']):
            for tc in times[:n_plain]:
                for left in (False, True):
                    for source in ('table', 'subselect'):
                        if source == 'subselect' and ('qual' in extra or left != (tc is not None and tc['op'] == '>')):
                            continue            # sub-select: names / ON / targets / USING, one join order per condition
                        conds = [copy.deepcopy(c) for c in (tc, {'kind': 'pf', 'col': 'g', 'op': '=', 'v': [1]} if groups else None)
                                 if c is not None]
                        for c in conds:
                            c['at'] = 'inner'
                        yield dict(base, window=2, groups=groups, model_left=left, source=source, inner_alias=False,
                                   limit=1 if left else None, conds=conds, data=FIXED[:2], **extra)
    # (2) rejected shapes: every shape and spelling x group columns x join order x a time condition or none
    for shape in CLAUSE_SHAPES + WHERE_SHAPES:
        for variant in range(len(VARIANTS[shape])):
            for groups in ([], ['g'], ['g', 'h']):
                if shape == 'ungrouped-partition-col' and len(groups) == 2:
                    continue
                for left in (False, True):
                    for tc in (None, times[1], times[8]):           # none, ts > 3, ts > LATEST
                        for source, at in (('table', 'outer'), ('subselect', 'inner'), ('subselect', 'outer')):
                            if source == 'subselect' and left:
                                continue            # known crash before anything is judged
                            conds = [dict(copy.deepcopy(tc), at='inner')] if tc is not None else []
                            yield dict(base, window=2, groups=groups, model_left=left, source=source,
                                       inner_alias=True, limit=None, conds=conds, data=[],
                                       reject={'shape': shape, 'variant': variant, 'pos': 0, 'at': at})


def run_shard(col, k, nshards, tier, seed):
    for i, c in enumerate(bounded_space()):
        if i % nshards == k:
            for rec in judge(c, col):
                col.fail(rec, c)
    if k == 0:
        col.exhaustive_parts.append('accepted: time operator (10) x partition filter (none,=,IN) x window x group '
                                    'columns ([],[g],[g,h]) x join order x source (table, sub-select), 3 fixed tables; '
                                    '12 further spellings of the time condition (parenthesised value, LATEST first, '
                                    'CAST / BETWEEN-bound forms) x windows 1,2; LIMIT 0 / 2; dotted column names x '
                                    'time operator x group columns; LATEST under 6 other operators, 3 two-sided ranges, '
                                    'NOT / OR forms x windows 1,2; window 0 x time operator x partition filter; '
                                    "model's alias as qualifier / ON / targets / USING / default-namespace names / join as "
                                    "source of INSERT, CREATE TABLE, sub-query x time "
                                    'operator x group columns x join order; '
                                    'rejected: every shape and spelling x group columns x join order x source')
    hyp.explore(col, cases(), judge, N[tier], seed, shrink_key=lambda r: (r['kind'], r['site'][:40]))
