"""C14 — in a table–model join the model gets the right rows and arguments, and only those.

The case *is* the generating model (FROM items, ON / WHERE trees of labelled atoms, USING list, catalog); the SQL text
is rendered from it and every expectation (which atom is a model argument, which conjunct may be pushed into which
fetch, what the outer filter has to look like, params, column mapping, input of each model) is computed from the model,
never from the planner's own walks.  A sanity clause makes sure the parser read the text the way the model means it.
"""
import copy
from hypothesis import strategies as st

from vf import findings, hyp
from vf.props.c02 import site_of

PROPERTY = 'C14'
RULE = ('cases = generating model of a join query: 1-3 data items (tables of int1/int2, aliased sub-selects) and 1-2 '
        'non-TS models (after the data; in between; first for the 2-item swap), aliases everywhere or nowhere (declared in '
        'lower or upper case, referenced in either), INNER/LEFT/implicit joins, ON trees (table<->table equalities and '
        'comparisons, right/left-table constants, model<->table equalities, rarely non-equalities / NOT / OR), WHERE trees '
        'of labelled atoms (m.col = const, m.target = const, const = m.col, m.col <op> const, t.col <op> const, const <op> '
        't.col, t.col <op> t2.col, m.col <op> t.col, f(col) = const, col + k > const) combined by AND / OR / NOT / parentheses '
        '/ inside COALESCE() and CASE, USING lists (mixed-case keys, alias-prefixed keys of this / another item, '
        'partition_size), 5 catalog shapes (metadata list / legacy dict / default namespace = project / = integration / '
        'integration dicts; to_predict as list, string, absent; versions); judged: the five clauses of the design section; '
        'plus a bounded-exhaustive part (10 WHERE skeletons x all pairs of 10 atom kinds x 3 FROM shapes); '
        'added shapes (generated and listed): un-aliased items whose names share a suffix (int1.t1 / int2.t1, a table named '
        'like the model, two models of one version; referenced by any unique name), un-aliased versions, model JOIN table '
        'ON model.col = table.col, a second value for one argument, USING keys with a dot (own dotted name, every unique '
        'name of every item as prefix), to_predict = [] / two targets, a table of a schema named like the project; '
        'later families (generated and listed): the same model name in a second project with other targets (catalog of every '
        'shape, both orders, a condition on each: own target / the other project\'s target / an input), BETWEEN and IN whose '
        'other operands are not all constants (bounds / elements: column of the same table, of another table, of the model, '
        'arithmetic, function, constant expression; 5 FROM shapes; with and without OR), the model\'s ON clause with two '
        'columns for one model column and with constants for the model (m.a = 1, 1 = m.a, target, non-equality, under OR / '
        'NOT; JOIN / INNER / LEFT; model first), un-aliased model versions referenced without the version (pred.col for '
        'proj.pred.3); judged in addition: what is left of every ON clause in its JoinStep; '
        'non-trivial = (>= 1 model atom and >= 1 table atom in WHERE) or a non-conjunctive WHERE; distinct by (catalog, text)')
ASSUMPTIONS = ['the planner is handed the tree parse_sql(text, "mindsdb") produces; the model and the parsed tree are '
               'compared first (a mismatch is a harness error, not a verdict)',
               'predict-target atoms (m.<to_predict> = const) are not model arguments (pinned by the repository tests)',
               '`const = m.col` is an equality between a model column and a constant like `m.col = const`',
               'open (any reading accepted): row_dict / columns_map None vs {}, which allowed conjuncts are actually pushed '
               '(clause 3 is a soundness clause), whether a further entry of a to_predict list is a target (either, but then '
               'consistently: in row_dict and neutralised, or neither)',
               'two different values for one argument cannot both be passed: accepted are a PlanningException naming '
               '"Multiple values" or a plan in which only the conjunct whose value is passed stops filtering',
               'a USING key addresses the item named by its longest dotted prefix (alias, or any name of an un-aliased item '
               'that is unique in the query, in any case); a dotted key whose prefixes name no item of the query is the '
               'name of the option and is for every model',
               'an item is referenced by a name that only it has (SQL name resolution); ambiguous references are not generated',
               'an un-aliased model version `proj.pred.3` is named by `pred.3` / `proj.pred.3` and by the name of the model, `pred` / '
               '`proj.pred` (the version selects, it is no name: `3.col` is no column reference)',
               '`model.col = constant` as top-level conjunct of the ON clause of the model\'s own INNER join is an equality condition '
               'between a model column and a constant like the same conjunct of WHERE (the two are equivalent there): it becomes an '
               'argument and stops being a join condition; with LEFT JOIN either reading is accepted (argument, or condition of the '
               'match), consistently; ON clauses of other items are not generated with model constants',
               'two ON equalities that give one model column two different columns cannot both be the mapping: accepted are a '
               'PlanningException naming "Multiple" or a plan in which exactly the conjunct whose column is mapped stops being a join '
               'condition; a conjunct of an ON clause that became neither a mapping nor an argument is still in the JoinStep, unchanged',
               'column names are compared as written (m.a and m.A are two arguments, m.x and m.X two mapped columns); only the '
               'prediction targets are compared case-insensitively (pinned by the repository)']
_F = {'__nontrivial__': 1600, 'clean-nontrivial': 900, 'where:conjunction': 2000, 'where:non-conjunctive': 1000,
      'atom:marg': 2200, 'atom:mtarget': 280, 'atom:mrev': 380, 'atom:tconst': 1200, 'atom:mtcol': 370,
      'ctx:m:under-not': 340, 'ctx:m:under-or': 420, 'ctx:t:under-not': 130, 'ctx:m:under-func': 100,
      'judged:row_dict-non-empty': 1600, 'judged:outer-filter': 3300, 'judged:pushed-from-where': 1200,
      'judged:pushed-from-on': 240, 'judged:pushed-semijoin': 310, 'judged:params-non-empty': 2000,
      'judged:partition': 1000, 'judged:columns_map-non-empty': 1400, 'judged:input-is-a-join': 2800,
      'models:2': 1000, 'aliases:no': 1300, 'item:sub-select': 900, 'item:model-version': 550, 'order:model-first': 200,
      'order:model-in-between': 390, 'join:LEFT JOIN': 1300, 'using:prefixed': 1800, 'using:mixed-case': 1600,
      'catalog:legacy': 800, 'catalog:default-proj': 800, 'catalog:default-int1': 800, 'catalog:dicts': 800,
      'names:shared-suffix': 170, 'on:model-first': 70, 'table:schema-named-like-project': 120,
      'to_predict:empty-list': 140, 'where:duplicate-argument': 120, 'atom:mtarget2': 25}
# later shape families: (quick, thorough) -- the listed parts do not grow with the tier
_F2 = {'models:same-name-two-projects': (600, 4600), 'item:model-of-project2': (1200, 9600),
       'where:between-non-constant-bound': (1100, 6400), 'between:upper-bound': (380, 3000), 'between:lower-bound': (200, 1500),
       'between:both-bounds': (540, 1900), 'between:column-const-nonconst:top-level': (290, 2300),
       'where:in-list-with-column': (400, 2800), 'on:duplicate-mapping': (300, 2400), 'on:model-argument': (540, 4300),
       'judged:on-argument': (340, 2700), 'judged:join-condition': (2700, 21000), 'names:version-less': (200, 1600)}
FLOORS = {'quick': dict(_F, **{k: v[0] for k, v in _F2.items()}),
          'thorough': dict({k: v * 8 for k, v in _F.items()}, **{k: v[1] for k, v in _F2.items()})}
N = {'quick': 800, 'thorough': 8000}

TABLES = {'t1': 'int1', 't2': 'int1', 't3': 'int2', 't4': 'int2'}
MODELS = {'pred': ['y'], 'pred2': None, 'pred3': 'Y', 'pred4': [], 'pred5': ['y', 'z']}          # name -> to_predict
# the models of the same names in a second project: every target of one twin is an ordinary input of the other
MODELS2 = {'pred': ['z'], 'pred2': 'y', 'pred3': None, 'pred4': ['Y'], 'pred5': ['z']}
PROJECT2 = 'proj2'
CATALOGS = ('list', 'legacy', 'default-proj', 'default-int1', 'dicts')
CMP = ('=', '!=', '<', '>', '<=', '>=')


def project_of(cat):
    return 'mindsdb' if cat == 'legacy' else 'proj'


def catalog(cat):
    """Fresh planner keyword arguments (the planner writes into the metadata dicts)."""
    def meta(name, models=MODELS):
        d = {}
        if models[name] is not None:
            d['to_predict'] = copy.deepcopy(models[name])
        return d
    if cat == 'legacy':
        md = {n: meta(n) for n in MODELS}
        md.update({PROJECT2 + '.' + n: meta(n, MODELS2) for n in MODELS2})          # key 'project.name'
        return dict(integrations=['int1', 'int2'], predictor_namespace='mindsdb', predictor_metadata=md)
    lst = [dict(meta(n), name=n, integration_name='proj') for n in MODELS]
    lst += [dict(meta(n, MODELS2), name=n, integration_name=PROJECT2) for n in MODELS2]
    if cat == 'list':
        return dict(integrations=['int1', 'int2'], default_namespace='mindsdb', predictor_metadata=lst)
    if cat == 'default-proj':
        return dict(integrations=['int1', 'int2'], default_namespace='proj', predictor_metadata=lst)
    if cat == 'default-int1':
        return dict(integrations=['int1', 'int2'], default_namespace='int1', predictor_metadata=lst)
    if cat == 'dicts':
        return dict(integrations=[{'name': 'int1', 'class_type': 'sql', 'type': 'data'},
                                  {'name': 'int2', 'class_type': 'sql', 'type': 'data'},
                                  {'name': 'proj', 'class_type': 'project', 'type': 'project'},
                                  {'name': PROJECT2, 'class_type': 'project', 'type': 'project'}],
                    default_namespace='mindsdb', predictor_metadata=lst)
    raise ValueError(cat)


def prepare(tier):
    import mindsdb_sql.planner  # noqa
    from mindsdb_sql import parse_sql
    parse_sql('select 1', 'mindsdb')          # build the LALR tables once, before the fork


# ------------------------------------------------------------------------------------------------ the model

def swapcase(s):
    return s.upper() if s.lower() == s else s.lower()


class Q:
    """Derived view of a case."""

    def __init__(self, case):
        self.case = case
        self.cat = case['catalog']
        self.items = case['items']
        self.where = case.get('where')
        self.using = case.get('using')
        self.proj = project_of(self.cat)

    # -- well-formedness of a (possibly hand-written / shrunk) case
    def problem(self):
        its = self.items
        if self.cat not in CATALOGS or not (2 <= len(its) <= 5):
            return 'shape'
        al = [i.get('alias') for i in its]
        if any(al) and not all(al):
            return 'aliases neither everywhere nor nowhere'
        for i in its:
            if i['k'] == 'model':
                if i['name'] not in MODELS:
                    return 'unknown model'
                if not i.get('qualified', True) and (self.cat != 'default-proj' or i.get('project')):
                    return 'unqualified model'
                if i.get('project') not in (None, 2):
                    return 'unknown project'
            else:
                if i['name'] not in TABLES:
                    return 'unknown table'
                if i['k'] == 'table' and not i.get('qualified', True) and not (
                        self.cat == 'default-int1' and TABLES[i['name']] == 'int1'):
                    return 'unqualified table'
                if i['k'] == 'sub' and not i.get('alias'):
                    return 'sub-select without alias'
                if i['k'] == 'sub' and (i.get('tname') or i.get('schema')):
                    return 'sub-select of a renamed table'
        if any(not self.qualifiers(idx) for idx in range(len(its))):
            return 'ambiguous names'          # an item that no column reference can name
        if its[0].get('on') is not None:
            return 'ON on first item'
        if not any(i['k'] == 'model' for i in its) or not any(i['k'] != 'model' for i in its):
            return 'needs data and model'
        return None

    # -- names
    def project_name(self, idx):
        return PROJECT2 if self.items[idx].get('project') else self.proj

    def to_predict(self, idx):
        i = self.items[idx]
        return (MODELS2 if i.get('project') else MODELS)[i['name']]

    def twins(self):
        """Pairs of model items that have the same name in different projects."""
        ms = [k for k, i in enumerate(self.items) if i['k'] == 'model']
        return [(a, b) for a in ms for b in ms if a < b and self.items[a]['name'] == self.items[b]['name']
                and bool(self.items[a].get('project')) != bool(self.items[b].get('project'))]

    def targets_of(self, idx):
        t = self.to_predict(idx)
        if t is None:
            return []
        return [x.lower() for x in (t if isinstance(t, list) else [t])]

    def shared_suffix(self):
        """Do two un-aliased items share a name suffix (int1.t1 / int2.t1, a table named like the model, two versions 3)?"""
        seen = set()
        for idx in range(len(self.items)):
            if self.items[idx].get('alias'):
                continue
            for t in self.name_tuples(idx):
                if t in seen:
                    return True
                seen.add(t)
        return False

    def written_parts(self, idx):
        i = self.items[idx]
        if i['k'] == 'model':
            p = ([self.project_name(idx)] if i.get('qualified', True) else []) + [i['name']]
            if i.get('version') is not None:
                p.append(str(i['version']))
            return p
        return ([TABLES[i['name']]] if i.get('qualified', True) else []) + ([i['schema']] if i.get('schema') else []) \
            + [i.get('tname') or i['name']]

    def name_tuples(self, idx):
        i = self.items[idx]
        if i.get('alias'):
            return [(i['alias'].lower(),)]
        p = [x.lower() for x in self.written_parts(idx)]
        return [tuple(p[k:]) for k in range(len(p))] + self.versionless_tuples(idx)

    def versionless_tuples(self, idx):
        """`proj.pred.3` is version 3 of the model proj.pred: the names of the model without the version name it too."""
        i = self.items[idx]
        if i.get('alias') or i['k'] != 'model' or i.get('version') is None:
            return []
        p = [x.lower() for x in self.written_parts(idx)][:-1]
        return [tuple(p[k:]) for k in range(len(p))]

    def uses_versionless(self):
        """Is an un-aliased model version referenced (column, USING key) by a name without the version?"""
        found = []

        def operand(o):
            if 'col' in o:
                t = tuple(self.qual_text(o['of'], o.get('q', 0)).lower().split('.'))
                if t in self.versionless_tuples(o['of']):
                    found.append(t)
            for k in ('x', 'y'):
                if isinstance(o.get(k), dict):
                    operand(o[k])
            for x in o.get('list', ()):
                operand(x)

        def tree(t):
            if t is None:
                return
            for k in ('and', 'or'):
                if k in t:
                    for x in t[k]:
                        tree(x)
                    return
            for k in ('not', 'par', 'x'):
                if k in t and 'args' not in t:
                    return tree(t[k])
            for o in t['args']:
                operand(o)
        tree(self.where)
        for i in self.items:
            tree(i.get('on'))
        for k, _ in (self.using or []):
            parts = k.lower().split('.')
            for n in range(len(parts) - 1, 0, -1):
                r = self.resolve(parts[:n])
                if isinstance(r, int):
                    if tuple(parts[:n]) in self.versionless_tuples(r):
                        found.append(tuple(parts[:n]))
                    break
        return bool(found)

    def resolve(self, parts, written_first=False):
        parts = tuple(str(x).lower() for x in parts)
        if not parts:
            return None
        hit = [idx for idx in range(len(self.items)) if parts in self.name_tuples(idx)]
        if len(hit) == 1:
            return hit[0]
        if written_first and hit:
            # reading a plan: a name that is the written name of one item and the version-less name of a model version
            #   (never generated: it is ambiguous) stands for the former
            hit2 = [idx for idx in hit if parts not in self.versionless_tuples(idx)]
            if len(hit2) == 1:
                return hit2[0]
        return (('ambiguous',) if hit else ('?',)) + parts

    def resolve_out(self, parts):
        return self.resolve(parts, True)

    def qualifiers(self, idx):
        """Spellings by which a column reference / USING key can name the item: shortest first, as written."""
        i = self.items[idx]
        if i.get('alias'):
            return [i['alias']]
        p = self.written_parts(idx)
        out = []
        for k in range(len(p) - 1, -1, -1):
            if not p[k][0].isdigit() and self.resolve(p[k:]) == idx:          # `3.col` is no column reference
                out.append('.'.join(p[k:]))
        if self.versionless_tuples(idx):
            for k in range(len(p) - 2, -1, -1):
                if self.resolve(p[k:-1]) == idx:
                    out.append('.'.join(p[k:-1]))
            out.sort(key=lambda x: (x.count('.'), x))
        return out

    def key_target(self, k):
        """(item the key is addressed to | 'all', option name, tag): the longest prefix that names an item of the query."""
        parts = k.split('.')
        for n in range(len(parts) - 1, 0, -1):
            r = self.resolve(parts[:n])
            if isinstance(r, int):
                pre = '.'.join(parts[:n])
                tag = 'key:prefix-multi-part' if n > 1 else ('key:prefix-upper' if pre != pre.lower() else 'key:prefix-lower')
                return r, '.'.join(parts[n:]), tag
            if r[0] == 'ambiguous':
                return None, k, 'key:ambiguous'
        return 'all', k, ('key:dotted-name' if len(parts) > 1 else 'key:plain')

    def qual_text(self, idx, q):
        i = self.items[idx]
        if i.get('alias'):
            v = [i['alias'], i['alias'], swapcase(i['alias'])]
        else:
            p = self.qualifiers(idx)
            v = [p[0], p[-1], p[len(p) // 2]]
        return v[q % len(v)]

    # -- text
    def const_text(self, v):
        if v is None:
            return 'NULL'
        if v is True:
            return 'true'
        if v is False:
            return 'false'
        if isinstance(v, str):
            return "'" + v + "'"
        return repr(v)

    def operand_text(self, o):
        if 'col' in o:
            return self.qual_text(o['of'], o.get('q', 0)) + '.' + o['col']
        if 'const' in o:
            return self.const_text(o['const'])
        if 'tuple' in o:
            return '(' + ', '.join(self.const_text(v) for v in o['tuple']) + ')'
        if 'list' in o:
            return '(' + ', '.join(self.operand_text(x) for x in o['list']) + ')'
        if 'fn' in o:
            return o['fn'] + '(' + self.operand_text(o['x']) + ')'
        if 'arith' in o:
            return self.operand_text(o['x']) + ' ' + o['arith'] + ' ' + self.operand_text(o['y'])
        raise ValueError(o)

    def atom_text(self, a):
        t = [self.operand_text(o) for o in a['args']]
        if a['op'] == 'between':
            return f'{t[0]} BETWEEN {t[1]} AND {t[2]}'
        return f'{t[0]} {a["op"].upper()} {t[1]}'

    def tree_text(self, t, parent=None, left=True):
        for op in ('and', 'or'):
            if op in t:
                a, b = t[op]
                s = self.tree_text(a, op, True) + ' ' + op.upper() + ' ' + self.tree_text(b, op, False)
                need = parent in ('not', 'wrap') or (parent == 'and' and (op == 'or' or not left)) \
                    or (parent == 'or' and op == 'or' and not left)
                return '(' + s + ')' if need else s
        if 'not' in t:
            return 'NOT ' + self.tree_text(t['not'], 'not')
        if 'par' in t:
            return '(' + self.tree_text(t['par'], None) + ')'
        if 'wrap' in t:
            x = self.tree_text(t['x'], 'wrap')
            if t['wrap'] == 'func':
                return f'coalesce({x}, 0) = 0'          # true where x is false or unknown
            return f'CASE WHEN {x} THEN 0 ELSE 1 END = 1'     # likewise
        return self.atom_text(t)

    def item_text(self, idx):
        i = self.items[idx]
        if i['k'] == 'sub':
            inner = 'select * from ' + TABLES[i['name']] + '.' + i['name'] + (' where z = 7' if i.get('inner_where') else '')
            s = '(' + inner + ')'
        else:
            s = '.'.join(self.written_parts(idx))
        if i.get('alias'):
            s += (' AS ' if self.case.get('as_kw') else ' ') + i['alias']
        return s

    def sql(self):
        s = 'SELECT ' + (self.case.get('targets') or '*') + ' FROM ' + self.item_text(0)
        for idx in range(1, len(self.items)):
            i = self.items[idx]
            j = i.get('join') or 'JOIN'
            if j == ',':
                s += ', ' + self.item_text(idx)
            else:
                s += ' ' + j + ' ' + self.item_text(idx)
                if i.get('on') is not None:
                    s += ' ON ' + self.tree_text(i['on'])
        if self.where is not None:
            s += ' WHERE ' + self.tree_text(self.where)
        if self.using is not None:
            s += ' USING ' + ', '.join(k + ' = ' + self.const_text(v) for k, v in self.using)
        return s


# ------------------------------------------------------------------------------------------------ abstractions

def c_abs(v):
    return ('const', type(v).__name__, v)


NEUTRAL = ('op', '=', c_abs(0), c_abs(0))


def operand_abs(o):
    if 'col' in o:
        return ('col', o['of'], o['col'])
    if 'const' in o:
        return c_abs(o['const'])
    if 'tuple' in o:
        return ('tuple',) + tuple(c_abs(v) for v in o['tuple'])
    if 'list' in o:
        return ('tuple',) + tuple(operand_abs(x) for x in o['list'])
    if 'fn' in o:
        return ('fn', o['fn'].lower(), operand_abs(o['x']))
    if 'arith' in o:
        return ('op', o['arith'], operand_abs(o['x']), operand_abs(o['y']))
    raise ValueError(o)


def atom_abs(a):
    return ('op', a['op']) + tuple(operand_abs(o) for o in a['args'])


def tree_abs(t, leaf):
    for op in ('and', 'or'):
        if op in t:
            return ('op', op, tree_abs(t[op][0], leaf), tree_abs(t[op][1], leaf))
    if 'not' in t:
        return ('un', 'not', tree_abs(t['not'], leaf))
    if 'par' in t:
        return tree_abs(t['par'], leaf)
    if 'wrap' in t:
        x = tree_abs(t['x'], leaf)
        if t['wrap'] == 'func':
            return ('op', '=', ('fn', 'coalesce', x, c_abs(0)), c_abs(0))
        return ('op', '=', ('case', None, ((x, c_abs(0)),), c_abs(1)), c_abs(1))
    return leaf(t)


def ast_abs(n, resolve):
    """Own reading of a library expression tree (class + fields), identifiers resolved by the model's names."""
    from mindsdb_sql.parser import ast
    if n is None:
        return None
    if isinstance(n, ast.Identifier):
        return ('col', resolve(n.parts[:-1]), n.parts[-1])
    if isinstance(n, ast.Constant):
        return c_abs(n.value)
    if isinstance(n, ast.Function):
        return ('fn', str(n.op).lower()) + tuple(ast_abs(a, resolve) for a in n.args)
    if isinstance(n, ast.UnaryOperation):
        return ('un', str(n.op).lower()) + tuple(ast_abs(a, resolve) for a in n.args)
    if isinstance(n, (ast.BinaryOperation, ast.BetweenOperation)):
        return ('op', str(n.op).lower()) + tuple(ast_abs(a, resolve) for a in n.args)
    if isinstance(n, ast.Case):
        return ('case', ast_abs(n.arg, resolve), tuple((ast_abs(c, resolve), ast_abs(r, resolve)) for c, r in n.rules),
                ast_abs(n.default, resolve))
    if isinstance(n, ast.Tuple):
        return ('tuple',) + tuple(ast_abs(a, resolve) for a in n.items)
    if isinstance(n, ast.Parameter):
        return ('param', repr(n.value))
    return ('other', type(n).__name__)


def erase(a):
    """Forget which table a column was attributed to (column names are unique per atom)."""
    if isinstance(a, tuple):
        if a and a[0] == 'col':
            return ('col', a[2])
        return tuple(erase(x) for x in a)
    return a


def match(e, a, out):
    """Parallel walk of expected skeleton (with ('ATOM', id) leaves) and an abstraction; fills out[id]."""
    if isinstance(e, tuple) and e and e[0] == 'ATOM':
        out[e[1]] = a
        return True
    if isinstance(e, tuple):
        return isinstance(a, tuple) and len(a) == len(e) and all(match(x, y, out) for x, y in zip(e, a))
    return type(e) is type(a) and e == a


def negation_depth(t):
    """Largest number of negating nodes (NOT, the two wrappers) on a path of a model tree."""
    if t is None:
        return 0
    for op in ('and', 'or'):
        if op in t:
            return max(negation_depth(x) for x in t[op])
    if 'not' in t:
        return 1 + negation_depth(t['not'])
    if 'wrap' in t:
        return 1 + negation_depth(t['x'])
    if 'par' in t:
        return negation_depth(t['par'])
    return 0


def atoms_ctx(t, ctx='top', out=None):
    """[(atom, outermost non-conjunctive context)] of a model tree."""
    out = [] if out is None else out
    if t is None:
        return out
    if 'and' in t:
        for x in t['and']:
            atoms_ctx(x, ctx, out)
    elif 'or' in t:
        for x in t['or']:
            atoms_ctx(x, ctx if ctx != 'top' else 'under-or', out)
    elif 'not' in t:
        atoms_ctx(t['not'], ctx if ctx != 'top' else 'under-not', out)
    elif 'par' in t:
        atoms_ctx(t['par'], ctx, out)
    elif 'wrap' in t:
        atoms_ctx(t['x'], ctx if ctx != 'top' else 'under-' + t['wrap'], out)
    else:
        out.append((t, ctx))
    return out


def operand_items(o, out):
    if 'col' in o:
        out.add(o['of'])
    for k in ('x', 'y'):
        if k in o and isinstance(o[k], dict):
            operand_items(o[k], out)
    for x in o.get('list', ()):
        operand_items(x, out)
    return out


def atom_items(a):
    s = set()
    for o in a['args']:
        operand_items(o, s)
    return s


def inner_ops(o, out):
    if 'arith' in o:
        out.append(operand_abs(o))
    for k in ('x', 'y'):
        if k in o and isinstance(o[k], dict):
            inner_ops(o[k], out)
    for x in o.get('list', ()):
        inner_ops(x, out)
    return out


def arg_of(a):
    """(column operand, constant operand) of `col = const` / `const = col`."""
    x, y = a['args']
    return (x, y) if 'col' in x else (y, x)


def classify(a, q):
    """Label of an atom, from its structure only."""
    args, op = a['args'], a['op']
    ismodel = lambda o: q.items[o['of']]['k'] == 'model'
    plain = all(('col' in o) or ('const' in o) or ('tuple' in o) for o in args)
    if not plain:
        its = atom_items(a)
        return 'complex-model' if any(q.items[i]['k'] == 'model' for i in its) else 'complex-table'
    cols = [o for o in args if 'col' in o]
    if len(cols) == 1:
        c = cols[0]
        first = args[0] is c
        if ismodel(c):
            tgts = q.targets_of(c['of'])
            if op == '=' and len(args) == 2:
                if c['col'].lower() in tgts[:1]:
                    return 'mtarget' if first else 'mrev-target'
                if c['col'].lower() in tgts:
                    return 'mtarget2'          # a further target: open, whether it is one (either way, consistently)
                return 'marg' if first else 'mrev'
            return 'mcmp'
        return 'tconst' if first else 'trev'
    if len(cols) == 2:
        k = sum(1 for c in cols if ismodel(c))
        return {0: 'ttcol', 1: 'mtcol', 2: 'mmcol'}[k]
    return 'other'


# ------------------------------------------------------------------------------------------------ plan reading

def flat_steps(plan):
    out = []
    for s in plan.steps:
        out.append((s, None))
        if type(s).__name__ == 'MapReduceStep':
            subs = s.step if isinstance(s.step, list) else [s.step]
            for k, x in enumerate(subs):
                out.append((x, (s, k)))
    return out


def conjuncts(n):
    from mindsdb_sql.parser import ast
    if n is None:
        return []
    if isinstance(n, ast.BinaryOperation) and str(n.op).lower() == 'and':
        return conjuncts(n.args[0]) + conjuncts(n.args[1])
    return [n]


# ------------------------------------------------------------------------------------------------ the oracle

def judge(case, col):
    from mindsdb_sql import parse_sql
    from mindsdb_sql.parser import ast
    from mindsdb_sql.planner import plan_query
    from mindsdb_sql.planner.step_result import Result
    from mindsdb_sql.exceptions import PlanningException
    q = Q(case)
    bad = q.problem()
    if bad:
        col.excluded('ill-formed case: ' + bad)
        return []
    items = q.items
    if max([negation_depth(q.where)] + [negation_depth(it.get('on')) for it in items]) > 1:
        # NOT (NOT a OR b) makes `a` a conjunct again: polarity is not modelled, such trees are outside the domain
        col.excluded('nested negation')
        return []
    if any(q.key_target(k)[0] is None for k, _ in (q.using or [])):
        col.excluded('USING key with an ambiguous prefix')
        return []
    sql = q.sql()
    aliased = bool(items[0].get('alias'))
    cfg = {'catalog': q.cat, 'aliases': 'yes' if aliased else 'no'}
    gfeats = []          # mechanisms of the whole statement; on every record
    if q.shared_suffix():
        gfeats.append('names:shared-suffix')
    if any(it.get('schema') for it in items):
        gfeats.append('table:schema-named-like-project')
    if any(it['k'] == 'model' and q.to_predict(i) == [] for i, it in enumerate(items)):
        gfeats.append('to_predict:empty-list')
    if q.twins():
        gfeats.append('models:same-name-two-projects')
    if q.uses_versionless():
        gfeats.append('names:version-less')
    models = [i for i, it in enumerate(items) if it['k'] == 'model']
    model_first = items[0]['k'] == 'model'
    if model_first and len(items) > 2:
        col.excluded('model first with more than 2 items (the planner documents it as not implemented)')
        return []

    # ---- what the model says
    w_atoms = atoms_ctx(q.where)
    labels = {a['id']: classify(a, q) for a, _ in w_atoms}
    registry = {}          # erased abstraction -> (clause, atom, ctx, role)
    for a, c in w_atoms:
        registry[erase(atom_abs(a))] = ('where', a, c, 'atom')
        for o in a['args']:
            for x in inner_ops(o, []):
                registry.setdefault(erase(x), ('where', a, c, 'inner'))
    on_atoms = {}
    for j, it in enumerate(items):
        on_atoms[j] = atoms_ctx(it.get('on'))
        for a, c in on_atoms[j]:
            registry[erase(atom_abs(a))] = (('on', j), a, c, 'atom')

    # top-level arguments per (model, column as written); two different values for one column cannot both be passed
    arg_groups = {}
    for a, c in w_atoms:
        if labels[a['id']] in ('marg', 'mrev', 'mtarget2') and c == 'top':
            o, k = arg_of(a)
            arg_groups.setdefault((o['of'], o['col']), []).append(c_abs(k['const']))
    dup_cols = {k: v for k, v in arg_groups.items() if len(set(v)) > 1}

    # the ON clause a model sees (model first: the one written at the table): column mappings and constant equalities
    def own_join(mi):
        return 1 if model_first else mi
    map_groups, on_args = {}, {}          # (model, column as written) -> [(atom id, mapped column)];  atom id -> (model, col, const)
    for mi in models:
        for a, c in on_atoms[own_join(mi)]:
            if c != 'top' or a['op'] != '=' or len(a['args']) != 2:
                continue
            l, r = a['args']
            if 'col' in l and 'col' in r:
                if l['of'] == mi and r['of'] != mi:
                    map_groups.setdefault((mi, l['col']), []).append((a['id'], ('col', r['of'], r['col'])))
                elif r['of'] == mi and l['of'] != mi:
                    map_groups.setdefault((mi, r['col']), []).append((a['id'], ('col', l['of'], l['col'])))
            elif classify(a, q) in ('marg', 'mrev', 'mtarget2') and arg_of(a)[0]['of'] == mi:
                on_args[a['id']] = (mi, arg_of(a)[0]['col'], arg_of(a)[1]['const'], classify(a, q))
    dup_maps = {k: v for k, v in map_groups.items() if len({x for _, x in v}) > 1}

    classes = ['catalog:' + q.cat, 'aliases:' + cfg['aliases'], f'data-items:{len(items) - len(models)}',
               f'models:{len(models)}'] + gfeats
    if dup_cols:
        classes.append('where:duplicate-argument')
    if dup_maps:
        classes.append('on:duplicate-mapping')
    if on_args:
        classes.append('on:model-argument')
    classes += sorted({'atom:' + labels[a['id']] for a, _ in w_atoms})
    classes += sorted({'ctx:' + labels[a['id']][0] + ':' + c for a, c in w_atoms})
    for a, c in w_atoms:
        # a comparison of more than two operands / with a list: every operand decides whether it is `column <op> constant`
        if a['op'] == 'between':
            lo, hi = ['const' not in o for o in a['args'][1:]]
            if lo or hi:
                classes.append('where:between-non-constant-bound')
                classes.append('between:' + ('both-bounds' if lo and hi else ('upper-bound' if hi else 'lower-bound')))
                if c == 'top' and hi and not lo and 'col' in a['args'][0]:
                    classes.append('between:column-const-nonconst:top-level')
        if any('list' in o for o in a['args']):
            classes.append('where:in-list-with-column')
    nonconj = any(c != 'top' for _, c in w_atoms)
    classes.append('where:none' if q.where is None else ('where:non-conjunctive' if nonconj else 'where:conjunction'))
    if any(it['k'] == 'sub' for it in items):
        classes.append('item:sub-select')
    if any(it.get('version') is not None for it in items):
        classes.append('item:model-version')
    if any(it.get('project') for it in items):
        classes.append('item:model-of-project2')
    if model_first:
        classes.append('order:model-first')
    elif any(items[k]['k'] != 'model' for k in range(models[0], len(items))):
        classes.append('order:model-in-between')
    for it in items[1:]:
        classes.append('join:' + (it.get('join') or 'JOIN'))
    if any(it.get('alias') and it['alias'] != it['alias'].lower() for it in items):
        classes.append('alias:upper')
    if q.using is not None:
        classes.append('using')
        if any('.' in k for k, _ in q.using):
            classes.append('using:prefixed')
        if any(k.lower().split('.')[-1] == 'partition_size' for k, _ in q.using):
            classes.append('using:partition_size')
        if any(k != k.lower() for k, _ in q.using):
            classes.append('using:mixed-case')
    for j, it in enumerate(items):
        if it.get('on') is not None:
            classes.append('on:model' if it['k'] == 'model' else 'on:data')
            if any(c != 'top' for _, c in on_atoms[j]):
                classes.append('on:non-conjunctive')
    n_m = sum(1 for a, _ in w_atoms if labels[a['id']][0] == 'm' or labels[a['id']] == 'complex-model')
    n_t = sum(1 for a, _ in w_atoms if labels[a['id']][0] == 't' or labels[a['id']] == 'complex-table')
    nontrivial = (n_m >= 1 and n_t >= 1) or nonconj
    key = (q.cat, sql)

    def done(out, extra=()):
        col.case(key, nontrivial and 'refused' not in extra, sorted(set(classes) | set(extra)), {'catalog': q.cat, 'sql': sql})
        return out

    # ---- parse; the parser must have read the text the way the model means it
    tree = parse_sql(sql, 'mindsdb')
    leaf = lambda a: atom_abs(a)
    if q.where is not None or tree.where is not None:
        if q.where is None or ast_abs(tree.where, q.resolve) != tree_abs(q.where, leaf):
            raise RuntimeError(f'harness: parsed WHERE differs from the model: {sql}')
    jn, k = tree.from_table, len(items) - 1
    while k >= 1:
        if not isinstance(jn, ast.Join):
            raise RuntimeError(f'harness: FROM is not the left-deep join of the model: {sql}')
        want = items[k].get('on')
        if (want is None) != (jn.condition is None) or \
                (want is not None and ast_abs(jn.condition, q.resolve) != tree_abs(want, leaf)):
            raise RuntimeError(f'harness: parsed ON differs from the model: {sql}')
        jn, k = jn.left, k - 1
    if q.using is not None and (tree.using is None or list(tree.using.items()) != [(k, v) for k, v in q.using]):
        raise RuntimeError(f'harness: parsed USING differs from the model: {sql} -> {tree.using}')

    # ---- plan
    try:
        plan = plan_query(tree, **catalog(q.cat))
    except (PlanningException, NotImplementedError) as e:
        if dup_cols and isinstance(e, PlanningException) and 'Multiple values' in str(e):
            # two different values for one argument: no plan can pass both (a select from the model is refused alike)
            return done([], ['refused', 'refused:duplicate-argument'])
        if dup_maps and isinstance(e, PlanningException) and 'Multiple' in str(e):
            # two different columns for one model column: no mapping can hold both
            return done([], ['refused', 'refused:duplicate-mapping'])
        return done([findings.record('refused', type(e).__name__, gfeats, cfg, str(e)[:200], sql)], ['refused'])
    except RecursionError:
        col.excluded('recursion')
        return []
    except Exception as e:
        return done([findings.record('refused', 'crash:' + site_of(e), gfeats, cfg, repr(e)[:200], sql)], ['refused'])

    out = []
    steps = flat_steps(plan)
    by_num = {str(s.step_num): s for s, _ in steps}
    inside = {id(s): par for s, par in steps}

    def rec(kind, site, feats, detail):
        out.append(findings.record(kind, site, list(feats) + gfeats, cfg, detail + ' | plan: ' + plan_text(plan), sql))

    # ---- which step stands for which FROM item
    sub_wrappers = [s for s, _ in steps if type(s).__name__ == 'SubSelectStep' and s.table_name is not None]
    inner_fetch = {str(s.dataframe.step_num) for s in sub_wrappers if isinstance(s.dataframe, Result)}
    step_of, shape_problem = {}, None
    for s, _ in steps:
        n = type(s).__name__
        idx = None
        if n == 'FetchDataframeStep' and str(s.step_num) not in inner_fetch:
            ft = getattr(s.query, 'from_table', None)
            if isinstance(ft, ast.Identifier):
                al = ft.alias.parts[-1] if ft.alias is not None else None
                cand = [i for i, it in enumerate(items) if it['k'] == 'table' and (it.get('tname') or it['name']) == ft.parts[-1]
                        and it.get('alias') == al and TABLES[it['name']] == s.integration
                        and (not it.get('schema') or [str(x) for x in ft.parts[-2:-1]] == [it['schema']])]
                idx = cand[0] if len(cand) == 1 else None
            if idx is None:
                shape_problem = f'fetch step {s.step_num} stands for no table of the query'
        elif n == 'SubSelectStep' and s.table_name is not None:
            cand = [i for i, it in enumerate(items) if it['k'] == 'sub' and it['alias'] == s.table_name]
            idx = cand[0] if len(cand) == 1 else None
            if idx is None:
                shape_problem = f'sub-select step {s.step_num} stands for no sub-select of the query'
        elif n in ('ApplyPredictorStep', 'ApplyTimeseriesPredictorStep', 'ApplyPredictorRowStep'):
            p = s.predictor
            al = p.alias.parts[-1] if getattr(p, 'alias', None) is not None else None
            cand = [i for i in models if items[i].get('alias') == al
                    and [str(x) for x in p.parts] == q.written_parts(i)[(1 if items[i].get('qualified', True) else 0):]]
            if len(cand) > 1:          # un-aliased models of one name in two projects: the step says which project
                cand = [i for i in cand if s.namespace == q.project_name(i) and i not in step_of] or cand
            idx = cand[0] if len(cand) == 1 else None
            if idx is None:
                rec('apply-target', 'predictor', [], f'apply step {s.step_num} applies {p.parts} (alias {al}): no model '
                                                     f'reference of the query')
                continue
        else:
            continue
        if idx is not None:
            if idx in step_of:
                if items[idx]['k'] == 'model':
                    rec('apply-steps', 'duplicate', [], f'more than one apply step for item {idx}')
                else:
                    shape_problem = f'two steps for item {idx}'
            else:
                step_of[idx] = s
    for i, it in enumerate(items):
        if i not in step_of:
            if it['k'] == 'model':
                rec('apply-steps', 'missing', [], f'no apply-predictor step for model reference {q.item_text(i)}')
            else:
                shape_problem = shape_problem or f'no step for data item {q.item_text(i)}'
    if shape_problem:
        rec('plan-shape', 'items', [], shape_problem)
        return done(out)

    def leaves(res, depth=0):
        """FROM items whose data a result contains."""
        if not isinstance(res, Result) or depth > 40:
            return {'?'}
        s = by_num.get(str(res.step_num))
        if s is None:
            return {'?'}
        n = type(s).__name__
        for i, x in step_of.items():
            if x is s:
                return {i}
        if n == 'JoinStep':
            return leaves(s.left, depth + 1) | leaves(s.right, depth + 1)
        if n == 'MapReduceStep':
            subs = s.step if isinstance(s.step, list) else [s.step]
            return leaves(subs[-1].result, depth + 1) if subs else {'?'}
        return {'?'}

    key_target = q.key_target
    any_partition = False
    exp_params = {}
    for mi in models:
        if q.using is None:
            exp_params[mi] = (None, None, None)
            continue
        prm = {}
        ps_key = None
        for k, v in q.using:
            tgt, name, _ = key_target(k)
            if tgt not in ('all', mi):
                continue
            k2 = name.lower()
            prm[k2] = v
            if k2 == 'partition_size':
                ps_key = k
        ps = prm.pop('partition_size', None)
        any_partition = any_partition or ps is not None
        exp_params[mi] = (prm, ps, ps_key)

    typed = lambda d: {k: (type(v).__name__, v) for k, v in d.items()}
    on_consumed = {}          # atom id of an ON clause -> did it become a column mapping / an argument of its model (None: either)
    on_one_of = []            # groups of atom ids of which at least one has to be consumed

    for mi in models:
        s = step_of.get(mi)
        if s is None:
            continue
        it = items[mi]
        mfeat = ['model:' + it['name']] + (['alias:upper'] if it.get('alias') and it['alias'] != it['alias'].lower() else [])
        # (1) kind of step, namespace, input
        if type(s).__name__ != 'ApplyPredictorStep':
            rec('apply-steps', 'step-class', mfeat, f'{type(s).__name__} for a non-timeseries model in a join')
        if s.namespace != q.project_name(mi):
            rec('apply-target', 'namespace', mfeat, f'namespace {s.namespace!r}, expected {q.project_name(mi)!r}')
        want = {1} if model_first else {j for j in range(len(items)) if j < mi}      # model first: 2 items, swapped
        got = leaves(s.dataframe)
        if len(want) >= 2:
            classes.append('judged:input-is-a-join')
        if got != want:
            rec('apply-input', 'dataframe', mfeat + (['order:model-first'] if model_first else []),
                f'input of model item {mi} is {s.dataframe} = items {sorted(map(str, got))}, expected items {sorted(want)}')
        # (2) row_dict
        exp_rd, open_rd = {}, {}
        for a, c in w_atoms:
            lab = labels[a['id']]
            if lab in ('marg', 'mrev', 'mtarget2') and c == 'top' and arg_of(a)[0]['of'] == mi:
                o, k = arg_of(a)
                if (mi, o['col']) in dup_cols:
                    continue
                if lab == 'mtarget2':
                    open_rd[o['col']] = k['const']
                else:
                    exp_rd[o['col']] = k['const']
        # ... and of the model's ON clause: demanded for an inner join (there ON and WHERE say the same); with LEFT JOIN
        #     either reading is accepted (argument, or condition of the match), but consistently (join condition below)
        jt_own = (items[own_join(mi)].get('join') or 'JOIN').upper()
        on_src = set()
        for aid, (m_, cname, cval, lab) in sorted(on_args.items()):
            if m_ != mi:
                continue
            if jt_own in ('JOIN', 'INNER JOIN') and lab != 'mtarget2':
                exp_rd[cname] = cval
                on_src.add(cname)
                classes.append('judged:on-argument')
            else:
                open_rd[cname] = cval
        got_rd = dict(s.row_dict or {})
        if exp_rd:
            classes.append('judged:row_dict-non-empty')
        for k2 in sorted(set(got_rd) | set(exp_rd), key=str):
            if (mi, k2) in dup_cols and k2 not in got_rd:
                continue
            if k2 in open_rd and k2 in got_rd and typed(open_rd)[k2] == typed(got_rd)[k2]:
                continue
            if (mi, k2) in dup_cols:
                # one of the values at most; the conjuncts whose value is not passed have to go on filtering (below)
                if c_abs(got_rd[k2]) not in dup_cols[(mi, k2)]:
                    rec('row-dict', 'value', ['where:duplicate-argument'], f'row_dict[{k2!r}] = {got_rd[k2]!r} is none of the '
                                                                           f'values of the query')
                continue
            if k2 not in exp_rd:
                org = [(a, c) for a, c in w_atoms if any('col' in o and o['col'] == k2 for o in a['args'])]
                feats = sorted({'atom:' + labels[a['id']] for a, _ in org} | {'ctx:' + c for _, c in org})
                org = [(a, c) for j2 in sorted(on_atoms) for a, c in on_atoms[j2]
                       if any('col' in o and o['col'] == k2 for o in a['args'])]
                feats += sorted({'clause:on'} | {'atom:' + classify(a, q) for a, _ in org} | {'ctx:' + c for _, c in org}) if org else []
                feats = feats or ['atom:none']
                rec('row-dict', 'extra', feats, f'row_dict of {it["name"]} has {k2!r}: {got_rd[k2]!r} which is no '
                                               f'top-level `model.col = constant` conjunct of WHERE (expected {exp_rd})')
            elif k2 not in got_rd:
                src = sorted({'atom:' + labels[a['id']] for a, c in w_atoms if labels[a['id']] in ('marg', 'mrev') and c == 'top'
                              and arg_of(a)[0]['of'] == mi and arg_of(a)[0]['col'] == k2})
                if k2 in on_src:
                    src = ['clause:on', 'join:' + jt_own] + sorted({'atom:' + lab for _, (m_, cn, _, lab) in on_args.items()
                                                                    if m_ == mi and cn == k2})
                rec('row-dict', 'missing', ['where:non-conjunctive' if nonconj else 'where:conjunction'] + src,
                    f'row_dict of {it["name"]} lacks {k2!r} (expected {exp_rd}, got {got_rd})')
            elif typed(exp_rd)[k2] != typed(got_rd)[k2]:
                rec('row-dict', 'value', [], f'row_dict[{k2!r}] = {got_rd[k2]!r}, expected {exp_rd[k2]!r}')
        # (4) params / partition
        e_prm, e_ps, ps_key = exp_params[mi]
        if e_prm:
            classes.append('judged:params-non-empty')
        if e_ps is not None:
            classes.append('judged:partition')
        if (e_prm is None) != (s.params is None) or (e_prm is not None and typed(e_prm) != typed(s.params)):
            gp = s.params or {}
            ep = e_prm or {}
            miss = sorted(set(ep) - set(gp))
            extra = sorted(set(gp) - set(ep))
            site = 'missing' if miss else ('extra' if extra else 'value')
            feats = list(mfeat)
            for k, _ in (q.using or []):
                tgt, name, tag = key_target(k)
                if tgt in ('all', mi) and name.lower() in miss:
                    feats.append(tag)
                if tgt not in ('all', mi) and name.lower() in extra:
                    feats.append('key:foreign-prefix')
                if name in extra and name != name.lower():
                    feats.append('key:case-kept')
                if name.lower() in extra and name.lower() == 'partition_size':
                    feats.append('key:partition_size-kept')
            rec('params', site, feats, f'params of {it["name"]} = {s.params!r}, expected {e_prm!r} (USING {q.using})')
        par = inside.get(id(s))
        if e_ps is not None:
            if par is None:
                pf = [key_target(ps_key)[2]]
                rec('partition', 'not-partitioned', mfeat + pf, f'partition_size={e_ps!r} but the apply step is not inside a '
                                                           f'MapReduceStep')
            elif par[1] == 0 and (typed({'p': par[0].partition}) != typed({'p': e_ps}) or par[0].values != s.dataframe):
                rec('partition', 'wrong-partition', mfeat, f'MapReduceStep(values={par[0].values}, partition='
                                                           f'{par[0].partition!r}), expected values={s.dataframe}, {e_ps!r}')
        elif par is not None and not any_partition:
            rec('partition', 'unexpected', mfeat, 'apply step inside a MapReduceStep without partition_size')
        # (5) columns_map
        exp_cm = {}
        own_on = on_atoms[own_join(mi)]          # model first: the condition is written at the table
        if model_first and items[1].get('on') is not None:
            classes.append('on:model-first')
        got_cm = {k: ast_abs(v, q.resolve_out) for k, v in (s.columns_map or {}).items()}
        for (m_, cname), grp in sorted(map_groups.items()):
            if m_ != mi:
                continue
            vals = [x for _, x in grp]
            if (m_, cname) in dup_maps and got_cm.get(cname) in vals:
                exp_cm[cname] = got_cm[cname]          # two columns for one model column: one of them (the other one stays a condition)
            else:
                exp_cm[cname] = vals[-1]
            same = [aid for aid, x in grp if got_cm.get(cname) == x]
            for aid, x in grp:
                # the same mapping written twice: one of them is the mapping, a further one may stay a (redundant) condition
                on_consumed[aid] = (got_cm.get(cname) == x) if len(same) < 2 else (None if aid in same else False)
            if len(same) >= 2:
                on_one_of.append(same)
        for aid, (m_, cname, cval, lab) in on_args.items():
            if m_ == mi:
                on_consumed[aid] = cname in got_rd and typed({cname: cval}) == typed({cname: got_rd[cname]})
        if exp_cm:
            classes.append('judged:columns_map-non-empty')
        if got_cm != exp_cm:
            feats = set()
            for k2 in set(got_cm) | set(exp_cm):
                if got_cm.get(k2) == exp_cm.get(k2):
                    continue
                org = [(a, c) for a, c in own_on
                       if any('col' in o and o['col'] in (k2, (got_cm.get(k2) or ('', '', ''))[2]) for o in a['args'])]
                for a, c in org:
                    feats.add('ctx:' + c)
                    feats.add('op:' + ('eq' if a['op'] == '=' else 'non-eq'))
                feats.add('map:extra' if k2 not in exp_cm else ('map:missing' if k2 not in got_cm else 'map:value'))
                if (mi, k2) in dup_maps:
                    feats.add('on:duplicate-mapping')
            if model_first:
                feats.add('order:model-first')
            rec('columns-map', 'mapping', sorted(feats), f'columns_map of {it["name"]} = {got_cm}, expected {exp_cm}')

    # ---- (5, 2) what is left of the ON clauses: a conjunct that became a mapping / an argument is no condition any more,
    #      every other one still is
    join_steps = [s for s, _ in steps if type(s).__name__ == 'JoinStep']
    for j in range(1, len(items)):
        on = items[j].get('on')
        if on is None:
            continue
        cand = [s for s in join_steps if model_first or leaves(s.right) == {j}]
        if len(cand) != 1:
            continue
        classes.append('judged:join-condition')
        got_at = {}
        cond = cand[0].query.condition
        jfeat = ['join:' + (items[j].get('join') or 'JOIN').upper(), 'on:model' if (model_first or items[j]['k'] == 'model') else 'on:data']
        if not match(tree_abs(on, lambda a: ('ATOM', a['id'])), ast_abs(cond, q.resolve_out), got_at):
            rec('join-condition', 'skeleton', jfeat, f'boolean structure of the ON clause of {q.item_text(j)} changed: '
                                                     f'{cond.to_string() if cond is not None else None}')
            continue
        for a, c in on_atoms[j]:
            g = got_at.get(a['id'])
            feats = jfeat + ['ctx:' + c]
            mkey = [k_ for k_, grp in sorted(map_groups.items()) if any(aid == a['id'] for aid, _ in grp)]
            if mkey:
                feats.append('atom:mapping')
                if mkey[0] in dup_maps:
                    feats.append('on:duplicate-mapping')
            if a['id'] in on_args:
                feats += ['atom:' + on_args[a['id']][3], 'clause:on']
            if on_consumed.get(a['id'], False) is None:
                if g != NEUTRAL and g != atom_abs(a):
                    rec('join-condition', 'changed', feats, f'`{q.atom_text(a)}` became {g}: {cond.to_string()}')
            elif on_consumed.get(a['id']):
                if g != NEUTRAL:
                    rec('join-condition', 'not-neutralised', feats, f'`{q.atom_text(a)}` became a column mapping / an argument '
                        f'of the model and is still a join condition: {cond.to_string()}')
            elif g != atom_abs(a):
                site = 'neutralised' if (isinstance(g, tuple) and len(g) == 4 and g[2] == c_abs(0) and g[3] == c_abs(0)) else 'changed'
                rec('join-condition', site, feats, f'`{q.atom_text(a)}` ({c}) of the ON clause of {q.item_text(j)} is neither '
                    f'mapped nor passed to the model but became {g}: {cond.to_string()}')
        for grp in on_one_of:
            if all(aid in got_at for aid in grp) and not any(got_at[aid] == NEUTRAL for aid in grp):
                rec('join-condition', 'not-neutralised', jfeat + ['atom:mapping'], f'the mapping written {len(grp)} times is '
                    f'still a join condition: {cond.to_string()}')

    # ---- (2) the outer filter
    last = plan.steps[-1]
    outer = last.query.where if type(last).__name__ == 'QueryStep' and last.query is not None else None
    if q.where is not None:
        if type(last).__name__ != 'QueryStep':
            rec('outer-filter', 'no-query-step', [], 'the query has a WHERE clause but the plan does not end in a QueryStep')
        else:
            got_at = {}
            skel = tree_abs(q.where, lambda a: ('ATOM', a['id']))
            if not match(skel, ast_abs(outer, q.resolve_out), got_at):
                rec('outer-filter', 'skeleton', [], f'boolean structure of the outer WHERE changed: '
                                                    f'{outer.to_string() if outer is not None else None}')
            else:
                applied = {mi: dict(step_of[mi].row_dict or {}) for mi in models if mi in step_of}
                for a, c in w_atoms:
                    lab, g = labels[a['id']], got_at.get(a['id'])
                    feats = ['atom:' + lab, 'ctx:' + c]
                    if lab in ('marg', 'mrev', 'mtarget2') and c == 'top':
                        o, k = arg_of(a)
                        passed = o['col'] in applied.get(o['of'], {}) and c_abs(applied[o['of']][o['col']]) == c_abs(k['const'])
                        if (o['of'], o['col']) in dup_cols:
                            feats.append('where:duplicate-argument')
                            want_neutral = passed          # only the value that is passed to the model stops filtering
                        elif lab == 'mtarget2':
                            want_neutral = passed          # open: either, but consistently
                        else:
                            want_neutral = True
                    else:
                        want_neutral = False
                    if want_neutral:
                        if g != NEUTRAL:
                            rec('outer-filter', 'not-neutralised', feats, f'model argument `{q.atom_text(a)}` still '
                                f'filters the outer result: {outer.to_string()}')
                    elif g != atom_abs(a):
                        site = 'neutralised' if (isinstance(g, tuple) and len(g) == 4 and g[2] == c_abs(0) and g[3] == c_abs(0)) \
                            else 'changed'
                        rec('outer-filter', site, feats, f'`{q.atom_text(a)}` ({lab}, {c}) became {g} in the outer WHERE: '
                                                         f'{outer.to_string()}')

    # ---- (3) what is pushed into the fetches / sub-select wrappers
    for idx, s in sorted(step_of.items()):
        it = items[idx]
        if it['k'] == 'model':
            continue
        tfeat = 'target:' + ('subselect' if it['k'] == 'sub' else 'table')
        for cj in conjuncts(s.query.where):
            jt_feat = []
            # the generated restriction `col IN :values-of-the-other-table`
            if isinstance(cj, ast.BinaryOperation) and str(cj.op).lower() == 'in' and isinstance(cj.args[1], ast.Parameter) \
                    and isinstance(cj.args[1].value, Result) and isinstance(cj.args[0], ast.Identifier):
                src = by_num.get(str(cj.args[1].value.step_num))
                ok_src = (src is not None and type(src).__name__ == 'SubSelectStep' and src.table_name is None
                          and src.query.distinct and len(src.query.targets) == 1
                          and isinstance(src.query.targets[0], ast.Identifier) and src.query.where is None)
                other = leaves(src.dataframe) if ok_src else {'?'}
                col1, col2 = cj.args[0].parts[-1], (src.query.targets[0].parts[-1] if ok_src else None)
                hit = None
                for a, c in on_atoms[idx]:
                    if a['op'] == '=' and len(a['args']) == 2 and all('col' in o for o in a['args']):
                        pair = {(o['of'], o['col']) for o in a['args']}
                        if len(other) == 1 and pair == {(idx, col1), (next(iter(other)), col2)}:
                            hit = (a, c)
                jt = (it.get('join') or 'JOIN').upper().replace(',', 'INNER JOIN')
                classes.append('judged:pushed-semijoin')
                if hit is None:
                    rec('semijoin-filter', 'unknown-origin', [tfeat], f'`{cj.to_string()}` in the fetch of '
                        f'{q.item_text(idx)} corresponds to no ON equality between it and an earlier table')
                elif hit[1] != 'top' or jt not in ('JOIN', 'INNER JOIN', 'LEFT JOIN'):
                    rec('semijoin-filter', 'on', [tfeat, 'ctx:' + hit[1], 'join:' + jt],
                        f'`{cj.to_string()}` in the fetch of {q.item_text(idx)} comes from `{q.atom_text(hit[0])}` which is '
                        f'{hit[1]} in the ON clause')
                continue
            r = registry.get(erase(ast_abs(cj, q.resolve_out)))
            if r is None:
                rec('fetch-filter', 'unknown-origin', [tfeat], f'`{cj.to_string()}` in the fetch of {q.item_text(idx)} is no '
                                                               f'condition of the query')
                continue
            clause, a, c, role = r
            classes.append('judged:pushed-from-' + (clause if clause == 'where' else 'on'))
            where_lab = classify(a, q)
            feats = [tfeat, 'atom:' + where_lab, 'ctx:' + (c if role == 'atom' else 'inside-atom')]
            if a['op'] in ('between', 'in'):
                feats.append('op:' + a['op'])
            only_this = atom_items(a) == {idx}
            if clause == 'where':
                if not (role == 'atom' and c == 'top' and only_this):
                    rec('fetch-filter', 'where', feats + ([] if only_this else ['other-item']),
                        f'`{cj.to_string()}` pushed into the fetch of {q.item_text(idx)} comes from `{q.atom_text(a)}` '
                        f'({where_lab}, {c if role == "atom" else "inside the atom"}) of WHERE')
            else:
                j = clause[1]
                jt = (items[j].get('join') or 'JOIN').upper().replace(',', 'INNER JOIN')
                ok = role == 'atom' and c == 'top' and only_this and (
                    (jt in ('JOIN', 'INNER JOIN')) or (jt == 'LEFT JOIN' and j == idx))
                if not ok:
                    rec('fetch-filter', 'on', feats + ['join:' + jt] + ([] if only_this else ['other-item']),
                        f'`{cj.to_string()}` pushed into the fetch of {q.item_text(idx)} comes from `{q.atom_text(a)}` '
                        f'({c}) of the ON clause of {jt} {q.item_text(j)}')
    if q.where is not None:
        classes.append('judged:outer-filter')
    if not out:
        classes.append('clean')
        if nontrivial:
            classes.append('clean-nontrivial')
    return done(out)


def plan_text(plan):
    def one(s):
        n = type(s).__name__
        if n == 'MapReduceStep':
            subs = s.step if isinstance(s.step, list) else [s.step]
            return f'{s.step_num}:MapReduce(values={s.values}, partition={s.partition!r}, [' + '; '.join(map(one, subs)) + '])'
        if n in ('FetchDataframeStep',):
            return f'{s.step_num}:Fetch({s.integration}: {s.query.to_string() if s.query is not None else s.raw_query})'
        if n == 'SubSelectStep':
            return f'{s.step_num}:SubSelect({s.query.to_string()} <- {s.dataframe}, name={s.table_name})'
        if n == 'ApplyPredictorStep':
            cm = {k: v.to_string() for k, v in (s.columns_map or {}).items()} if s.columns_map is not None else None
            return (f'{s.step_num}:Apply({s.namespace}.{s.predictor.to_string()} <- {s.dataframe}, row_dict={s.row_dict!r}, '
                    f'params={s.params!r}, columns_map={cm})')
        if n == 'JoinStep':
            return f'{s.step_num}:Join({s.left}, {s.right}: {s.query.to_string()})'
        if n == 'QueryStep':
            return f'{s.step_num}:Query({s.query.to_string()} <- {s.from_table})'
        return f'{s.step_num}:{n}'
    try:
        return ' / '.join(one(s) for s in plan.steps)[:1500]
    except Exception as e:          # printing is best effort
        return f'(plan not printable: {e!r})'


# ------------------------------------------------------------------------------------------------ the generator

@st.composite
def cases(draw):
    pick = lambda seq: draw(st.sampled_from(list(seq)))
    chance = lambda num, den: draw(st.integers(0, den - 1)) < num
    cat = pick(CATALOGS)
    aliased = not chance(1, 3)
    n_data = pick([1, 1, 2, 2, 3])
    n_models = pick([1, 1, 1, 2])
    # order of kinds
    kinds = ['data'] * n_data
    for _ in range(n_models):
        pos = len(kinds) if chance(3, 4) else draw(st.integers(1, len(kinds)))
        kinds.insert(pos, 'model')
    if n_data == 1 and n_models == 1 and chance(1, 6):
        kinds = ['model', 'data']
    comma = chance(1, 10)
    items = []
    t_names = draw(st.permutations(sorted(TABLES)))
    pool = [m for m in sorted(MODELS) if MODELS[m] != []] + (['pred4'] if chance(1, 3) else [])          # [] : rarer
    m_names = draw(st.permutations(pool)) if not aliased else [pick(pool) for _ in range(2)]
    d_alias = iter(['t', 'u', 'v'])
    m_alias = iter(['m', 'n'])
    nd = nm = 0
    for k in kinds:
        if k == 'data':
            name = t_names[nd] if not aliased else pick(sorted(TABLES))
            nd += 1
            it = {'k': 'table', 'name': name, 'qualified': True}
            if aliased and chance(1, 5):
                it = {'k': 'sub', 'name': name, 'inner_where': chance(1, 2)}
            elif cat == 'default-int1' and TABLES[name] == 'int1' and chance(1, 2):
                it['qualified'] = False
            if aliased:
                it['alias'] = next(d_alias)
        else:
            name = m_names[nm]
            nm += 1
            it = {'k': 'model', 'name': name, 'qualified': not (cat == 'default-proj' and chance(1, 2))}
            if aliased:
                it['alias'] = next(m_alias)
                if chance(1, 6):
                    it['version'] = pick([1, 3, 12])
        if aliased and chance(1, 6):
            it['alias'] = it['alias'].upper()
        items.append(it)

    tabs = [it for it in items if it['k'] == 'table']
    mods = [it for it in items if it['k'] == 'model']
    # the second project: a model of it; with two models rather often the model of the same name (other to_predict)
    if len(mods) == 2 and chance(1, 3):
        mods[1]['name'] = mods[0]['name']
        other = pick(mods)
        other['project'], other['qualified'] = 2, True
        if not aliased:
            mods[0]['qualified'] = mods[1]['qualified'] = True          # only the project tells them apart
    else:
        for it in mods:
            if chance(1, 8):
                it['project'], it['qualified'] = 2, True
    if not aliased and chance(1, 3):
        # un-aliased items whose names share a suffix (only a longer name tells them apart) / un-aliased versions
        variant = pick(['table-like-model', 'same-table-name', 'same-version', 'version'])
        saved = copy.deepcopy(items)
        if variant == 'table-like-model' and tabs:
            t = pick(tabs)
            t['tname'], t['qualified'] = pick(mods)['name'], True
        elif variant == 'same-table-name' and len(tabs) >= 2:
            a, b = tabs[0], tabs[1]
            other = [n for n in sorted(TABLES) if TABLES[n] != TABLES[a['name']] and all(n != x['name'] for x in tabs)]
            if other:
                b['name'] = pick(other)
                b['tname'], a['qualified'], b['qualified'] = a['name'], True, True
        elif variant == 'same-version' and len(mods) == 2:
            mods[0]['version'] = mods[1]['version'] = pick([1, 3, 12])
        else:
            pick(mods)['version'] = pick([1, 3, 12])
        if Q({'catalog': cat, 'items': items}).problem():
            items[:] = saved
    elif aliased and tabs and chance(1, 10):
        # a table in a schema of the data integration that is named like the project, the table like a model
        t = pick(tabs)
        t['schema'], t['tname'], t['qualified'] = project_of(cat), pick(sorted(MODELS)), True
    names = Q({'catalog': cat, 'items': items})

    ids = iter(range(1, 100))

    def const(i, kinds_=('int', 'int', 'str')):
        k = pick(kinds_)
        return {'int': 100 + i, 'str': f's{i}', 'null': None, 'bool': True, 'float': i + 0.5, 'neg': -i}[k]

    data_idx = [i for i, it in enumerate(items) if it['k'] != 'model']
    model_idx = [i for i, it in enumerate(items) if it['k'] == 'model']

    def atom(kind, scope_d, scope_m, right=None):
        """scope_d / scope_m: data / model items that may be referenced."""
        i = next(ids)
        c = lambda of, nm_=None: {'col': nm_ or pick([f'c{i}', f'c{i}', f'C{i}']), 'of': of, 'q': draw(st.integers(0, 2))}
        d = lambda of: {'col': f'd{i}', 'of': of, 'q': draw(st.integers(0, 2))}
        if kind == 'marg':
            return {'id': i, 'op': '=', 'args': [c(pick(scope_m)), {'const': const(i, ('int', 'int', 'str', 'str', 'null', 'bool', 'float', 'neg'))}]}
        if kind == 'mtarget':
            cands = [m for m in scope_m if names.to_predict(m)]
            if not cands:
                return atom('marg', scope_d, scope_m)
            m = pick(cands)
            tg = names.to_predict(m)
            tg = list(tg) if isinstance(tg, list) else [tg]
            return {'id': i, 'op': '=', 'args': [c(m, pick([tg[0].lower(), tg[0].upper()] + tg[1:] * 2)), {'const': const(i)}]}
        if kind == 'myz':
            # a column that is the target of some model of the catalog: of this one, of the other project's, of neither
            a = [c(pick(scope_m), pick(['y', 'z', 'Y', 'Z'])), {'const': const(i)}]
            if chance(1, 5):
                a.reverse()
            return {'id': i, 'op': '=', 'args': a}
        if kind == 'mrev':
            return {'id': i, 'op': '=', 'args': [{'const': const(i)}, c(pick(scope_m))]}
        if kind in ('mcmp', 'tconst'):
            of = pick(scope_m if kind == 'mcmp' else ([right] if right is not None else scope_d))
            op = pick(['>', '<', '!=', '>=', '<=', 'like', 'between', 'in', 'is', 'is not'] + (['=', '=', '='] if kind == 'tconst' else []))
            if op == 'between':
                return {'id': i, 'op': op, 'args': [c(of), {'const': 100 + i}, {'const': 1100 + i}]}
            if op == 'in':
                return {'id': i, 'op': op, 'args': [c(of), {'tuple': [100 + i, 1100 + i]}]}
            if op in ('is', 'is not'):
                return {'id': i, 'op': op, 'args': [c(of), {'const': None}]}
            if op == 'like':
                return {'id': i, 'op': op, 'args': [c(of), {'const': f's{i}%'}]}
            return {'id': i, 'op': op, 'args': [c(of), {'const': const(i)}]}
        if kind == 'trev':
            return {'id': i, 'op': pick(CMP), 'args': [{'const': const(i)}, c(pick(scope_d))]}
        if kind in ('between-x', 'in-x'):
            # col BETWEEN <bound> AND <bound> / col IN (<element>, ...) where not every other operand is a constant
            of = pick(scope_d * 3 + scope_m)

            def bound(nm_):
                sh = pick(['own', 'other', 'other', 'model', 'model', 'arith', 'fn', 'bare'])
                others = [x for x in scope_d if x != of] or scope_m
                if sh == 'own':
                    return {'col': nm_, 'of': of, 'q': draw(st.integers(0, 2))}
                if sh == 'other':
                    return {'col': nm_, 'of': pick(others), 'q': draw(st.integers(0, 2))}
                if sh == 'model':
                    return {'col': nm_, 'of': pick(scope_m), 'q': draw(st.integers(0, 2))}
                if sh == 'arith':
                    return {'arith': pick(['+', '-']), 'x': {'col': nm_, 'of': pick([of] + others), 'q': 0}, 'y': {'const': i}}
                if sh == 'fn':
                    return {'fn': 'abs', 'x': {'col': nm_, 'of': pick([of] + others), 'q': 0}}
                return {'fn': 'abs', 'x': {'const': -i}}          # a constant expression, not a Constant
            k1, k2 = {'const': 100 + i}, {'const': 1100 + i}
            if kind == 'in-x':
                return {'id': i, 'op': 'in', 'args': [c(of), {'list': draw(st.permutations([k1, bound(f'd{i}')]))}]}
            form = pick(['hi', 'hi', 'lo', 'both'])
            return {'id': i, 'op': 'between', 'args': [c(of), bound(f'd{i}') if form != 'hi' else k1,
                                                       bound(f'e{i}') if form != 'lo' else k2]}
        if kind == 'ttcol':
            return {'id': i, 'op': pick(CMP), 'args': [c(pick(scope_d)), d(pick(scope_d))]}
        if kind == 'mtcol':
            a = [c(pick(scope_m)), d(pick(scope_d))]
            if chance(1, 2):
                a.reverse()
            return {'id': i, 'op': pick(CMP), 'args': a}
        if kind == 'fcol':
            of = pick(scope_m + scope_d)
            return {'id': i, 'op': '=', 'args': [{'fn': pick(['upper', 'abs']), 'x': c(of)}, {'const': const(i)}]}
        if kind == 'arith':
            of = pick(scope_m + scope_d)
            return {'id': i, 'op': pick(['>', '=']), 'args': [{'arith': pick(['+', '-', '*']), 'x': c(of), 'y': {'const': i}},
                                                              {'const': const(i, ('int',))}]}
        raise ValueError(kind)

    def combine(leaves_, wild, neg=True):
        """Random boolean tree over the given atoms; at most one negating node on any path."""
        if len(leaves_) == 1:
            t = leaves_[0]
            if wild and neg and chance(1, 4):
                t = pick([{'not': t}, {'not': t}, {'wrap': 'func', 'x': t}, {'wrap': 'case', 'x': t}])
            elif chance(1, 12):
                t = {'par': t}
            return t
        k = draw(st.integers(1, len(leaves_) - 1))
        op = 'or' if wild and chance(1, 3) else 'and'
        negate = wild and neg and chance(1, 8)
        sub = neg and not negate
        t = {op: [combine(leaves_[:k], wild, sub), combine(leaves_[k:], wild, sub)]}
        if negate:
            t = pick([{'not': t}, {'not': t}, {'wrap': 'func', 'x': t}])
        elif chance(1, 8):
            t = {'par': t}
        return t

    def model_on_extras(ats, m, others):
        """More conjuncts for the ON clause a model sees: a second column for one model column, constants for the model."""
        maps = [a for a in ats if a['op'] == '=' and all('col' in o for o in a['args']) and any(o['of'] == m for o in a['args'])]
        if maps and chance(1, 6):
            src, i = pick(maps), next(ids)
            mcol = [o for o in src['args'] if o['of'] == m][0]
            a = [dict(mcol, q=draw(st.integers(0, 2))), {'col': f'k{i}', 'of': pick(others), 'q': draw(st.integers(0, 2))}]
            if chance(1, 2):
                a.reverse()
            ats.insert(draw(st.integers(0, len(ats))), {'id': i, 'op': '=', 'args': a})
        if chance(1, 3):
            for _ in range(pick([1, 1, 2])):
                i = next(ids)
                form = pick(['marg', 'marg', 'marg', 'mrev', 'mtarget', 'mcmp'])
                tg = names.targets_of(m)
                mc = {'col': pick([f'a{i}', f'A{i}']) if form != 'mtarget' or not tg else pick(tg), 'of': m, 'q': draw(st.integers(0, 2))}
                a = [mc, {'const': const(i, ('int', 'int', 'str', 'null', 'float'))}]
                if form == 'mrev':
                    a.reverse()
                ats.insert(draw(st.integers(0, len(ats))), {'id': i, 'op': pick(['>', '!=', '<']) if form == 'mcmp' else '=', 'args': a})

    # ON clauses
    for j in range(1, len(items)):
        it = items[j]
        it['join'] = ',' if comma else pick(['JOIN', 'JOIN', 'INNER JOIN', 'LEFT JOIN'])
        if comma or chance(1, 2):
            continue
        before_d = [i for i in data_idx if i < j]
        before_m = [i for i in model_idx if i < j]
        ats = []
        if j == 1 and items[0]['k'] == 'model':
            # model JOIN table ON model.col = table.col [AND table.col = const]
            for _ in range(pick([1, 1, 2])):
                i = next(ids)
                a = [{'col': pick([f'x{i}', f'X{i}']), 'of': 0, 'q': draw(st.integers(0, 2))},
                     {'col': f'k{i}', 'of': 1, 'q': draw(st.integers(0, 2))}]
                if chance(1, 2):
                    a.reverse()
                ats.append({'id': i, 'op': '=' if not chance(1, 12) else pick(['>', '<', '!=']), 'args': a})
            if chance(1, 3):
                i = next(ids)
                ats.append({'id': i, 'op': '=', 'args': [{'col': f'g{i}', 'of': 1, 'q': draw(st.integers(0, 2))}, {'const': const(i)}]})
            model_on_extras(ats, 0, [1])
            it['on'] = combine(ats, chance(1, 6))
            continue
        if it['k'] == 'model':
            if not before_d:
                continue
            for _ in range(pick([1, 1, 2, 3])):
                i = next(ids)
                a = [{'col': pick([f'x{i}', f'X{i}']), 'of': j, 'q': draw(st.integers(0, 2))},
                     {'col': f'k{i}', 'of': pick(before_d + before_m), 'q': draw(st.integers(0, 2))}]
                if chance(1, 2):
                    a.reverse()
                ats.append({'id': i, 'op': '=' if not chance(1, 12) else pick(['>', '<', '!=']), 'args': a})
            if len(before_d) >= 2 and chance(1, 4):
                ats.append(atom('ttcol', before_d, []))
            model_on_extras(ats, j, before_d + before_m)
            it['on'] = combine(ats, chance(1, 6))
        else:
            if not before_d:
                continue
            for _ in range(pick([1, 1, 2, 3])):
                kind = pick(['tteq', 'tteq', 'tconst-right', 'tconst-right', 'tconst-left', 'ttcmp'])
                i = next(ids)
                if kind in ('tteq', 'ttcmp'):
                    a = [{'col': f'k{i}', 'of': pick(before_d), 'q': draw(st.integers(0, 2))},
                         {'col': f'f{i}', 'of': j, 'q': draw(st.integers(0, 2))}]
                    if chance(1, 2):
                        a.reverse()
                    ats.append({'id': i, 'op': '=' if kind == 'tteq' else pick(['>', '<', '!=']), 'args': a})
                else:
                    of = j if kind == 'tconst-right' else pick(before_d)
                    a = [{'col': f'g{i}', 'of': of, 'q': draw(st.integers(0, 2))}, {'const': const(i)}]
                    if chance(1, 6):
                        a.reverse()
                    ats.append({'id': i, 'op': pick(['=', '=', '=', '>', '!=']), 'args': a})
            it['on'] = combine(ats, chance(1, 4))

    # WHERE
    where = None
    n_atoms = pick([0, 1, 2, 2, 3, 3, 4, 5])
    if n_atoms:
        kinds_w = ['marg'] * 5 + ['mtarget', 'myz', 'mrev', 'mcmp', 'mtcol', 'fcol', 'arith'] + ['tconst'] * 4 + ['trev', 'ttcol', 'between-x', 'between-x', 'in-x']
        if names.twins():
            kinds_w += ['myz'] * 6
        ats = [atom(pick(kinds_w), data_idx, model_idx) for _ in range(n_atoms)]
        margs = [a for a in ats if a['op'] == '=' and len(a['args']) == 2 and 'const' in a['args'][1]
                 and 'col' in a['args'][0] and a['args'][0]['of'] in model_idx and a['args'][0]['col'].lower() not in ('y', 'z')]
        if margs and chance(1, 6):
            # a second value for the same argument
            src, i = pick(margs), next(ids)
            a = [dict(src['args'][0], q=draw(st.integers(0, 2))), {'const': 100 + i}]
            if chance(1, 3):
                a.reverse()
            ats.insert(draw(st.integers(0, len(ats))), {'id': i, 'op': '=', 'args': a})
        where = combine(ats, chance(2, 5))

    # USING
    using = None
    if chance(3, 5):
        using = []
        for n in range(pick([1, 1, 2, 3, 4])):
            name = pick([f'opt{n}', f'Opt{n}', f'OPT{n}', f'opt{n}']) if not chance(1, 5) else \
                pick(['partition_size', 'partition_size', 'PARTITION_SIZE'])
            if name.lower() != 'partition_size' and chance(1, 5):
                name = f'sec{n}.' + name          # an option whose own name contains a dot (engine.temperature)
            if any(k.lower().split('.')[-1] == name.lower().split('.')[-1] for k, _ in using):
                continue
            if chance(2, 5):
                of = pick(model_idx * 3 + data_idx)
                name = pick(names.qualifiers(of)) + '.' + name          # alias; else any name that is unique in the query
            v = pick([5, 10, 1000]) if name.lower().endswith('partition_size') else pick([n + 1, f'v{n}', 0, 'x'])
            using.append([name, v])
        if not using:
            using = None
    return {'catalog': cat, 'items': items, 'where': where, 'using': using, 'as_kw': chance(1, 2),
            'targets': pick(['*', '*', '*', 'count(*)'])}


EX_KINDS = ('marg', 'mtarget', 'mrev', 'mcmp', 'tconst', 'trev', 'mtcol', 'fcol-m', 'fcol-t', 'arith-t')
EX_SKELETONS = ('a', 'a&b', 'a|b', '!a&b', 'a&!b', '!(a&b)', '!(a|b)', 'f(a)&b', 'c(a)&b', '(a|b)&a2')


def ex_atom(kind, i, d=0, m=1):
    c = lambda of, name=None: {'col': name or f'c{i}', 'of': of, 'q': 0}
    k = {'const': 100 + i}
    return {'marg': {'id': i, 'op': '=', 'args': [c(m), k]},
            'mtarget': {'id': i, 'op': '=', 'args': [c(m, 'y'), k]},
            'mrev': {'id': i, 'op': '=', 'args': [k, c(m)]},
            'mcmp': {'id': i, 'op': '>', 'args': [c(m), k]},
            'tconst': {'id': i, 'op': '=', 'args': [c(d), k]},
            'trev': {'id': i, 'op': '<', 'args': [k, c(d)]},
            'mtcol': {'id': i, 'op': '=', 'args': [c(m), {'col': f'd{i}', 'of': d, 'q': 0}]},
            'fcol-m': {'id': i, 'op': '=', 'args': [{'fn': 'upper', 'x': c(m)}, {'const': f's{i}'}]},
            'fcol-t': {'id': i, 'op': '=', 'args': [{'fn': 'abs', 'x': c(d)}, k]},
            'arith-t': {'id': i, 'op': '>', 'args': [{'arith': '+', 'x': c(d), 'y': {'const': i}}, k]}}[kind]


def exhaustive_cases():
    """Every WHERE tree of the listed skeletons over all pairs of atom kinds, for three FROM shapes."""
    froms = [[{'k': 'table', 'name': 't1', 'qualified': True, 'alias': 't'},
              {'k': 'model', 'name': 'pred', 'qualified': True, 'alias': 'm', 'join': 'JOIN'}],
             [{'k': 'table', 'name': 't1', 'qualified': True},
              {'k': 'model', 'name': 'pred', 'qualified': True, 'join': 'JOIN'}],
             [{'k': 'sub', 'name': 't1', 'inner_where': False, 'alias': 's'},
              {'k': 'model', 'name': 'pred', 'qualified': True, 'alias': 'm', 'join': 'LEFT JOIN'}]]
    for fi, fr in enumerate(froms):
        for sk in EX_SKELETONS:
            for ka in EX_KINDS:
                for kb in (EX_KINDS if 'b' in sk else (None,)):
                    a, b = ex_atom(ka, 1), (ex_atom(kb, 2) if kb else None)
                    w = {'a': a, 'a&b': {'and': [a, b]}, 'a|b': {'or': [a, b]}, '!a&b': {'and': [{'not': a}, b]},
                         'a&!b': {'and': [a, {'not': b}]}, '!(a&b)': {'not': {'and': [a, b]}},
                         '!(a|b)': {'not': {'or': [a, b]}}, 'f(a)&b': {'and': [{'wrap': 'func', 'x': a}, b]},
                         'c(a)&b': {'and': [{'wrap': 'case', 'x': a}, b]},
                         '(a|b)&a2': {'and': [{'or': [a, b]}, ex_atom(ka, 3)]}}[sk]
                    yield {'catalog': 'list', 'items': copy.deepcopy(fr), 'where': w, 'using': None, 'as_kw': False,
                           'targets': '*', 'origin': f'exhaustive:{fi}:{sk}'}


def exhaustive_extra():
    """Name collisions, model-first ON clauses, USING key forms, repeated arguments, to_predict shapes, schema tables."""
    T = lambda name, **kw: dict({'k': 'table', 'name': name, 'qualified': True}, **kw)
    S = lambda name, **kw: dict({'k': 'sub', 'name': name, 'inner_where': False}, **kw)
    M = lambda name, **kw: dict({'k': 'model', 'name': name, 'qualified': True}, **kw)
    col = lambda of, name, q=0: {'col': name, 'of': of, 'q': q}
    eq = lambda i, x, y: {'id': i, 'op': '=', 'args': [x, y]}
    k = lambda v: {'const': v}

    def conj(ats):
        t = ats[0]
        for a in ats[1:]:
            t = {'and': [t, a]}
        return t

    def case(origin, items, where=None, using=None, cat='list'):
        return {'catalog': cat, 'items': copy.deepcopy(items), 'where': where, 'using': using, 'as_kw': False,
                'targets': '*', 'origin': 'extra:' + origin}

    # (1) un-aliased items that share a name suffix: conditions / arguments / mappings of each item, both spellings
    shapes = {'table-like-model': [T('t1', tname='pred'), M('pred', join='JOIN')],
              'model-first': [M('pred'), T('t1', tname='pred', join='JOIN')],
              'same-table-name': [T('t1'), T('t3', tname='t1', join='JOIN'), M('pred', join='JOIN')],
              'same-version': [T('t1'), M('pred', version=3, join='JOIN'), M('pred2', version=3, join='LEFT JOIN')],
              'three': [T('t1', tname='pred2'), T('t3', tname='pred2', join='JOIN'), M('pred2', join='JOIN')],
              'version': [T('t1'), M('pred', version=1, join='JOIN')],
              'version-first': [M('pred2', version=12), T('t1', join='JOIN')],
              'version-and-table-like-model': [T('t1', tname='pred'), M('pred', version=1, join='JOIN')],
              'two-versions': [T('t1'), M('pred', version=1, join='JOIN'), M('pred', version=3, join='JOIN')],
              'two-projects': [T('t1'), M('pred', join='JOIN'), M('pred', project=2, join='JOIN')],
              'two-projects-one-version': [T('t1'), M('pred3', version=3, join='JOIN'), M('pred3', version=3, project=2, join='JOIN')]}
    for name, items in shapes.items():
        for cat in ('list', 'dicts'):
            for qq in range(3):
                ats = []
                for idx, it in enumerate(items):
                    ats.append(eq(idx + 1, col(idx, f'c{idx + 1}', qq), k(101 + idx)))
                for with_on in (False, True):
                    its = copy.deepcopy(items)
                    if with_on and name not in ('model-first', 'version-first'):
                        for idx, it in enumerate(its):
                            if idx and it['k'] == 'model':
                                it['on'] = eq(10 + idx, col(idx, f'x{idx}', qq), col(0, f'k{idx}', qq))
                            elif idx:
                                it['on'] = eq(10 + idx, col(0, f'k{idx}', qq), col(idx, f'f{idx}', qq))
                    elif with_on:
                        its[1]['on'] = eq(11, col(0, 'x1', qq), col(1, 'k1', qq))
                    yield case(f'names:{name}', its, conj(ats), None, cat)
                    for a in ats:
                        yield case(f'names:{name}', its, a, None, cat)
    # (2) model JOIN table ON ...
    for data in (T('t1', alias='t'), S('t1', alias='t'), T('t1')):
        m = M('pred', alias='m') if data.get('alias') else M('pred')
        for join in ('JOIN', 'LEFT JOIN', 'INNER JOIN'):
            for form in range(4):
                a = eq(1, col(0, 'x1'), col(1, 'k1'))
                b = eq(2, col(1, 'k2', 1), col(0, 'X2', 1))
                g = eq(3, col(1, 'g3'), k(5))
                on = [a, b, conj([a, b]), conj([g, a])][form]
                for where in (None, eq(4, col(1, 'c4'), k(104)), conj([eq(4, col(0, 'c4'), k(104)), eq(5, col(1, 'c5'), k(105))])):
                    yield case('model-first-on', [m, dict(data, join=join, on=on)], where)
    # (3) USING key forms
    for items in ([T('t1', alias='t'), M('pred', alias='m', join='JOIN')],
                  [T('t1', alias='t'), M('pred', alias='M', join='JOIN')],
                  [T('t1'), M('pred', join='JOIN')],
                  [T('t1', alias='t'), M('pred', alias='m', join='JOIN'), M('pred2', alias='n', join='JOIN')],
                  [T('t1'), M('pred', join='JOIN'), M('pred2', version=3, join='JOIN')]):
        qs = Q({'catalog': 'list', 'items': items})
        keys = ['opt', 'Opt', 'sec.opt', 'Sec.Opt', 'a.b.c', 'partition_size']
        for idx in range(len(items)):
            for pre in qs.qualifiers(idx):
                keys += [pre + '.opt', pre + '.sec.Opt', swapcase(pre) + '.opt'] + ([pre + '.partition_size'] if idx else [])
        for key in keys:
            yield case('using-key', items, None, [[key, 5]])
            yield case('using-key', items, None, [['first', 1], [key, 5], ['last', 'x']])
    # (4) two values for one argument
    for items in ([T('t1', alias='t'), M('pred', alias='m', join='JOIN')], [T('t1'), M('pred', join='JOIN')]):
        for form in range(4):
            a = eq(1, col(1, 'c1'), k(101))
            b = [eq(2, col(1, 'c1'), k(102)), eq(2, k(102), col(1, 'c1')), eq(2, col(1, 'c1', 1), k('s2')),
                 eq(2, col(1, 'C1'), k(102))][form]
            t = eq(3, col(0, 'c3'), k(103))
            for where in (conj([a, b]), conj([b, a]), conj([a, t, b]), conj([t, a, b]), {'and': [a, {'par': {'and': [t, b]}}]}):
                yield case('duplicate-argument', items, where)
    # (5) to_predict shapes x condition on the model
    for model in sorted(MODELS):
        for cname in ('y', 'Y', 'z', 'c1'):
            for form in range(3):
                a = [eq(1, col(1, cname), k(101)), eq(1, k(101), col(1, cname)),
                     {'id': 1, 'op': '>', 'args': [col(1, cname), k(101)]}][form]
                for cat in ('list', 'legacy'):
                    yield case('to_predict', [T('t1', alias='t'), M(model, alias='m', join='JOIN')],
                               conj([a, eq(2, col(0, 'c2'), k(102)), eq(3, col(1, 'c3'), k(103))]), None, cat)
    # (7) one model name in two projects (other targets): a condition on each, both orders
    for model in sorted(MODELS):
        for order in range(2):
            for al in (True, False):
                ms = [M(model, join='JOIN'), M(model, project=2, join='JOIN')]
                if order:
                    ms.reverse()
                its = [T('t1')] + ms
                if al:
                    for it, a in zip(its, 'tmn'):
                        it['alias'] = a
                for ca in ('c1', 'y', 'z'):
                    for cb in ('c2', 'y', 'Z'):
                        for cat in ('list', 'legacy', 'dicts'):
                            yield case('two-projects', its, conj([eq(1, col(1, ca), k(101)), eq(2, col(2, cb), k(102))]), None, cat)
                yield case('two-projects', its, conj([eq(1, k(101), col(2, 'y')), eq(2, col(0, 'c2'), k(102))]))
    # (8) comparisons of more than two operands / with a list: BETWEEN and IN whose other operands are not all constants
    def froms():
        yield 'table', [T('t1', alias='t'), M('pred', alias='m', join='JOIN')], (0,), None
        yield 'two-tables', [T('t1', alias='t'), T('t3', alias='u', join='JOIN', on=eq(20, col(0, 'k20'), col(1, 'f20'))),
                             M('pred', alias='m', join='JOIN')], (0, 1), None
        yield 'sub-select', [S('t1', alias='t'), M('pred', alias='m', join='LEFT JOIN')], (0,), None
        yield 'no-alias', [T('t1'), M('pred', join='JOIN')], (0,), None
        yield 'model-in-between', [T('t1', alias='t'), M('pred', alias='m', join='JOIN'), T('t3', alias='u', join='JOIN')], (0, 2), None

    def bounds(i, nm, own, other, m):
        yield 'const', k(100 + i)
        yield 'own', col(own, nm)
        if other is not None:
            yield 'other', col(other, nm)
        yield 'model', col(m, nm)
        yield 'arith', {'arith': '+', 'x': col(own, nm), 'y': k(i)}
        yield 'fn', {'fn': 'abs', 'x': col(other if other is not None else own, nm)}
        yield 'const-expr', {'fn': 'abs', 'x': k(i)}
    for fname, its, data, _ in froms():
        m = [i for i, it in enumerate(its) if it['k'] == 'model'][0]
        for own in data + (m,):
            other = ([d for d in data if d != own] or [None])[0] if own != m else data[0]
            for ln, lo in bounds(1, 'd1', own, other, m):
                for hn, hi in bounds(2, 'e1', own, other, m):
                    if ln == hn == 'const':
                        continue
                    b = {'id': 1, 'op': 'between', 'args': [col(own, 'c1'), lo, hi]}
                    yield case(f'between:{fname}', its, b)
                    yield case(f'between:{fname}', its, conj([eq(2, col(m, 'c2'), k(102)), b]))
                    yield case(f'between:{fname}', its, conj([b, {'or': [eq(3, col(data[0], 'c3'), k(103)), eq(4, col(m, 'c4'), k(104))]}]))
            for en, el in bounds(1, 'd1', own, other, m):
                if en == 'const':
                    continue
                for lst in ([k(100), el], [el, k(100)], [el, k(100), k(200)]):
                    b = {'id': 1, 'op': 'in', 'args': [col(own, 'c1'), {'list': lst}]}
                    yield case(f'in-list:{fname}', its, b)
                    yield case(f'in-list:{fname}', its, conj([b, eq(2, col(m, 'c2'), k(102))]))
    # (9) the ON clause of the model: two columns for one model column, constants for the model
    gt = lambda i, x, y: {'id': i, 'op': '>', 'args': [x, y]}
    for fname, its, mi, di, d2 in (('table', [T('t1', alias='t'), M('pred', alias='m')], 1, 0, None),
                                   ('two-tables', [T('t1', alias='t'), T('t3', alias='u', join='JOIN'), M('pred', alias='m')], 2, 0, 1),
                                   ('model-first', [M('pred', alias='m'), T('t1', alias='t')], 0, 1, None),
                                   ('no-alias', [T('t1'), M('pred5')], 1, 0, None)):
        j = len(its) - 1
        mp = eq(1, col(mi, 'x1'), col(di, 'k1'))
        ons = {'map': mp,
               'dup': conj([mp, eq(2, col(mi, 'x1', 1), col(di, 'k2'))]),
               'dup-reversed': conj([eq(2, col(di, 'k2'), col(mi, 'x1')), mp]),
               'dup-3': conj([mp, eq(2, col(mi, 'x1'), col(di, 'k2')), eq(3, col(di, 'k3'), col(mi, 'x1'))]),
               'case-variant': conj([mp, eq(2, col(mi, 'X1'), col(di, 'k2'))]),
               'same-twice': conj([mp, eq(2, col(di, 'k1'), col(mi, 'x1'))]),
               'const': eq(5, col(mi, 'a5'), k(105)),
               'const-reversed': eq(5, k('s5'), col(mi, 'a5')),
               'map-const': conj([mp, eq(5, col(mi, 'a5'), k(105))]),
               'const-map': conj([eq(5, col(mi, 'A5'), k(None)), mp]),
               'two-consts': conj([eq(5, col(mi, 'a5'), k(105)), mp, eq(6, k(106), col(mi, 'a6'))]),
               'target': conj([mp, eq(5, col(mi, 'y'), k(105))]),
               'second-target': conj([mp, eq(5, col(mi, 'z'), k(105))]),
               'non-eq': conj([mp, gt(5, col(mi, 'a5'), k(105))]),
               'under-or': conj([mp, {'or': [eq(5, col(mi, 'a5'), k(105)), eq(6, col(mi, 'a6'), k(106))]}]),
               'under-not': conj([mp, {'not': eq(5, col(mi, 'a5'), k(105))}]),
               'table-const': conj([mp, eq(5, col(di, 'g5'), k(105)), eq(6, col(mi, 'a6'), k(106))])}
        if d2 is not None:
            ons['dup-two-tables'] = conj([mp, eq(2, col(mi, 'x1'), col(d2, 'k2'))])
        for oname, on in ons.items():
            for join in ('JOIN', 'INNER JOIN', 'LEFT JOIN'):
                for where in (None, conj([eq(8, col(mi, 'c8'), k(108)), eq(9, col(di, 'c9'), k(109))])):
                    x = copy.deepcopy(its)
                    for it in x[1:]:
                        it.setdefault('join', 'JOIN')
                    x[j]['join'], x[j]['on'] = join, on
                    yield case(f'model-on:{fname}:{oname}', x, where)
    # (6) a table of a schema that is named like the project
    for cat in CATALOGS:
        for tname in ('pred', 'pred2'):
            for order in range(2):
                sch = T('t2', schema=project_of(cat), tname=tname, alias='p', join='JOIN')
                its = [T('t1', alias='t'), sch, M('pred2', alias='m', join='JOIN')] if order == 0 else \
                    [dict(sch, join=None), M('pred2', alias='m', join='JOIN')]
                di = 1 if order == 0 else 0
                ats = [eq(1, col(di, 'c1'), k(101)), eq(2, col(len(its) - 1, 'c2'), k(102))] + \
                    ([eq(3, col(0, 'c3'), k(103))] if order == 0 else [])
                yield case('schema-table', its, conj(ats), None, cat)
                yield case('schema-table', its, None, [['p.opt', 1], ['m.opt2', 2]], cat)


def run_shard(col, k, nshards, tier, seed):
    n_extra = 0
    for i, c in enumerate(exhaustive_extra()):
        n_extra += 1
        if i % nshards == k:
            for r in judge(c, col):
                col.fail(r, c)
    if k == 0:
        col.exhaustive_parts.append(f'{n_extra} listed statements: un-aliased items sharing a name suffix (5 shapes x spellings x '
                                    f'ON), model JOIN table ON (3 data kinds x 3 joins x 4 ON forms x 3 WHERE), USING key forms '
                                    f'(plain / dotted / every qualifier of every item as prefix, 5 FROM shapes), two values for '
                                    f'one argument, to_predict shapes x column x comparison, tables of a schema named like the project')
    for i, c in enumerate(exhaustive_cases()):
        if i % nshards == k:
            for r in judge(c, col):
                col.fail(r, c)
    if k == 0:
        col.exhaustive_parts.append(f'WHERE trees: {len(EX_SKELETONS)} skeletons x all pairs of {len(EX_KINDS)} atom kinds x 3 FROM '
                                    f'shapes (table aliased / not aliased / aliased sub-select, one model)')
    hyp.explore(col, cases(), judge, N[tier], seed, shrink_key=lambda r: (r['kind'], r['site'][:40]))
